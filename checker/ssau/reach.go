// Package ssau is engine G: reachability, edge guards, must-pass-through and
// exit classification on go/ssa block graphs, plus callee resolution helpers.
package ssau

import (
	"go/constant"
	"go/token"
	"go/types"
	"strings"

	"golang.org/x/tools/go/ssa"
)

// Edge is a CFG edge identified by block indices.
type Edge struct{ From, To int }

// Cut describes what is removed from a function's CFG before a reachability query.
type Cut struct {
	Edges  map[Edge]bool
	Instrs map[ssa.Instruction]bool // control does not continue past these
}

func NewCut() *Cut { return &Cut{Edges: map[Edge]bool{}, Instrs: map[ssa.Instruction]bool{}} }

func (c *Cut) Clone() *Cut {
	n := NewCut()
	if c != nil {
		for e := range c.Edges {
			n.Edges[e] = true
		}
		for i := range c.Instrs {
			n.Instrs[i] = true
		}
	}
	return n
}

func (c *Cut) AddEdge(from, to *ssa.BasicBlock) { c.Edges[Edge{from.Index, to.Index}] = true }
func (c *Cut) AddInstr(i ssa.Instruction)       { c.Instrs[i] = true }

// Reach is the result of a reachability query.
type Reach struct {
	Fn      *ssa.Function
	cut     *Cut
	entered map[int]bool // block entered
	through map[int]bool // block executed to its end (no cut instr inside)
	pred    map[int]int  // BFS tree for witnesses
	start   ssa.Instruction

	partialThrough bool
	partialBlock   int
	partialIdx     int
	thrEdges       map[Edge]bool // edges taken out of threaded (const-phi) blocks
}

func stopIndex(b *ssa.BasicBlock, cut *Cut, from int) int {
	if cut == nil || len(cut.Instrs) == 0 {
		return -1
	}
	for i := from; i < len(b.Instrs); i++ {
		if cut.Instrs[b.Instrs[i]] {
			return i
		}
	}
	return -1
}

// ReachFromEntry computes reachability from the function entry under cut.
func ReachFromEntry(fn *ssa.Function, cut *Cut) *Reach {
	r := &Reach{Fn: fn, cut: cut, entered: map[int]bool{}, through: map[int]bool{}, pred: map[int]int{}}
	if len(fn.Blocks) == 0 {
		return r
	}
	r.bfs(fn.Blocks[0], 0)
	return r
}

// ReachAfter computes reachability starting just after instruction start.
func ReachAfter(fn *ssa.Function, start ssa.Instruction, cut *Cut) *Reach {
	r := &Reach{Fn: fn, cut: cut, entered: map[int]bool{}, through: map[int]bool{}, pred: map[int]int{}, start: start}
	b := start.Block()
	idx := 0
	for i, in := range b.Instrs {
		if in == start {
			idx = i + 1
		}
	}
	r.bfs(b, idx)
	return r
}

// constPhiArm: block b ends in an If whose condition is (modulo NOT) a phi of
// b; when b is entered from pred p and the phi's value on that edge is a
// boolean constant, only one arm can be taken. Returns that successor.
func constPhiArm(b *ssa.BasicBlock, p *ssa.BasicBlock) *ssa.BasicBlock {
	if p == nil || len(b.Instrs) == 0 {
		return nil
	}
	iff, ok := b.Instrs[len(b.Instrs)-1].(*ssa.If)
	if !ok {
		return nil
	}
	base, neg := StripNot(iff.Cond)
	phi, ok := base.(*ssa.Phi)
	if !ok || phi.Block() != b {
		return nil
	}
	for i, pr := range b.Preds {
		if pr != p {
			continue
		}
		c, ok := phi.Edges[i].(*ssa.Const)
		if !ok || c.Value == nil || c.Value.Kind() != constant.Bool {
			return nil
		}
		return Arm(iff, constant.BoolVal(c.Value) != neg)
	}
	return nil
}

func hasConstPhiIf(b *ssa.BasicBlock) bool {
	for _, p := range b.Preds {
		if constPhiArm(b, p) != nil {
			return true
		}
	}
	return false
}

// bfs explores from (startB, startIdx). Blocks whose If tests a phi of boolean
// constants are threaded per incoming edge (flag variables such as
// `found := false; for {... found = true; break}; if !found {...}`).
func (r *Reach) bfs(startB *ssa.BasicBlock, startIdx int) {
	type item struct {
		b    *ssa.BasicBlock
		idx  int
		from *ssa.BasicBlock
	}
	type vkey struct{ b, from int }
	visited := map[vkey]bool{}
	queue := []item{{startB, startIdx, nil}}
	first := true
	startPartial := startIdx > 0
	for len(queue) > 0 {
		it := queue[0]
		queue = queue[1:]
		b := it.b
		isFirst := first
		first = false
		threaded := it.from != nil && constPhiArm(b, it.from) != nil
		if !(isFirst && startPartial) {
			k := vkey{b.Index, -1}
			if threaded {
				k.from = it.from.Index
			}
			if visited[k] {
				continue
			}
			visited[k] = true
			// a non-threaded visit subsumes nothing about threaded ones; a block fully
			// explored without threading need not be re-explored with threading
			if threaded && visited[vkey{b.Index, -1}] {
				continue
			}
			r.entered[b.Index] = true
		}
		if stopIndex(b, r.cut, it.idx) >= 0 {
			continue
		}
		if !(isFirst && startPartial) {
			if !threaded {
				r.through[b.Index] = true
			}
		} else {
			r.partialThrough = true
			r.partialBlock = b.Index
			r.partialIdx = it.idx
		}
		var only *ssa.BasicBlock
		if threaded {
			only = constPhiArm(b, it.from)
		}
		for _, s := range b.Succs {
			if only != nil && s != only {
				continue
			}
			if r.cut != nil && r.cut.Edges[Edge{b.Index, s.Index}] {
				continue
			}
			if threaded {
				if r.thrEdges == nil {
					r.thrEdges = map[Edge]bool{}
				}
				r.thrEdges[Edge{b.Index, s.Index}] = true
			}
			if _, ok := r.pred[s.Index]; !ok && !r.entered[s.Index] {
				r.pred[s.Index] = b.Index
			}
			queue = append(queue, item{s, 0, b})
		}
	}
}

// Block reports whether the block is entered.
func (r *Reach) Block(b *ssa.BasicBlock) bool { return r.entered[b.Index] }

// Instr reports whether the instruction is reached (executed).
func (r *Reach) Instr(in ssa.Instruction) bool {
	b := in.Block()
	if b == nil {
		return false
	}
	idx := -1
	for i, x := range b.Instrs {
		if x == in {
			idx = i
			break
		}
	}
	if idx < 0 {
		return false
	}
	if r.entered[b.Index] {
		s := stopIndex(b, r.cut, 0)
		if s < 0 || idx <= s {
			return true
		}
	}
	if r.start != nil && r.start.Block() == b && idx >= r.partialIdx && r.partialIdx > 0 {
		s := stopIndex(b, r.cut, r.partialIdx)
		if s < 0 || idx <= s {
			return true
		}
	}
	return false
}

// EdgeReachable reports whether control can flow along from->to.
func (r *Reach) EdgeReachable(from, to *ssa.BasicBlock) bool {
	if r.cut != nil && r.cut.Edges[Edge{from.Index, to.Index}] {
		return false
	}
	if r.through[from.Index] {
		return true
	}
	if r.thrEdges[Edge{from.Index, to.Index}] {
		return true
	}
	if r.partialThrough && r.partialBlock == from.Index {
		return true
	}
	return false
}

// Path returns the block index path (BFS tree) from the start to b.
func (r *Reach) Path(b *ssa.BasicBlock) []int {
	var p []int
	cur := b.Index
	seen := map[int]bool{}
	for {
		p = append([]int{cur}, p...)
		seen[cur] = true
		pr, ok := r.pred[cur]
		if !ok || seen[pr] {
			break
		}
		cur = pr
	}
	return p
}

// ---------------------------------------------------------------------------
// condition normalisation

// StripNot removes UnOp NOT wrappers; neg is true for an odd number of them.
func StripNot(v ssa.Value) (ssa.Value, bool) {
	neg := false
	for {
		u, ok := v.(*ssa.UnOp)
		if !ok || u.Op != token.NOT {
			return v, neg
		}
		v = u.X
		neg = !neg
	}
}

func IsNilConst(v ssa.Value) bool {
	c, ok := v.(*ssa.Const)
	return ok && c.Value == nil && !isBasic(c.Type())
}

func isBasic(t types.Type) bool {
	_, ok := t.Underlying().(*types.Basic)
	return ok
}

// NilTest recognises cond as "x == nil" / "x != nil" (modulo NOT) and
// returns x and whether the true arm means x is nil.
func NilTest(cond ssa.Value) (x ssa.Value, trueIsNil bool, ok bool) {
	c, neg := StripNot(cond)
	b, isb := c.(*ssa.BinOp)
	if !isb || (b.Op != token.EQL && b.Op != token.NEQ) {
		return nil, false, false
	}
	var v ssa.Value
	switch {
	case IsNilConst(b.Y):
		v = b.X
	case IsNilConst(b.X):
		v = b.Y
	default:
		return nil, false, false
	}
	t := b.Op == token.EQL
	if neg {
		t = !t
	}
	return v, t, true
}

// Unwrap strips interface conversions so that "the same value" is recognised
// across ChangeInterface/MakeInterface/ChangeType.
// ParamSubst maps parameters of a helper function that is being analysed "as if inlined" at one call site to
// the arguments of that call. It is set by the engine for the duration of such an analysis only; Unwrap and
// DependsOn see through it, so role-based matchers keep working inside extracted helpers.
var ParamSubst = map[*ssa.Parameter]ssa.Value{}

// WithParamSubst runs fn with the parameters of callee bound to the arguments of call.
func WithParamSubst(call *ssa.Call, fn func()) {
	h := call.Call.StaticCallee()
	if h == nil {
		fn()
		return
	}
	var set []*ssa.Parameter
	for i, p := range h.Params {
		if i < len(call.Call.Args) {
			if _, dup := ParamSubst[p]; !dup {
				ParamSubst[p] = call.Call.Args[i]
				set = append(set, p)
			}
		}
	}
	defer func() {
		for _, p := range set {
			delete(ParamSubst, p)
		}
	}()
	fn()
}

func Unwrap(v ssa.Value) ssa.Value {
	for n := 0; n < 64; n++ {
		switch x := v.(type) {
		case *ssa.ChangeInterface:
			v = x.X
		case *ssa.ChangeType:
			v = x.X
		case *ssa.Convert:
			v = x.X
		case *ssa.Parameter:
			if a, ok := ParamSubst[x]; ok {
				v = a
				continue
			}
			return v
		default:
			return v
		}
	}
	return v
}

// SameValue reports whether a and b denote the same SSA value, allowing for
// conversions and for a reload of the same Alloc within straight-line code.
func SameValue(a, b ssa.Value) bool {
	a, b = Unwrap(a), Unwrap(b)
	if a == b {
		return true
	}
	return false
}

// Ifs returns every If instruction of fn.
func Ifs(fn *ssa.Function) []*ssa.If {
	var out []*ssa.If
	for _, b := range fn.Blocks {
		if len(b.Instrs) == 0 {
			continue
		}
		if i, ok := b.Instrs[len(b.Instrs)-1].(*ssa.If); ok {
			out = append(out, i)
		}
	}
	return out
}

// Arm returns the successor taken when the If condition evaluates to val.
func Arm(i *ssa.If, val bool) *ssa.BasicBlock {
	if val {
		return i.Block().Succs[0]
	}
	return i.Block().Succs[1]
}

// Aliases returns v plus values known to be copies of it: loads of an Alloc
// that v was stored to, when that Alloc has exactly one store per ... (kept
// simple: loads located after the store in the same block, with no
// intervening store), and Extract/ChangeInterface wrappers.
func Aliases(v ssa.Value) []ssa.Value {
	out := []ssa.Value{v}
	refs := v.Referrers()
	if refs == nil {
		return out
	}
	for _, ref := range *refs {
		switch r := ref.(type) {
		case *ssa.Store:
			if r.Val != v {
				continue
			}
			b := r.Block()
			after := false
			for _, in := range b.Instrs {
				if in == ssa.Instruction(r) {
					after = true
					continue
				}
				if !after {
					continue
				}
				if st, ok := in.(*ssa.Store); ok && st.Addr == r.Addr {
					break
				}
				if u, ok := in.(*ssa.UnOp); ok && u.Op == token.MUL && u.X == r.Addr {
					out = append(out, u)
				}
			}
		case *ssa.ChangeInterface:
			out = append(out, Aliases(r)...)
		case *ssa.MakeInterface:
			out = append(out, Aliases(r)...)
		case *ssa.ChangeType:
			out = append(out, Aliases(r)...)
		}
	}
	return out
}

// ---------------------------------------------------------------------------
// exit classification

// ExitKind classifies one return.
type ExitKind int

const (
	ExitFail    ExitKind = iota // provably reject / non-nil error / false
	ExitSuccess                 // nil error / true / possibly nil
)

// ErrCtor reports whether fn is a known error constructor (always non-nil).
func ErrCtor(fn *ssa.Function) bool {
	if fn == nil {
		return false
	}
	name := fn.String()
	switch name {
	case "errors.New", "fmt.Errorf":
		return true
	}
	if strings.HasPrefix(name, "github.com/elastos/Elastos.ELA/errors.Simple") {
		return true
	}
	// small constructors whose every return is a MakeInterface / ctor
	if fn.Blocks == nil || fn.Signature.Results().Len() != 1 {
		return false
	}
	if ctorMemo == nil {
		ctorMemo = map[*ssa.Function]int{}
	}
	switch ctorMemo[fn] {
	case 1:
		return true
	case 2, 3:
		return false
	}
	ctorMemo[fn] = 3
	ok := true
	n := 0
	for _, b := range fn.Blocks {
		for _, in := range b.Instrs {
			if ret, isRet := in.(*ssa.Return); isRet {
				n++
				if !nonNilValue(ret.Results[0], map[ssa.Value]bool{}) {
					ok = false
				}
			}
		}
	}
	if ok && n > 0 && len(fn.Blocks) <= 6 {
		ctorMemo[fn] = 1
		return true
	}
	ctorMemo[fn] = 2
	return false
}

var ctorMemo map[*ssa.Function]int

func nonNilValue(v ssa.Value, seen map[ssa.Value]bool) bool {
	if seen[v] {
		return true
	}
	seen[v] = true
	switch x := v.(type) {
	case *ssa.MakeInterface:
		return true
	case *ssa.Call:
		return ErrCtor(x.Call.StaticCallee())
	case *ssa.ChangeInterface:
		return nonNilValue(x.X, seen)
	case *ssa.Phi:
		for _, e := range x.Edges {
			if !nonNilValue(e, seen) {
				return false
			}
		}
		return true
	}
	return false
}

// ExitClassifier decides which returns of a function are success exits.
type ExitClassifier struct {
	Fn *ssa.Function
	// Idx is the result index holding the verdict.
	Idx int
	// BoolSuccess is the boolean value meaning success when the result is bool.
	BoolSuccess bool
	// Extra lets a rule treat a call result as success/fail: return 1 = fail, 2 = success, 0 = unknown.
	Extra func(v ssa.Value) int
}

// Returns lists the Return instructions of fn.
func Returns(fn *ssa.Function) []*ssa.Return {
	var out []*ssa.Return
	for _, b := range fn.Blocks {
		for _, in := range b.Instrs {
			if r, ok := in.(*ssa.Return); ok {
				out = append(out, r)
			}
		}
	}
	return out
}

// SuccessExits returns the returns that are reachable under cut and may
// deliver a success verdict.
func (ec *ExitClassifier) SuccessExits(cut *Cut) []*ssa.Return {
	r := ReachFromEntry(ec.Fn, cut)
	return ec.SuccessExitsIn(r, cut)
}

func (ec *ExitClassifier) SuccessExitsIn(r *Reach, cut *Cut) []*ssa.Return {
	var out []*ssa.Return
	for _, ret := range Returns(ec.Fn) {
		if !r.Instr(ret) {
			continue
		}
		if ec.Idx >= len(ret.Results) {
			continue
		}
		if ec.maySucceed(ret.Results[ec.Idx], ret.Block(), r, cut, map[ssa.Value]bool{}) {
			out = append(out, ret)
		}
	}
	return out
}

// FailExits returns reachable returns that provably deliver failure.
func (ec *ExitClassifier) FailExitsIn(r *Reach, cut *Cut) []*ssa.Return {
	var out []*ssa.Return
	for _, ret := range Returns(ec.Fn) {
		if !r.Instr(ret) {
			continue
		}
		if ec.Idx >= len(ret.Results) {
			continue
		}
		if !ec.maySucceed(ret.Results[ec.Idx], ret.Block(), r, cut, map[ssa.Value]bool{}) {
			out = append(out, ret)
		}
	}
	return out
}

// IsBoolVerdict reports whether the classified result is a bool.
func (ec *ExitClassifier) IsBoolVerdict() bool { return ec.isBool() }

func (ec *ExitClassifier) isBool() bool {
	res := ec.Fn.Signature.Results()
	if ec.Idx >= res.Len() {
		return false
	}
	b, ok := res.At(ec.Idx).Type().Underlying().(*types.Basic)
	return ok && b.Kind() == types.Bool
}

func (ec *ExitClassifier) maySucceed(v ssa.Value, at *ssa.BasicBlock, r *Reach, cut *Cut, seen map[ssa.Value]bool) bool {
	v = ResolveSpill(v)
	if seen[v] {
		return false
	}
	seen[v] = true
	if ec.Extra != nil {
		switch ec.Extra(v) {
		case 1:
			return false
		case 2:
			return true
		}
	}
	if ec.isBool() {
		switch x := v.(type) {
		case *ssa.Const:
			if x.Value != nil && x.Value.Kind() == constant.Bool {
				return constant.BoolVal(x.Value) == ec.BoolSuccess
			}
			return true
		case *ssa.Phi:
			for i, e := range x.Edges {
				if !r.EdgeReachable(x.Block().Preds[i], x.Block()) {
					continue
				}
				if ec.maySucceed(e, at, r, cut, seen) {
					return true
				}
			}
			return false
		case *ssa.UnOp:
			if x.Op == token.NOT {
				sub := *ec
				sub.BoolSuccess = !ec.BoolSuccess
				return sub.maySucceed(x.X, at, r, cut, seen)
			}
		}
		// guarded by a test of the same value?
		if guardedBool(ec.Fn, v, at, cut, !ec.BoolSuccess) {
			return false
		}
		return true
	}
	// error-like
	if IsNilConst(v) {
		return true
	}
	if guardedNonNil(ec.Fn, v, at, cut) {
		return false
	}
	switch x := v.(type) {
	case *ssa.MakeInterface:
		return false
	case *ssa.UnOp:
		// a package-level sentinel error (var ErrX = errors.New(...)) is never nil
		if g, ok := x.X.(*ssa.Global); ok && x.Op == token.MUL && strings.HasPrefix(g.Name(), "Err") {
			return false
		}
	case *ssa.ChangeInterface:
		return ec.maySucceed(x.X, at, r, cut, seen)
	case *ssa.Call:
		if ErrCtor(x.Call.StaticCallee()) {
			return false
		}
		return true
	case *ssa.Phi:
		for i, e := range x.Edges {
			if !r.EdgeReachable(x.Block().Preds[i], x.Block()) {
				continue
			}
			if ec.maySucceed(e, at, r, cut, seen) {
				return true
			}
		}
		return false
	}
	return true
}

// guardedNonNil: block `at` is reachable only through the non-nil arm of a
// nil test on v (or an alias of v).
func guardedNonNil(fn *ssa.Function, v ssa.Value, at *ssa.BasicBlock, cut *Cut) bool {
	c := cut.Clone()
	found := false
	for _, i := range Ifs(fn) {
		x, trueIsNil, ok := NilTest(i.Cond)
		if !ok {
			continue
		}
		if !sameOrAlias(x, v) {
			continue
		}
		found = true
		// remove the arm on which v is non-nil: if `at` becomes unreachable, it is guarded
		c.AddEdge(i.Block(), Arm(i, !trueIsNil))
	}
	if !found {
		return false
	}
	return !ReachFromEntry(fn, c).Block(at)
}

func guardedBool(fn *ssa.Function, v ssa.Value, at *ssa.BasicBlock, cut *Cut, val bool) bool {
	// is `at` reachable only via arms where v == val ?
	c := cut.Clone()
	found := false
	for _, i := range Ifs(fn) {
		x, neg := StripNot(i.Cond)
		if !sameOrAlias(x, v) {
			continue
		}
		found = true
		// remove the arm on which v == val: if `at` becomes unreachable, it is guarded
		c.AddEdge(i.Block(), Arm(i, val != neg))
	}
	if !found {
		return false
	}
	return !ReachFromEntry(fn, c).Block(at)
}

func sameOrAlias(x, v ssa.Value) bool {
	x, v = Unwrap(x), Unwrap(v)
	if x == v {
		return true
	}
	// loads of the same non-escaping-by-store Alloc with a single dominating store are not tracked;
	// handle load/load of same address in same block
	ux, ok1 := x.(*ssa.UnOp)
	uv, ok2 := v.(*ssa.UnOp)
	if ok1 && ok2 && ux.Op == token.MUL && uv.Op == token.MUL && ux.X == uv.X {
		return noStoreBetween(ux, uv)
	}
	return false
}

// noStoreBetween: both loads of the same address; true when no store to that
// address can execute between them. Conservative: same block, or the address
// is an Alloc with no Store located in a block other than the one holding the
// earlier load's defining store... kept simple: require no Store to the address
// anywhere except before the first load in its block.
func noStoreBetween(a, b *ssa.UnOp) bool {
	addr := a.X
	refs := addr.Referrers()
	if refs == nil {
		return false
	}
	// collect stores
	var stores []*ssa.Store
	for _, r := range *refs {
		if s, ok := r.(*ssa.Store); ok && s.Addr == addr {
			stores = append(stores, s)
		} else if _, ok := r.(*ssa.UnOp); ok {
		} else {
			// address escapes (passed to call, captured): give up unless same block
			if a.Block() != b.Block() {
				return false
			}
		}
	}
	if a.Block() == b.Block() {
		ia, ib := indexIn(a), indexIn(b)
		if ia > ib {
			ia, ib = ib, ia
		}
		for _, s := range stores {
			if s.Block() == a.Block() {
				is := indexIn(s)
				if is > ia && is < ib {
					return false
				}
			}
		}
		// calls between may modify through escaped address; ignore (alloc escapes only via closures)
		return true
	}
	// different blocks: accept when every store is in a block that dominates both loads' blocks
	// and appears before them (single assignment then reads)
	for _, s := range stores {
		if !(s.Block().Dominates(a.Block()) && s.Block().Dominates(b.Block())) {
			return false
		}
		if s.Block() == a.Block() && indexIn(s) > indexIn(a) {
			return false
		}
		if s.Block() == b.Block() && indexIn(s) > indexIn(b) {
			return false
		}
	}
	return len(stores) > 0
}

func indexIn(in ssa.Instruction) int {
	for i, x := range in.Block().Instrs {
		if x == in {
			return i
		}
	}
	return -1
}

// ResolveSpill undoes go/ssa's spilling of results in functions with defers:
// `*r = X; rundefers; t = *r; return t` yields X for t. Other values are
// returned unchanged.
func ResolveSpill(v ssa.Value) ssa.Value {
	u, ok := v.(*ssa.UnOp)
	if !ok || u.Op != token.MUL {
		return v
	}
	a, ok := u.X.(*ssa.Alloc)
	if !ok {
		return v
	}
	b := u.Block()
	var last ssa.Value
	for _, in := range b.Instrs {
		if in == ssa.Instruction(u) {
			break
		}
		if st, ok := in.(*ssa.Store); ok && st.Addr == ssa.Value(a) {
			last = st.Val
		}
	}
	if last != nil {
		return last
	}
	// single predecessor chain without stores in between
	cur := b
	for steps := 0; steps < 8 && len(cur.Preds) == 1; steps++ {
		cur = cur.Preds[0]
		for i := len(cur.Instrs) - 1; i >= 0; i-- {
			if st, ok := cur.Instrs[i].(*ssa.Store); ok && st.Addr == ssa.Value(a) {
				return st.Val
			}
		}
	}
	return v
}
