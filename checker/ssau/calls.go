package ssau

import (
	"fmt"
	"go/token"
	"go/types"
	"sort"
	"strings"

	"golang.org/x/tools/go/ssa"
)

const mod = "github.com/elastos/Elastos.ELA"

// FuncRef names a function or method by package (module-relative, or a full
// path for packages outside the module), receiver type name and name. An
// empty Recv with Name matches package-level functions; Recv "*" matches any
// receiver.
type FuncRef struct {
	Pkg, Recv, Name string
}

func (f FuncRef) String() string {
	if f.Recv != "" {
		return fmt.Sprintf("%s.(%s).%s", f.Pkg, f.Recv, f.Name)
	}
	return fmt.Sprintf("%s.%s", f.Pkg, f.Name)
}

func relPkg(p *types.Package) string {
	if p == nil {
		return ""
	}
	path := p.Path()
	if path == mod {
		return "main"
	}
	return strings.TrimPrefix(path, mod+"/")
}

// RecvName returns the receiver's named type name of a method object ("" for functions).
func RecvName(fn *types.Func) string {
	sig, ok := fn.Type().(*types.Signature)
	if !ok || sig.Recv() == nil {
		return ""
	}
	t := sig.Recv().Type()
	if p, ok := t.(*types.Pointer); ok {
		t = p.Elem()
	}
	if n, ok := t.(*types.Named); ok {
		return n.Obj().Name()
	}
	return "?"
}

// CalleeObj returns the *types.Func a call refers to: static callee's object,
// or the interface method for invoke-mode calls. nil for dynamic calls.
func CalleeObj(c *ssa.CallCommon) *types.Func {
	if c.IsInvoke() {
		return c.Method
	}
	if f := c.StaticCallee(); f != nil {
		if o, ok := f.Object().(*types.Func); ok {
			return o
		}
		// instantiated generic / wrapper
		if f.Origin() != nil {
			if o, ok := f.Origin().Object().(*types.Func); ok {
				return o
			}
		}
	}
	return nil
}

// Match reports whether the call refers to ref.
func (ref FuncRef) Match(c *ssa.CallCommon) bool {
	return ref.MatchObj(CalleeObj(c))
}

func (ref FuncRef) MatchObj(o *types.Func) bool {
	if o == nil || o.Name() != ref.Name {
		return false
	}
	if relPkg(o.Pkg()) != ref.Pkg {
		return false
	}
	rn := RecvName(o)
	if ref.Recv == "*" {
		return true
	}
	return rn == ref.Recv
}

// MatchAny builds a predicate over a set of refs.
func MatchAny(refs ...FuncRef) func(*ssa.CallCommon) bool {
	return func(c *ssa.CallCommon) bool {
		for _, r := range refs {
			if r.Match(c) {
				return true
			}
		}
		return false
	}
}

// CallInstr is any instruction carrying a call (Call, Defer, Go).
func CallsIn(fn *ssa.Function, pred func(*ssa.CallCommon) bool) []ssa.CallInstruction {
	var out []ssa.CallInstruction
	for _, b := range fn.Blocks {
		for _, in := range b.Instrs {
			if ci, ok := in.(ssa.CallInstruction); ok {
				if pred(ci.Common()) {
					out = append(out, ci)
				}
			}
		}
	}
	return out
}

// CallsInDeep also searches anonymous functions nested in fn.
func CallsInDeep(fn *ssa.Function, pred func(*ssa.CallCommon) bool) []ssa.CallInstruction {
	out := CallsIn(fn, pred)
	for _, a := range fn.AnonFuncs {
		out = append(out, CallsInDeep(a, pred)...)
	}
	return out
}

// ErrResult returns the value(s) holding result #idx of a call: the call
// itself for single-result calls, or the Extract instructions.
func ResultValues(ci ssa.CallInstruction, idx int) []ssa.Value {
	call, ok := ci.(*ssa.Call)
	if !ok {
		return nil
	}
	res := call.Call.Signature().Results()
	if res.Len() == 1 {
		if idx == 0 {
			return []ssa.Value{call}
		}
		return nil
	}
	var out []ssa.Value
	if refs := call.Referrers(); refs != nil {
		for _, r := range *refs {
			if e, ok := r.(*ssa.Extract); ok && e.Index == idx {
				out = append(out, e)
			}
		}
	}
	return out
}

// LastErrIndex returns the index of the last result when it is error-like
// (interface type), else -1.
func VerdictIndex(sig *types.Signature) int {
	res := sig.Results()
	for i := res.Len() - 1; i >= 0; i-- {
		t := res.At(i).Type()
		if types.IsInterface(t) {
			return i
		}
	}
	for i := res.Len() - 1; i >= 0; i-- {
		if b, ok := res.At(i).Type().Underlying().(*types.Basic); ok && b.Kind() == types.Bool {
			return i
		}
	}
	return -1
}

// VerdictIndexes lists every result position that can carry a verdict: the error-like result and each bool.
func VerdictIndexes(sig *types.Signature) []int {
	var out []int
	res := sig.Results()
	if i := VerdictIndex(sig); i >= 0 {
		out = append(out, i)
	}
	for i := 0; i < res.Len(); i++ {
		if b, ok := res.At(i).Type().Underlying().(*types.Basic); ok && b.Kind() == types.Bool {
			dup := false
			for _, o := range out {
				if o == i {
					dup = true
				}
			}
			if !dup {
				out = append(out, i)
			}
		}
	}
	return out
}

// PassEdges finds the If instructions that test result value v of a call and
// returns the edges taken when the call "passed": for error-like results the
// nil arm, for bool results the arm where v == passVal.
func PassEdges(fn *ssa.Function, v ssa.Value, passVal bool) (edges [][2]*ssa.BasicBlock, tested bool) {
	aliases := Aliases(v)
	isAlias := func(x ssa.Value) bool {
		x = Unwrap(x)
		for _, a := range aliases {
			if Unwrap(a) == x {
				return true
			}
		}
		return false
	}
	isBool := false
	if b, ok := v.Type().Underlying().(*types.Basic); ok && b.Kind() == types.Bool {
		isBool = true
	}
	for _, i := range Ifs(fn) {
		if isBool {
			x, neg := StripNot(i.Cond)
			if isAlias(x) {
				tested = true
				// arm where v == passVal : cond == (passVal != neg)
				edges = append(edges, [2]*ssa.BasicBlock{i.Block(), Arm(i, passVal != neg)})
			}
			continue
		}
		x, trueIsNil, ok := NilTest(i.Cond)
		if ok && isAlias(x) {
			tested = true
			edges = append(edges, [2]*ssa.BasicBlock{i.Block(), Arm(i, trueIsNil)})
		}
	}
	return
}

// ReturnedDirectly reports whether v flows into a Return operand (possibly through phi).
func ReturnedDirectly(v ssa.Value) bool {
	seen := map[ssa.Value]bool{}
	var walk func(x ssa.Value) bool
	walk = func(x ssa.Value) bool {
		if seen[x] {
			return false
		}
		seen[x] = true
		refs := x.Referrers()
		if refs == nil {
			return false
		}
		for _, r := range *refs {
			switch y := r.(type) {
			case *ssa.Return:
				return true
			case *ssa.Phi:
				if walk(y) {
					return true
				}
			case *ssa.ChangeInterface:
				if walk(y) {
					return true
				}
			case *ssa.Store:
				// result spill of functions with defers: *r = v; rundefers; t = *r; return t
				if y.Val == x {
					if a, ok := y.Addr.(*ssa.Alloc); ok {
						if ar := a.Referrers(); ar != nil {
							for _, l := range *ar {
								if u, ok := l.(*ssa.UnOp); ok && u.Op == token.MUL && walk(u) {
									return true
								}
							}
						}
					}
				}
			}
		}
		return false
	}
	return walk(v)
}

// CheckedCut builds the cut that removes, for every call matched by pred,
// the continuation on which that call passed. Calls whose verdict is neither
// tested nor returned are listed in unchecked and contribute nothing.
func CheckedCut(fn *ssa.Function, calls []ssa.CallInstruction, passVal bool) (cut *Cut, unchecked []ssa.CallInstruction) {
	cut = NewCut()
	for _, ci := range calls {
		res := ci.Common().Signature().Results()
		var idxs []int
		for i := 0; i < res.Len(); i++ {
			t := res.At(i).Type()
			if b, ok := t.Underlying().(*types.Basic); ok && b.Kind() == types.Bool {
				idxs = append(idxs, i)
			} else if types.IsInterface(t) && isErrorLike(t) {
				idxs = append(idxs, i)
			}
		}
		if len(idxs) == 0 {
			// no verdict: a plain must-pass
			cut.AddInstr(ci)
			continue
		}
		ok := false
		for _, idx := range idxs {
			for _, v := range ResultValues(ci, idx) {
				edges, tested := PassEdges(fn, v, passVal)
				if tested {
					ok = true
					for _, e := range edges {
						cut.AddEdge(e[0], e[1])
					}
				}
				if ReturnedDirectly(v) {
					ok = true
					// delegated: the return of v is success only if the call passed
					cut.AddInstr(ci)
				}
			}
		}
		if !ok {
			unchecked = append(unchecked, ci)
		}
	}
	return
}

func isErrorLike(t types.Type) bool {
	it, ok := t.Underlying().(*types.Interface)
	if !ok {
		return false
	}
	for i := 0; i < it.NumMethods(); i++ {
		if it.Method(i).Name() == "Error" {
			return true
		}
	}
	return false
}

// Describe renders a block path as source positions of its branch instructions.
func DescribePath(fn *ssa.Function, path []int, pos func(token.Pos) string) string {
	var parts []string
	for _, bi := range path {
		b := fn.Blocks[bi]
		p := token.NoPos
		for _, in := range b.Instrs {
			if in.Pos().IsValid() {
				p = in.Pos()
				break
			}
		}
		s := fmt.Sprintf("b%d", bi)
		if b.Comment != "" {
			s += "(" + b.Comment + ")"
		}
		if p.IsValid() {
			s += "@" + lineOnly(pos(p))
		}
		parts = append(parts, s)
	}
	if len(parts) > 14 {
		parts = append(parts[:6], append([]string{"..."}, parts[len(parts)-7:]...)...)
	}
	return strings.Join(parts, " -> ")
}

func lineOnly(s string) string {
	if i := strings.LastIndex(s, ":"); i >= 0 {
		return "L" + s[i+1:]
	}
	return s
}

// DependsOn computes a backward def-use slice from v inside its function and
// reports whether any value in the slice satisfies pred. Calls are opaque: the
// result depends on all operands (incl. receiver).
func DependsOn(v ssa.Value, pred func(ssa.Value) bool) bool {
	return DependsOnCut(v, pred, nil)
}

// DependsOnCut is DependsOn that does not look behind values for which cut holds.
func DependsOnCut(v ssa.Value, pred func(ssa.Value) bool, cut func(ssa.Value) bool) bool {
	seen := map[ssa.Value]bool{}
	depth := 0
	var walk func(x ssa.Value) bool
	walk = func(x ssa.Value) bool {
		if x == nil || seen[x] {
			return false
		}
		seen[x] = true
		if cut != nil && cut(x) {
			return false
		}
		if pred(x) {
			return true
		}
		if p, ok := x.(*ssa.Parameter); ok {
			if a, ok := ParamSubst[p]; ok {
				return walk(a)
			}
		}
		in, ok := x.(ssa.Instruction)
		if !ok {
			return false
		}
		for _, op := range in.Operands(nil) {
			if *op != nil && walk(*op) {
				return true
			}
		}
		// a call of a small helper of the repository: the result also depends on what the helper's returned
		// values are computed from (its parameters are covered by the arguments visited above)
		if cl, ok := x.(*ssa.Call); ok && depth < 2 {
			if h := cl.Call.StaticCallee(); h != nil && h.Pkg != nil && len(h.Blocks) > 0 && len(h.Blocks) <= 12 &&
				strings.HasPrefix(h.Pkg.Pkg.Path(), "github.com/elastos/Elastos.ELA") && h != cl.Parent() {
				depth++
				for _, b := range h.Blocks {
					if ret, ok := b.Instrs[len(b.Instrs)-1].(*ssa.Return); ok {
						for _, rv := range ret.Results {
							if walk(rv) {
								depth--
								return true
							}
						}
					}
				}
				depth--
			}
		}
		// a buffer filled by the copy builtin depends on the copied source
		switch x.(type) {
		case *ssa.MakeSlice, *ssa.Slice:
			if refs := x.Referrers(); refs != nil {
				for _, r := range *refs {
					if cl, ok := r.(*ssa.Call); ok {
						if bi, ok := cl.Call.Value.(*ssa.Builtin); ok && bi.Name() == "copy" && len(cl.Call.Args) == 2 && cl.Call.Args[0] == x {
							if walk(cl.Call.Args[1]) {
								return true
							}
						}
					}
				}
			}
		}
		// an Alloc used as a value (slice of a varargs array, address passed on) depends on what is stored in it
		if a, ok := x.(*ssa.Alloc); ok {
			for _, st := range StoresInto(a) {
				if walk(st.Val) {
					return true
				}
			}
			if allocCopiedFrom(a, walk) {
				return true
			}
		}
		// loads from (a part of) an Alloc depend on the values stored to (any part of) it
		if u, ok := x.(*ssa.UnOp); ok && u.Op == token.MUL {
			if root, ok := AddrRoot(u.X).(*ssa.Alloc); ok {
				for _, st := range StoresInto(root) {
					if walk(st.Val) {
						return true
					}
				}
				if allocCopiedFrom(root, walk) {
					return true
				}
			}
		}
		return false
	}
	return walk(v)
}

// allocCopiedFrom: an array variable that is filled through copy(a[:], src) depends on src.
func allocCopiedFrom(a *ssa.Alloc, walk func(ssa.Value) bool) bool {
	refs := a.Referrers()
	if refs == nil {
		return false
	}
	for _, r := range *refs {
		sl, ok := r.(*ssa.Slice)
		if !ok || sl.Referrers() == nil {
			continue
		}
		for _, r2 := range *sl.Referrers() {
			if cl, ok := r2.(*ssa.Call); ok {
				if bi, ok := cl.Call.Value.(*ssa.Builtin); ok && bi.Name() == "copy" && len(cl.Call.Args) == 2 && cl.Call.Args[0] == ssa.Value(sl) {
					if walk(cl.Call.Args[1]) {
						return true
					}
				}
			}
		}
	}
	return false
}

// DependsOnPrecise is DependsOn except that the result of a small repository helper (at most 12 blocks) depends
// only on what the helper's returned value in that result position is computed from, its parameters standing for
// the call's arguments; the other arguments of the call do not count.
func DependsOnPrecise(v ssa.Value, pred func(ssa.Value) bool) bool {
	seen := map[ssa.Value]bool{}
	var walk func(x ssa.Value, depth int) bool
	small := func(cl *ssa.Call) *ssa.Function {
		h := cl.Call.StaticCallee()
		if h != nil && h.Pkg != nil && len(h.Blocks) > 0 && len(h.Blocks) <= 12 && strings.HasPrefix(h.Pkg.Pkg.Path(), "github.com/elastos/Elastos.ELA") && h != cl.Parent() {
			return h
		}
		return nil
	}
	walk = func(x ssa.Value, depth int) bool {
		if x == nil || seen[x] {
			return false
		}
		seen[x] = true
		idx := 0
		var cl *ssa.Call
		if e, ok := x.(*ssa.Extract); ok {
			if c2, ok := e.Tuple.(*ssa.Call); ok {
				cl, idx = c2, e.Index
			}
		} else if c2, ok := x.(*ssa.Call); ok {
			cl = c2
		}
		if cl != nil && depth < 2 {
			if h := small(cl); h != nil {
				if pred(x) {
					return true
				}
				found := false
				WithParamSubst(cl, func() {
					for _, b := range h.Blocks {
						if ret, ok := b.Instrs[len(b.Instrs)-1].(*ssa.Return); ok && idx < len(ret.Results) {
							if walk(ret.Results[idx], depth+1) {
								found = true
								return
							}
						}
					}
				})
				return found
			}
		}
		if p, ok := x.(*ssa.Parameter); ok {
			if a, ok := ParamSubst[p]; ok {
				return walk(a, depth)
			}
		}
		if pred(x) {
			return true
		}
		in, ok := x.(ssa.Instruction)
		if !ok {
			return false
		}
		for _, op := range in.Operands(nil) {
			if *op != nil && walk(*op, depth) {
				return true
			}
		}
		if a, ok := x.(*ssa.Alloc); ok {
			for _, st := range StoresInto(a) {
				if walk(st.Val, depth) {
					return true
				}
			}
		}
		if u, ok := x.(*ssa.UnOp); ok && u.Op == token.MUL {
			if root, ok := AddrRoot(u.X).(*ssa.Alloc); ok {
				for _, st := range StoresInto(root) {
					if walk(st.Val, depth) {
						return true
					}
				}
			}
		}
		return false
	}
	return walk(v, 0)
}

// Slice returns the backward slice as a set.
func Slice(v ssa.Value) map[ssa.Value]bool {
	seen := map[ssa.Value]bool{}
	DependsOn(v, func(x ssa.Value) bool { seen[x] = true; return false })
	return seen
}

// IsCallTo: v (modulo Extract) is the result of a call matched by pred.
func IsCallTo(v ssa.Value, pred func(*ssa.CallCommon) bool) bool {
	switch x := v.(type) {
	case *ssa.Call:
		return pred(&x.Call)
	case *ssa.Extract:
		if c, ok := x.Tuple.(*ssa.Call); ok {
			return pred(&c.Call)
		}
	}
	return false
}

// FieldRead: v is a load (or address) of a struct field with the given name on a type named tname.
func IsFieldOf(v ssa.Value, tname, fname string) bool {
	var fa *ssa.FieldAddr
	switch x := v.(type) {
	case *ssa.UnOp:
		if x.Op != token.MUL {
			return false
		}
		f, ok := x.X.(*ssa.FieldAddr)
		if !ok {
			return false
		}
		fa = f
	case *ssa.FieldAddr:
		fa = x
	case *ssa.Field:
		st, ok := x.X.Type().Underlying().(*types.Struct)
		if !ok {
			return false
		}
		if st.Field(x.Field).Name() != fname {
			return false
		}
		return tname == "" || typeName(x.X.Type()) == tname
	default:
		return false
	}
	pt, ok := fa.X.Type().Underlying().(*types.Pointer)
	if !ok {
		return false
	}
	st, ok := pt.Elem().Underlying().(*types.Struct)
	if !ok {
		return false
	}
	if st.Field(fa.Field).Name() != fname {
		return false
	}
	return tname == "" || typeName(pt.Elem()) == tname
}

func typeName(t types.Type) string {
	if p, ok := t.(*types.Pointer); ok {
		t = p.Elem()
	}
	if n, ok := t.(*types.Named); ok {
		return n.Obj().Name()
	}
	return ""
}

// TypeName exported.
func TypeName(t types.Type) string { return typeName(t) }

// SortedKeys helper.
func SortedKeys(m map[string]bool) []string {
	out := make([]string, 0, len(m))
	for k := range m {
		out = append(out, k)
	}
	sort.Strings(out)
	return out
}

// AddrRoot strips FieldAddr/IndexAddr to the base pointer.
func AddrRoot(v ssa.Value) ssa.Value {
	for {
		switch x := v.(type) {
		case *ssa.FieldAddr:
			v = x.X
		case *ssa.IndexAddr:
			v = x.X
		default:
			return v
		}
	}
}

// StoresInto lists stores whose address is rooted at alloc a (within a's function).
func StoresInto(a *ssa.Alloc) []*ssa.Store {
	var out []*ssa.Store
	seen := map[ssa.Value]bool{}
	var walk func(addr ssa.Value)
	walk = func(addr ssa.Value) {
		if seen[addr] {
			return
		}
		seen[addr] = true
		refs := addr.Referrers()
		if refs == nil {
			return
		}
		for _, r := range *refs {
			switch y := r.(type) {
			case *ssa.Store:
				if y.Addr == addr {
					out = append(out, y)
				}
			case *ssa.FieldAddr:
				if y.X == addr {
					walk(y)
				}
			case *ssa.IndexAddr:
				if y.X == addr {
					walk(y)
				}
			}
		}
	}
	walk(a)
	return out
}

// CondString renders a condition without SSA register names, so that it can
// serve as a stable key: callee names, operators, field names, constants.
func CondString(v ssa.Value) string { return condString(v, 0) }

func condString(v ssa.Value, depth int) string {
	if depth > 4 {
		return "_"
	}
	switch x := v.(type) {
	case *ssa.UnOp:
		if x.Op == token.NOT {
			return "!" + condString(x.X, depth+1)
		}
		if x.Op == token.MUL {
			if fa, ok := x.X.(*ssa.FieldAddr); ok {
				return "." + fieldName(fa)
			}
			return "*" + condString(x.X, depth+1)
		}
		return x.Op.String() + condString(x.X, depth+1)
	case *ssa.BinOp:
		return "(" + condString(x.X, depth+1) + x.Op.String() + condString(x.Y, depth+1) + ")"
	case *ssa.Call:
		name := "call"
		if o := CalleeObj(&x.Call); o != nil {
			name = o.Name()
		} else if b, ok := x.Call.Value.(*ssa.Builtin); ok {
			name = b.Name()
			if len(x.Call.Args) > 0 {
				return name + "(" + condString(x.Call.Args[0], depth+1) + ")"
			}
		}
		return name + "()"
	case *ssa.Extract:
		return condString(x.Tuple, depth+1) + fmt.Sprintf("#%d", x.Index)
	case *ssa.Const:
		if x.Value == nil {
			return "nil"
		}
		return x.Value.ExactString()
	case *ssa.Parameter:
		return x.Name()
	case *ssa.FieldAddr:
		return "&." + fieldName(x)
	case *ssa.Field:
		if st, ok := x.X.Type().Underlying().(*types.Struct); ok {
			return "." + st.Field(x.Field).Name()
		}
	case *ssa.Phi:
		if x.Comment != "" && x.Comment != "rangeindex" {
			return "phi:" + x.Comment
		}
		return "phi"
	case *ssa.Next:
		return "next"
	case *ssa.Lookup:
		return condString(x.X, depth+1) + "[" + condString(x.Index, depth+1) + "]"
	case *ssa.ChangeInterface:
		return condString(x.X, depth+1)
	case *ssa.Convert:
		return condString(x.X, depth+1)
	case *ssa.ChangeType:
		return condString(x.X, depth+1)
	case *ssa.TypeAssert:
		return condString(x.X, depth+1) + ".(" + typeName(x.AssertedType) + ")"
	case *ssa.Global:
		return x.Name()
	case *ssa.MakeMap:
		return "makemap"
	case *ssa.Slice:
		return condString(x.X, depth+1) + "[:]"
	case *ssa.FreeVar:
		return x.Name()
	case *ssa.IndexAddr:
		return condString(x.X, depth+1) + "[i]"
	case *ssa.Index:
		return condString(x.X, depth+1) + "[i]"
	}
	return "_"
}

func fieldName(fa *ssa.FieldAddr) string {
	if pt, ok := fa.X.Type().Underlying().(*types.Pointer); ok {
		if st, ok := pt.Elem().Underlying().(*types.Struct); ok {
			return st.Field(fa.Field).Name()
		}
	}
	return "?"
}

// ReachFromBlock computes reachability from the start of block b under cut.
func ReachFromBlock(fn *ssa.Function, b *ssa.BasicBlock, cut *Cut) *Reach {
	r := &Reach{Fn: fn, cut: cut, entered: map[int]bool{}, through: map[int]bool{}, pred: map[int]int{}}
	r.bfs(b, 0)
	return r
}

// LoopBody returns the natural loop of header d: all blocks that can reach a
// back edge source without passing through d (d included). Empty if d is not a
// loop header.
func LoopBody(d *ssa.BasicBlock) map[*ssa.BasicBlock]bool {
	body := map[*ssa.BasicBlock]bool{}
	var stack []*ssa.BasicBlock
	for _, t := range d.Preds {
		if d.Dominates(t) {
			if !body[t] && t != d {
				body[t] = true
				stack = append(stack, t)
			}
			body[d] = true
		}
	}
	for len(stack) > 0 {
		x := stack[len(stack)-1]
		stack = stack[:len(stack)-1]
		for _, p := range x.Preds {
			if p != d && !body[p] {
				body[p] = true
				stack = append(stack, p)
			}
		}
	}
	return body
}

// EnclosingLoopHeader returns the header of the innermost natural loop that
// contains b (b itself when b is a header), or nil.
func EnclosingLoopHeader(b *ssa.BasicBlock) *ssa.BasicBlock {
	for d := b; d != nil; d = d.Idom() {
		if lb := LoopBody(d); lb[b] {
			return d
		}
	}
	return nil
}

func blockReaches(from, to *ssa.BasicBlock) bool {
	seen := map[*ssa.BasicBlock]bool{}
	var st []*ssa.BasicBlock
	st = append(st, from.Succs...)
	for len(st) > 0 {
		x := st[len(st)-1]
		st = st[:len(st)-1]
		if x == to {
			return true
		}
		if seen[x] {
			continue
		}
		seen[x] = true
		st = append(st, x.Succs...)
	}
	return false
}

// DecisionBefore describes the last branch decision that leads into block p
// through straight-line code: returns the If and the arm value, or nil.
func DecisionBefore(p *ssa.BasicBlock) (*ssa.If, bool) {
	cur := p
	for steps := 0; steps < 50; steps++ {
		if len(cur.Preds) != 1 {
			return nil, false
		}
		pr := cur.Preds[0]
		if i, ok := pr.Instrs[len(pr.Instrs)-1].(*ssa.If); ok {
			return i, pr.Succs[0] == cur
		}
		cur = pr
	}
	return nil, false
}
