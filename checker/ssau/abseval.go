package ssau

import (
	"go/constant"
	"fmt"

	"golang.org/x/tools/go/ssa"
)

// AbsEnv supplies the truth value of branch conditions during an abstract walk
// of a function's CFG. Eval returns (value, known). visit is the number of
// times the If has been evaluated before on this walk (for one-iteration loop
// abstractions).
type AbsEnv interface {
	Eval(i *ssa.If, visit int) (val bool, known bool)
}

// AbsEnvFunc adapts a function.
type AbsEnvFunc func(i *ssa.If, visit int) (bool, bool)

func (f AbsEnvFunc) Eval(i *ssa.If, visit int) (bool, bool) { return f(i, visit) }

// AbsResult is the outcome of an abstract walk.
type AbsResult struct {
	Ret     *ssa.Return
	Panic   bool
	Unknown *ssa.If // first condition the environment could not evaluate
	Trace   []int
	Err     string
}

// AbsWalk deterministically follows the CFG from the entry, resolving each If
// through env, until a Return/Panic. No instruction is executed: only branch
// conditions are interpreted, through the rule's atom table.
func AbsWalk(fn *ssa.Function, env AbsEnv) AbsResult {
	var res AbsResult
	if len(fn.Blocks) == 0 {
		res.Err = "no body"
		return res
	}
	b := fn.Blocks[0]
	visits := map[*ssa.If]int{}
	for steps := 0; steps < 10000; steps++ {
		res.Trace = append(res.Trace, b.Index)
		last := b.Instrs[len(b.Instrs)-1]
		switch t := last.(type) {
		case *ssa.Return:
			res.Ret = t
			return res
		case *ssa.Panic:
			res.Panic = true
			return res
		case *ssa.Jump:
			b = b.Succs[0]
		case *ssa.If:
			v, known := env.Eval(t, visits[t])
			if !known {
				// a condition joined from several paths (a && b, a || b): decide by the value that flowed in along
				// the path actually walked
				base, neg := StripNot(t.Cond)
				if phi, ok := base.(*ssa.Phi); ok && phi.Block() == b && len(res.Trace) >= 2 {
					prev := res.Trace[len(res.Trace)-2]
					for k, p := range b.Preds {
						if p.Index != prev {
							continue
						}
						e := phi.Edges[k]
						if c, ok := e.(*ssa.Const); ok && c.Value != nil && c.Value.Kind() == constant.Bool {
							v, known = constant.BoolVal(c.Value) != neg, true
						} else {
							ev, ek := safeEval(env, &ssa.If{Cond: e}, visits[t])
							if ek {
								v, known = ev != neg, true
							}
						}
					}
				}
			}
			visits[t]++
			if !known {
				res.Unknown = t
				return res
			}
			b = Arm(t, v)
		default:
			res.Err = fmt.Sprintf("unexpected terminator %T", last)
			return res
		}
	}
	res.Err = "walk did not terminate (loop abstraction missing)"
	return res
}

// RangeNextOk reports whether cond is the `ok` component of a range-iterator
// Next (map/string range), i.e. a loop-continuation test.
func RangeNextOk(cond ssa.Value) (*ssa.Next, bool) {
	e, ok := cond.(*ssa.Extract)
	if !ok || e.Index != 0 {
		return nil, false
	}
	n, ok := e.Tuple.(*ssa.Next)
	return n, ok
}

// SliceLoopCond recognises the `i < len(x)` test of a slice range loop
// ("rangeindex" lowering): BinOp LSS(phi, len).
func SliceLoopCond(i *ssa.If) bool {
	if i.Block().Comment == "rangeindex.loop" {
		return true
	}
	return false
}

// safeEval evaluates a synthetic branch (no enclosing block); environments that look at the block are answered
// "unknown" instead of failing.
func safeEval(env AbsEnv, i *ssa.If, visit int) (v bool, known bool) {
	defer func() {
		if recover() != nil {
			v, known = false, false
		}
	}()
	return env.Eval(i, visit)
}
