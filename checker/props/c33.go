package props

import (
	"fmt"
	"go/token"
	"go/types"

	"elaverif/ssau"

	"golang.org/x/tools/go/ssa"
)

func init() {
	register(&Check{ID: "C33", Title: "Side-chain withdrawals need the arbiter quorum and are single-use", Run: runC33})
}

const wtype = "WithdrawFromSideChainTransaction"

func namedCall(name string) func(*ssa.CallCommon) bool {
	return func(cm *ssa.CallCommon) bool {
		o := ssau.CalleeObj(cm)
		return o != nil && o.Name() == name
	}
}

// iterCutGuard generalises iterGuard: the cut is supplied; an iteration of the
// loop enclosing `anchor` (level-th enclosing loop) must not complete under it.
func (c *Ctx) iterCut(rule, key string, fn *ssa.Function, anchor *ssa.BasicBlock, level int, cut *ssau.Cut, what string) bool {
	hs := loopHeaders(anchor)
	if level >= len(hs) {
		c.R.Check(rule, key, false, c.pos(fn.Pos()), fmt.Sprintf("%s: %s is not inside a loop", fname(fn), what))
		return false
	}
	H := hs[level]
	var body *ssa.BasicBlock
	for _, s := range H.Succs {
		if s == anchor || s.Dominates(anchor) {
			body = s
		}
	}
	if body == nil {
		c.R.Undecided(rule, key, c.pos(fn.Pos()), "cannot identify loop body")
		return false
	}
	cut = cut.Clone()
	cut.AddInstr(H.Instrs[0])
	r := ssau.ReachFromBlock(fn, body, cut)
	for _, p := range H.Preds {
		if r.EdgeReachable(p, H) && (r.Block(p) || p == body) {
			iff, arm := ssau.DecisionBefore(p)
			desc := ""
			if i, ok := p.Instrs[len(p.Instrs)-1].(*ssa.If); ok {
				iff, arm = i, p.Succs[0] == H
			}
			if iff != nil {
				desc = fmt.Sprintf(" when %s=%v", ssau.CondString(iff.Cond), arm)
			}
			c.R.Check(rule, key, false, c.pos(fn.Pos()), fmt.Sprintf("%s: a loop iteration completes without %s%s; path %s", fname(fn), what, desc, ssau.DescribePath(fn, r.Path(p), c.pos)))
			return false
		}
	}
	ec := c.classifier(fn, G1Opt{})
	for _, ret := range ec.SuccessExitsIn(r, cut) {
		if r.Block(ret.Block()) {
			c.R.Check(rule, key, false, c.posOf(ret), fmt.Sprintf("%s: success exit inside the loop without %s", fname(fn), what))
			return false
		}
	}
	c.R.Check(rule, key, true, c.pos(fn.Pos()), fmt.Sprintf("%s: every completed iteration has %s", fname(fn), what))
	return true
}

// refsAllCrossChain: the loop over t.references completes an iteration only when the prefix equals PrefixCrossChain.
func (c *Ctx) refsAllCrossChain(rule, key string, fn *ssa.Function) {
	sel := func(i *ssa.If) (bool, bool) {
		// bytes.Compare(hash[0:1], {PrefixCrossChain}) != 0  => reject ; required arm: == 0
		if m, arm := condCmp(func(v ssa.Value) bool {
			return ssau.IsCallTo(v, func(cm *ssa.CallCommon) bool {
				f := cm.StaticCallee()
				return f != nil && f.String() == "bytes.Compare"
			}) &&
				ssau.DependsOn(v, func(x ssa.Value) bool {
					return ssau.IsFieldOf(x, "Output", "ProgramHash") || ssau.IsFieldOf(x, "", "ProgramHash")
				})
		}, isConstInt(0), token.EQL, true)(i); m {
			return true, arm
		}
		if m, arm := condCmp(func(v ssa.Value) bool { return methodCallNamed(v, "GetPrefixType") }, func(v ssa.Value) bool { _, ok := v.(*ssa.Const); return ok }, token.EQL, true)(i); m {
			return true, arm
		}
		return false, false
	}
	if !c.iterGuard(rule, key, fn, "the spent output's prefix == CrossChain", sel, 0) {
		return
	}
	// the loop ranges over the references field
	ok := false
	for _, b := range fn.Blocks {
		for _, in := range b.Instrs {
			if rg, isr := in.(*ssa.Range); isr && ssau.IsFieldOf(ssau.Unwrap(rg.X), "DefaultChecker", "references") {
				ok = true
			}
		}
	}
	c.R.Check(rule, key+"|domain", ok, c.pos(fn.Pos()), "the prefix loop ranges over t.references")
	// the compared constant is PrefixCrossChain
	cross, _ := c.constVal("core/contract", "PrefixCrossChain")
	okc := false
	for _, b := range fn.Blocks {
		for _, in := range b.Instrs {
			if st, isS := in.(*ssa.Store); isS {
				if cv, isC := st.Val.(*ssa.Const); isC {
					if v, okv := constInt(cv); okv && v == cross {
						okc = true
					}
				}
			}
			if bo, isB := in.(*ssa.BinOp); isB {
				for _, o := range []ssa.Value{bo.X, bo.Y} {
					if cv, isC := o.(*ssa.Const); isC {
						if v, okv := constInt(cv); okv && v == cross && methodCallNamed(otherOperand(bo, o), "GetPrefixType") {
							okc = true
						}
					}
				}
			}
		}
	}
	c.R.Check(rule, key+"|constant", okc, c.pos(fn.Pos()), "the prefix is compared with contract.PrefixCrossChain")
}

func otherOperand(b *ssa.BinOp, o ssa.Value) ssa.Value {
	if b.X == o {
		return b.Y
	}
	return b.X
}

func runC33(c *Ctx) {
	c.R.Rule("R-version", "WithdrawFromSideChainTransaction.SpecialContextCheck: decision table over (height > SchnorrStartHeight, payload version): V0/V1/V2 dispatch to their checker whose error rejects; any version but V2 is rejected above SchnorrStartHeight")
	c.R.Rule("G-refs", "each version checker completes an iteration of its loop over t.references only when the spent output's prefix is CrossChain")
	c.R.Rule("G-single-use", "V0: per side-chain hash of the payload, V1/V2: per withdraw output, the iteration completes only after IsSidechainTxHashDuplicate(hash) returned false (or, V1/V2, the output is not a withdraw output); CheckTransactionPayload rejects a hash repeated inside one transaction; the Tx3 index is written by the save processor for every version")
	c.R.Rule("G-quorum", "V0/V1: per program, n == count of normal arbiters, m >= the configured minimum and checkCrossChainArbitrators(publicKeys) passed; V2: len(Signers) >= threshold on every height arm and checkSchnorrWithdrawFromSidechain(t, pld, height >= CrossChainUTXORestrictionHeight) passed")
	c.R.Rule("G-signers", "checkSchnorrWithdrawFromSidechain: every completed iteration over pld.Signers contributes arbiters[index].NodePublicKey to the aggregate; with validateSignerIndexes the use of arbiters[index] is behind index < len(arbiters) and the absent arm of the duplicate-index set, into which the index is inserted; every program's code must equal the redeem script of the aggregated key")

	sc := c.fn(txpkg, wtype, "SpecialContextCheck")
	v0, _ := c.constVal("core/types/payload", "WithdrawFromSideChainVersion")
	v1, _ := c.constVal("core/types/payload", "WithdrawFromSideChainVersionV1")
	v2, _ := c.constVal("core/types/payload", "WithdrawFromSideChainVersionV2")
	if sc != nil {
		syms := &Symbols{Int: func(v ssa.Value) (string, bool) {
			if methodCallNamed(v, "PayloadVersion") {
				return "ver", true
			}
			if ssau.IsFieldOf(ssau.Unwrap(v), "TransactionParameters", "BlockHeight") {
				return "h", true
			}
			if ssau.IsFieldOf(ssau.Unwrap(v), "Configuration", "SchnorrStartHeight") {
				return "schnorr", true
			}
			return "", false
		}, Nil: func(v ssa.Value) (string, bool) {
			if _, ok := v.(*ssa.Phi); ok {
				return "errNil", true
			}
			if call, ok := v.(*ssa.Call); ok {
				if o := ssau.CalleeObj(&call.Call); o != nil && len(o.Name()) > 30 {
					return "errNil", true
				}
			}
			return "", false
		}}
		checkers := map[int64]string{v0: "checkWithdrawFromSideChainTransactionV0", v1: "checkWithdrawFromSideChainTransactionV1", v2: "checkWithdrawFromSideChainTransactionV2"}
		okAll := true
		detail := ""
		n := 0
		for _, env := range product([]string{"errNil"}, map[string][]int64{"ver": {v0, v1, v2, 3, 9}, "h": {1, 2, 3}, "schnorr": {2}}) {
			env := env
			if checkers[env.I["ver"]] == "" && !env.B["errNil"] {
				continue // no checker runs for an unknown version, so err stays nil
			}
			res := ssau.AbsWalk(sc, ssau.AbsEnvFunc(func(i *ssa.If, visit int) (bool, bool) {
				return syms.evalCond(i.Cond, env, visit, blockComment(i))
			}))
			if res.Unknown != nil || res.Ret == nil {
				okAll = false
				detail = "cannot evaluate " + env.String()
				if res.Unknown != nil {
					detail += ": unknown condition " + ssau.CondString(res.Unknown.Cond) + " at " + c.posOf(res.Unknown)
				}
				break
			}
			called := ""
			for _, bi := range res.Trace {
				for _, in := range sc.Blocks[bi].Instrs {
					if call, ok := in.(*ssa.Call); ok {
						if o := ssau.CalleeObj(&call.Call); o != nil && len(o.Name()) > 30 {
							called = o.Name()
						}
					}
				}
			}
			out := returnOutcome(res.Ret, 0, res.Trace)
			ver, h := env.I["ver"], env.I["h"]
			var wantCall, wantOut string
			switch {
			case h > env.I["schnorr"] && ver != v2:
				wantCall, wantOut = "", "err"
			default:
				wantCall = checkers[ver]
				if wantCall == "" || env.B["errNil"] {
					wantOut = "nil"
				} else {
					wantOut = "err"
				}
			}
			if out != "nil" {
				out = "err"
			}
			if called != wantCall || out != wantOut {
				okAll = false
				detail = fmt.Sprintf("for %s: calls %q and returns %s; required: %q and %s", env, called, out, wantCall, wantOut)
				break
			}
			n++
		}
		if detail == "" {
			detail = fmt.Sprintf("agrees on all %d valuations", n)
		}
		c.R.Check("R-version", "SpecialContextCheck|table", okAll, c.pos(sc.Pos()), detail)
	}

	dup := orWrappers(namedCall("IsSidechainTxHashDuplicate"))
	for _, ver := range []string{"V0", "V1", "V2"} {
		f := c.fn(txpkg, wtype, "checkWithdrawFromSideChainTransaction"+ver)
		if f == nil {
			continue
		}
		c.refsAllCrossChain("G-refs", ver+"|references all CrossChain", f)
		// single use
		calls := ssau.CallsIn(f, dup)
		key := ver + "|IsSidechainTxHashDuplicate per hash"
		if len(calls) == 0 {
			c.R.Check("G-single-use", key, false, c.pos(f.Pos()), fmt.Sprintf("%s never consults the store for an already withdrawn side-chain hash", fname(f)))
		} else {
			cut, _ := ssau.CheckedCut(f, calls, false)
			if ver != "V0" {
				// allowed skip: the output is not a withdraw output
				for _, i := range ssau.Ifs(f) {
					if m, arm := condCmp(func(v ssa.Value) bool { return ssau.IsFieldOf(ssau.Unwrap(v), "Output", "Type") }, func(v ssa.Value) bool { _, ok := v.(*ssa.Const); return ok }, token.NEQ, true)(i); m {
						cut.AddEdge(i.Block(), ssau.Arm(i, arm))
					}
				}
			}
			c.iterCut("G-single-use", key, f, calls[0].Block(), 0, cut, "a store lookup IsSidechainTxHashDuplicate(hash) == false")
			// domain
			var okDom bool
			hs := loopHeaders(calls[0].Block())
			if len(hs) > 0 {
				if ver == "V0" {
					okDom = loopRangesOver(hs[0], func(v ssa.Value) bool {
						return ssau.IsFieldOf(ssau.Unwrap(v), "WithdrawFromSideChain", "SideChainTransactionHashes")
					})
				} else {
					okDom = loopRangesOver(hs[0], func(v ssa.Value) bool { return methodCallNamed(v, "Outputs") })
				}
			}
			c.R.Check("G-single-use", key+"|domain", okDom, c.posOf(calls[0]), "the loop covers every hash carried by the transaction")
		}
		if ver != "V2" {
			cca := callPred(R{txpkg, "", "checkCrossChainArbitrators"})
			c.iterMustPass("G-quorum", ver+"|checkCrossChainArbitrators per program", f, "checkCrossChainArbitrators", cca, true)
			// n == arbitersCount, m >= minCount on every path to checkCrossChainArbitrators (post-CRClaimDPOSNodeStartHeight arm)
			for _, call := range ssau.CallsIn(f, cca) {
				okArg := ssau.DependsOn(call.Common().Args[0], func(x ssa.Value) bool { return methodCallNamed(x, "ParseCrossChainScriptV1") })
				c.R.Check("G-quorum", ver+"|arbitrators arg", okArg, c.posOf(call), "checkCrossChainArbitrators receives the public keys parsed from the program code")
			}
			nTest := 0
			mTest := 0
			for _, i := range ssau.Ifs(f) {
				s := ssau.CondString(i.Cond)
				_ = s
				if b, ok := i.Cond.(*ssa.BinOp); ok {
					fromParse := func(v ssa.Value, idx int) bool {
						e, ok := ssau.Unwrap(v).(*ssa.Extract)
						return ok && e.Index == idx && methodCallNamed(e.Tuple, "ParseCrossChainScriptV1")
					}
					if b.Op == token.NEQ && (fromParse(b.X, 2) || fromParse(b.Y, 2)) {
						nTest++
					}
					mv, other := b.X, b.Y
					isM := b.Op == token.LSS && fromParse(b.X, 1)
					if b.Op == token.GTR && fromParse(b.Y, 1) {
						isM, mv, other = true, b.Y, b.X
					}
					_ = other
					if isM {
						mTest++
						// m is parsed as int(code[0]) - PUSH1 + 1 and may be negative: the test against the minimum must
						// not be made on an unsigned conversion of it unless m < 1 (or <= 0, < 0) was rejected before
						if cv, ok := mv.(*ssa.Convert); ok && isSignedInt(cv.X.Type()) && isUnsignedInt(cv.Type()) {
							guarded := false
							for _, j := range ssau.Ifs(f) {
								jb, ok := j.Cond.(*ssa.BinOp)
								if !ok || !fromParse(jb.X, 1) {
									continue
								}
								if _, isConv := jb.X.(*ssa.Convert); isConv {
									continue
								}
								var k int64
								isK := false
								if kc, ok := jb.Y.(*ssa.Const); ok {
									k, isK = constInt(kc)
								}
								if isK && ((jb.Op == token.LSS && (k == 0 || k == 1)) || (jb.Op == token.LEQ && k == 0)) && j.Block().Dominates(i.Block()) {
									guarded = true
								}
							}
							c.R.Check("G-quorum", ver+"|m compared as a signed quantity", guarded, c.posOf(i), "the parsed signature count m (a signed int that is negative for a leading opcode below PUSH1) is converted to an unsigned type for the comparison with the minimum: a negative m wraps around and passes")
						}
					}
				}
			}
			c.R.Check("G-quorum", ver+"|n and m tests present", nTest >= 1 && mTest >= 1, c.pos(f.Pos()), fmt.Sprintf("tests n != count: %d, m < min: %d", nTest, mTest))
		} else {
			// threshold on every arm
			c.GuardSuccess("G-quorum", "V2|len(Signers) threshold", f, "len(pld.Signers) < threshold", func(i *ssa.If) (bool, bool) {
				return condCmp(isLenOf(func(v ssa.Value) bool {
					return ssau.IsFieldOf(ssau.Unwrap(v), "WithdrawFromSideChain", "Signers")
				}), anyVal, token.LSS, false)(i)
			}, G1Opt{})
			sw := callPred(R{txpkg, "", "checkSchnorrWithdrawFromSidechain"})
			c.G1s("G-quorum", "V2|checkSchnorrWithdrawFromSidechain", f, "checkSchnorrWithdrawFromSidechain", sw, G1Opt{})
			for _, call := range ssau.CallsIn(f, sw) {
				a := call.Common().Args
				okFlag := false
				if b, ok := a[2].(*ssa.BinOp); ok && b.Op == token.GEQ {
					okFlag = ssau.IsFieldOf(ssau.Unwrap(b.X), "TransactionParameters", "BlockHeight") && ssau.IsFieldOf(ssau.Unwrap(b.Y), "Configuration", "CrossChainUTXORestrictionHeight")
				}
				c.R.Check("G-quorum", "V2|validateSignerIndexes = height >= restriction height", okFlag, c.posOf(call), "the signer-index validation flag must be BlockHeight >= Config.CrossChainUTXORestrictionHeight")
			}
		}
	}

	// checkCrossChainArbitrators: every normal arbiter must be found among the keys, counts equal
	if f := c.fn(txpkg, "", "checkCrossChainArbitrators"); f != nil {
		c.GuardSuccess("G-quorum", "checkCrossChainArbitrators|count == len(publicKeys)", f, "count != len(publicKeys)", func(i *ssa.If) (bool, bool) {
			return condCmp(anyVal, isLenOf(func(v ssa.Value) bool { return paramNamed(v, "publicKeys") }), token.EQL, true)(i)
		}, G1Opt{})
	}

	// signer handling
	sf0 := c.fn(txpkg, "", "checkSchnorrWithdrawFromSidechain")
	if sf0 != nil {
		unm := func(cm *ssa.CallCommon) bool { f := cm.StaticCallee(); return f != nil && f.Name() == "Unmarshal" }
		// the signer loop may live in a helper that receives the arbiters and the signer list
		sf, via := c.relocateVia(sf0, func(g *ssa.Function) bool { return len(ssau.CallsIn(g, unm)) > 0 })
		withVia(via, func() {
			calls := ssau.CallsIn(sf, unm)
			if len(calls) == 0 {
				c.R.Check("G-signers", "signers|every index contributes a key", false, c.pos(sf.Pos()), "no crypto.Unmarshal of an arbiter key")
			} else {
				cut := ssau.NewCut()
				for _, ci := range calls {
					cut.AddInstr(ci)
				}
				c.iterCut("G-signers", "signers|every index contributes a key", sf, calls[0].Block(), 0, cut, "adding arbiters[index].NodePublicKey to the aggregate")
				call := calls[0].(*ssa.Call)
				okKey := ssau.DependsOn(call.Call.Args[len(call.Call.Args)-1], func(x ssa.Value) bool { return ssau.IsFieldOf(x, "ArbiterInfo", "NodePublicKey") }) &&
					ssau.DependsOn(call.Call.Args[len(call.Call.Args)-1], func(x ssa.Value) bool { return methodCallNamed(x, "GetCrossChainArbiters") })
				c.R.Check("G-signers", "signers|key = arbiters[index].NodePublicKey", okKey, c.posOf(call), "the aggregated key comes from GetCrossChainArbiters()[index].NodePublicKey")
				// index guards under validateSignerIndexes
				var idx *ssa.IndexAddr
				for _, b := range sf.Blocks {
					for _, in := range b.Instrs {
						if ia, ok := in.(*ssa.IndexAddr); ok && methodCallNamed(ssau.Unwrap(ia.X), "GetCrossChainArbiters") {
							idx = ia
						}
					}
				}
				if idx != nil {
					base := ssau.NewCut()
					// assume validateSignerIndexes == true
					for _, i := range ssau.Ifs(sf) {
						x, neg := ssau.StripNot(i.Cond)
						if paramNamed(x, "validateSignerIndexes") {
							base.AddEdge(i.Block(), ssau.Arm(i, neg)) // remove the arm taken when the flag is false
						}
					}
					guard := func(name string, sel IfArm) {
						cut := base.Clone()
						n := 0
						for _, i := range ssau.Ifs(sf) {
							if m, arm := sel(i); m {
								n++
								cut.AddEdge(i.Block(), ssau.Arm(i, arm))
							}
						}
						ok := n > 0 && !ssau.ReachFromEntry(sf, cut).Instr(idx)
						c.R.Check("G-signers", "signers|"+name, ok, c.posOf(idx), "with validateSignerIndexes, arbiters[index] must be behind "+name)
					}
					guard("index < len(arbiters)", condCmp(anyVal, isLenOf(func(v ssa.Value) bool { return methodCallNamed(ssau.Unwrap(v), "GetCrossChainArbiters") }), token.GEQ, false))
					var set *seenSet
					for _, s := range findSeenSets(sf) {
						s := s
						set = &s
						c.R.Check("G-signers", "signers|inserted index = looked-up index", s.update.Key == s.lookup.Index, c.posOf(s.update), "the duplicate set is keyed by the signer index")
					}
					guard("duplicate-index set lookup == absent", lookupAbsent(func(v ssa.Value) bool { return set != nil && set.is(v) }))
				}
			}
		})
		sf = sf0
		// program code must equal the redeem script of the aggregated key
		crs := func(cm *ssa.CallCommon) bool {
			f := cm.StaticCallee()
			return f != nil && f.Name() == "CreateSchnorrRedeemScript"
		}
		sel := func(i *ssa.If) (bool, bool) {
			return condCmp(func(v ssa.Value) bool {
				return ssau.DependsOn(v, func(x ssa.Value) bool { return ssau.IsFieldOf(x, "Program", "Code") })
			}, func(v ssa.Value) bool {
				return ssau.DependsOn(v, func(x ssa.Value) bool { return ssau.IsCallTo(x, crs) })
			}, token.EQL, true)(i)
		}
		// the per-program loop may live in a helper that receives the programs and the redeem script
		pf, pvia := c.relocateVia(sf, func(g *ssa.Function) bool {
			for _, i := range ssau.Ifs(g) {
				if len(loopHeaders(i.Block())) > 0 && ssau.DependsOn(i.Cond, func(x ssa.Value) bool { return ssau.IsFieldOf(x, "Program", "Code") }) {
					return true
				}
			}
			return false
		})
		withVia(pvia, func() {
			c.iterGuard("G-signers", "programs|code == redeem script of aggregate", pf, "program.Code == CreateSchnorrRedeemScript(sum of signer keys)", sel, 0)
		})
		if pvia != nil {
			hp := func(cm *ssa.CallCommon) bool { return cm.StaticCallee() == pf }
			c.G1s("G-signers", "programs|helper "+pf.Name()+" checked", sf, pf.Name(), hp, G1Opt{})
		}
		for _, call := range ssau.CallsIn(sf, crs) {
			ok := ssau.DependsOn(call.Common().Args[0], func(x ssa.Value) bool { return ssau.IsCallTo(x, unm) })
			c.R.Check("G-signers", "programs|redeem script derives from the signer keys", ok, c.posOf(call), "the redeem script key is computed from the unmarshalled signer keys")
		}
	}

	// in-transaction duplicate hashes
	if f := c.fn(txpkg, wtype, "CheckTransactionPayload"); f != nil {
		sets := findSeenSets(f)
		ok := len(sets) == 1
		c.R.Check("G-single-use", "CheckTransactionPayload|in-tx duplicate set", ok, c.pos(f.Pos()), "a seen-set over SideChainTransactionHashes exists")
		if ok {
			s := sets[0]
			c.iterGuard("G-single-use", "CheckTransactionPayload|absent-or-reject", f, "hash not seen before in this transaction", lookupAbsent(func(v ssa.Value) bool { return v == ssa.Value(s.mk) }), 0)
		}
	}
	// save processor covers all versions (decided in detail by C13)
	if f := c.fn(txpkg, wtype, "GetSaveProcessor"); f != nil {
		n := len(ssau.CallsInDeep(f, namedCall("DBPutData")))
		c.R.Check("G-single-use", "GetSaveProcessor|records hashes", n >= 2, c.pos(f.Pos()), fmt.Sprintf("%d DBPutData sites into the Tx3 index", n))
		// every hash is recorded: a loop around a DBPutData call is left only when exhausted or with an error
		nl := 0
		fns := append([]*ssa.Function{f}, f.AnonFuncs...)
		for _, g := range fns {
			seenH := map[*ssa.BasicBlock]bool{}
			for _, call := range ssau.CallsIn(g, namedCall("DBPutData")) {
				for _, h := range loopHeaders(call.Block()) {
					if seenH[h] {
						continue
					}
					seenH[h] = true
					nl++
					bad := c.earlyLoopExits(g, h)
					c.R.Check("G-single-use", fmt.Sprintf("GetSaveProcessor|recording loop %d runs to exhaustion", nl), len(bad) == 0, c.posOf(call),
						fmt.Sprintf("the loop recording withdrawn hashes is left only when its range is exhausted or with an error (early exits: %v)", bad))
				}
			}
		}
		c.R.FloorCheck("G-single-use recording loops", nl, 2)
	}
}

func isSignedInt(t types.Type) bool {
	b, ok := t.Underlying().(*types.Basic)
	return ok && b.Info()&types.IsInteger != 0 && b.Info()&types.IsUnsigned == 0
}

func isUnsignedInt(t types.Type) bool {
	b, ok := t.Underlying().(*types.Basic)
	return ok && b.Info()&types.IsUnsigned != 0
}
