package props

import (
	"fmt"
	"go/types"
	"strings"

	"elaverif/ssau"

	"golang.org/x/tools/go/ssa"
)

func init() {
	register(&Check{ID: "C02", Title: "Decoding untrusted bytes never crashes the node or allocates without bound", Run: runC02})
}

func runC02(c *Ctx) {
	c.R.Rule("T-alloc", "every allocation (make slice/map, ReadBytes length) in the node whose size derives from an integer decoded with ReadVarUint/ReadUint32/ReadUint64 is reachable only through the surviving arm of a comparison of the full-width decoded value with an untainted bound")
	c.R.Rule("E-decode", "inside decode functions of the wire and checkpoint packages the error result of every nested Deserialize*/Read* call is used (tested or returned), so truncated input stops the surrounding loop")
	c.R.Rule("N-factory", "the decoder's object factories (interfaces.GetPayload, transaction.GetTransaction) return a non-nil object on every path on which they return a nil error: the decoder calls a method on the result after testing the error only")
	c.tAlloc("T-alloc", 11, 11, map[string]string{})
	c.factoryNonNil("N-factory", "core/types/interfaces", "GetPayload")
	c.factoryNonNil("N-factory", "core/transaction", "GetTransaction")
	c.droppedDecodeErrors("E-decode", append(append([]string{"p2p/msg", "dpos/p2p/msg", "elanet/bloom", "p2p"}, wirePkgs...), ckptPkgs...))
}

// droppedDecodeErrors: in decode functions of the wire/checkpoint packages, the error of a nested Deserialize/Read call must not be discarded.
func (c *Ctx) droppedDecodeErrors(rule string, rels []string) {
	n, bad := 0, 0
	for f := range c.P.AllFuncs() {
		root := f
		for root.Parent() != nil {
			root = root.Parent()
		}
		if root.Pkg == nil || len(f.Blocks) == 0 {
			continue
		}
		rel := strings.TrimPrefix(root.Pkg.Pkg.Path(), "github.com/elastos/Elastos.ELA/")
		okPkg := false
		for _, r := range rels {
			if r == rel {
				okPkg = true
			}
		}
		if !okPkg || !strings.Contains(strings.ToLower(root.Name()), "deserialize") {
			continue
		}
		for _, b := range f.Blocks {
			for _, in := range b.Instrs {
				call, ok := in.(*ssa.Call)
				if !ok {
					continue
				}
				o := ssau.CalleeObj(&call.Call)
				if o == nil {
					continue
				}
				nm := o.Name()
				if !(strings.HasPrefix(nm, "Deserialize") || strings.HasPrefix(nm, "Read")) || nm == "Read" {
					continue // io.Reader.Read callers test the byte count instead
				}
				if why, ok := decodeErrIdioms[fname(root)+"|"+nm]; ok {
					c.R.Info(rule, "idiom|"+fname(root)+"|"+nm, c.posOf(call), why)
					continue
				}
				res := call.Call.Signature().Results()
				if res.Len() == 0 || !types.IsInterface(res.At(res.Len()-1).Type()) {
					continue
				}
				n++
				used := false
				if refs := call.Referrers(); refs != nil {
					for _, r := range *refs {
						if e, ok := r.(*ssa.Extract); ok {
							if e.Index == res.Len()-1 && e.Referrers() != nil && len(*e.Referrers()) > 0 {
								used = true
							}
							continue
						}
						used = true
					}
				}
				if !used {
					bad++
					c.R.Check(rule, "dropped|"+fname(root)+"|"+nm, false, c.posOf(call), fmt.Sprintf("%s discards the error of %s: a truncated input is not detected and the surrounding count loop keeps running", fname(root), nm))
				}
			}
		}
	}
	if bad == 0 {
		c.R.Check(rule, "dropped|none", true, "", fmt.Sprintf("%d nested decode calls, all errors used", n))
	}
	c.R.FloorCheck(rule+" nested decode calls", n, 300)
}

var decodeErrIdioms = map[string]string{
	"(*cr/state.Candidate).Deserialize|ReadUint32": "the error of reading CancelHeight is superseded by the immediately following DepositHash.Deserialize on the same reader, which fails on the same truncated input",
}

// nonNilIface: the interface value is non-nil on every path (a boxed concrete value).
func nonNilIface(v ssa.Value, seen map[ssa.Value]bool) bool {
	if seen[v] {
		return true
	}
	seen[v] = true
	switch x := v.(type) {
	case *ssa.MakeInterface:
		return true
	case *ssa.ChangeInterface:
		return nonNilIface(x.X, seen)
	case *ssa.Phi:
		for _, e := range x.Edges {
			if !nonNilIface(e, seen) {
				return false
			}
		}
		return true
	}
	return false
}

// factoryNonNil: every return of fn = func(...) (I, error) that carries the nil error carries a non-nil object.
func (c *Ctx) factoryNonNil(rule, rel, name string) {
	f := c.fn(rel, "", name)
	if f == nil {
		return
	}
	n := 0
	for _, ret := range ssau.Returns(f) {
		if len(ret.Results) != 2 {
			continue
		}
		v, e := ret.Results[0], ret.Results[1]
		type pair struct{ v, e ssa.Value }
		var pairs []pair
		pv, okv := v.(*ssa.Phi)
		pe, oke := e.(*ssa.Phi)
		switch {
		case okv && oke && pv.Block() == pe.Block():
			for i := range pv.Edges {
				pairs = append(pairs, pair{pv.Edges[i], pe.Edges[i]})
			}
		case oke:
			for i := range pe.Edges {
				pairs = append(pairs, pair{v, pe.Edges[i]})
			}
		default:
			pairs = []pair{{v, e}}
		}
		for _, p := range pairs {
			if !ssau.IsNilConst(p.e) {
				continue
			}
			n++
			ok := nonNilIface(p.v, map[ssa.Value]bool{})
			if !ok {
				// the object may come from a helper and be tested for nil before this return
				cut := ssau.NewCut()
				nt := 0
				for _, i := range ssau.Ifs(f) {
					if x, trueIsNil, isTest := ssau.NilTest(i.Cond); isTest && ssau.Unwrap(x) == ssau.Unwrap(p.v) {
						cut.AddEdge(i.Block(), ssau.Arm(i, !trueIsNil)) // remove the non-nil arm: what remains is "object is nil"
						nt++
					}
				}
				if nt > 0 && !ssau.ReachFromEntry(f, cut).Instr(ret) {
					ok = true
				}
			}
			if !ok {
				c.R.Check(rule, name+"|nil error implies an object", false, c.posOf(ret), fmt.Sprintf("%s can return (nil, nil): some path assigns no object and no error, and the decoder dereferences the result", fname(f)))
				return
			}
		}
	}
	c.R.Check(rule, name+"|nil error implies an object", n > 0, c.pos(f.Pos()), fmt.Sprintf("%d success returns, each with a non-nil object", n))
}
