package props

import (
	"fmt"
	"go/constant"
	"go/token"

	"elaverif/ssau"

	"golang.org/x/tools/go/ssa"
)

func init() {
	register(&Check{ID: "C06", Title: "No output is ever spent twice", Run: runC06})
	register(&Check{ID: "C07", Title: "Block contents are bound to the header", Run: runC07})
}

// loopHeaders returns the chain of enclosing loop headers of b, innermost first.
func loopHeaders(b *ssa.BasicBlock) []*ssa.BasicBlock {
	var out []*ssa.BasicBlock
	cur := b
	for {
		h := ssau.EnclosingLoopHeader(cur)
		if h == nil {
			return out
		}
		out = append(out, h)
		if h.Idom() == nil {
			return out
		}
		// continue with the next outer loop: the nearest dominator of h that is a header containing h
		cur = h.Idom()
	}
}

// iterGuard: in the chosen enclosing loop (level 0 = innermost) of the
// branches matched by sel, an iteration can complete (reach the header again)
// only through the required arm of one of those branches.
func (c *Ctx) iterGuard(rule, key string, fn *ssa.Function, what string, sel IfArm, level int) bool {
	if fn == nil {
		return false
	}
	return c.iterGuardOpt(rule, key, fn, what, sel, level, G1Opt{})
}

// lookupAbsent matches `_, ok := m[k]; if ok {reject}`: required arm is ok == false.
func lookupAbsent(isMap func(ssa.Value) bool) IfArm {
	return func(i *ssa.If) (bool, bool) {
		x, neg := ssau.StripNot(i.Cond)
		if e, ok := x.(*ssa.Extract); ok && e.Index == 1 {
			if lk, ok := e.Tuple.(*ssa.Lookup); ok && lk.CommaOk && isMap(lk.X) {
				return true, neg
			}
		}
		return false, false
	}
}

// seenSet describes an insert-or-reject duplicate set inside fn.
type seenSet struct {
	mk     *ssa.MakeMap
	lookup *ssa.Lookup
	update *ssa.MapUpdate
}

func findSeenSets(fn *ssa.Function) []seenSet {
	var out []seenSet
	for _, b := range fn.Blocks {
		for _, in := range b.Instrs {
			mk, ok := in.(*ssa.MakeMap)
			if !ok {
				continue
			}
			s := seenSet{mk: mk}
			vals := []ssa.Value{mk}
			if refs := mk.Referrers(); refs != nil {
				for _, r := range *refs {
					if ph, ok := r.(*ssa.Phi); ok {
						vals = append(vals, ph)
					}
				}
			}
			for _, v := range vals {
				refs := v.Referrers()
				if refs == nil {
					continue
				}
				for _, r := range *refs {
					switch y := r.(type) {
					case *ssa.Lookup:
						if y.CommaOk {
							s.lookup = y
						}
					case *ssa.MapUpdate:
						s.update = y
					}
				}
			}
			if s.lookup != nil && s.update != nil {
				out = append(out, s)
			}
		}
	}
	return out
}

// is reports whether v denotes this set (the map itself or a phi merging it with nil).
func (s seenSet) is(v ssa.Value) bool {
	if v == ssa.Value(s.mk) {
		return true
	}
	if ph, ok := v.(*ssa.Phi); ok {
		for _, e := range ph.Edges {
			if e == ssa.Value(s.mk) {
				return true
			}
		}
	}
	return false
}

func runC06(c *Ctx) {
	c.R.Rule("G1-dupinput", "CheckBlockSanity: in the loop over the inputs of every transaction of the block, an iteration completes only through the absent arm of a lookup in a set keyed by input.ReferKey() (outpoint only), and the same key is inserted; the loops range over block.Transactions and txn.Inputs()")
	c.R.Rule("G1-unspent", "DefaultChecker.ContextCheck: every success exit passes Ledger.IsDoubleSpend(tx) tested false; ChainStore.IsDoubleSpend: per input, the iteration completes only through the equal arm of `unspents[k] == input.Previous.Index` (flag variables resolved per edge), a GetUnspent error yields true, and the loop covers every input")
	c.R.Rule("R-slot", "the mempool registers an input slot for all transaction types whose key function returns the ReferKey of every input; appendToTxPool reaches doAddTransaction only after verifyTransactionWithTxnPool and AppendTx passed; the per-transaction duplicate-input set of CheckTransactionInput implementations is keyed by ReferKey()")

	cbs := c.fn("blockchain", "BlockChain", "CheckBlockSanity")
	if cbs != nil {
		var inputSet *seenSet
		for _, s := range findSeenSets(cbs) {
			s := s
			if ssau.DependsOn(s.lookup.Index, func(x ssa.Value) bool { return methodCallNamed(x, "ReferKey") || methodCallNamed(x, "Inputs") }) {
				inputSet = &s
			}
		}
		if inputSet == nil && c.dupInputSetInHelper(cbs) {
			// decided inside the helper (see dupInputSetInHelper)
		} else if inputSet == nil {
			c.R.Check("G1-dupinput", "CheckBlockSanity|input set", false, c.pos(cbs.Pos()), "no insert-or-reject set over transaction inputs found")
		} else {
			isMap := func(v ssa.Value) bool { return v == ssa.Value(inputSet.mk) }
			c.iterGuard("G1-dupinput", "CheckBlockSanity|per-input absent-or-reject", cbs, "existingTxInputs lookup == absent", lookupAbsent(isMap), 0)
			keyOK := func(k ssa.Value) bool {
				return methodCallNamed(ssau.Unwrap(k), "ReferKey")
			}
			c.R.Check("G1-dupinput", "CheckBlockSanity|lookup key = ReferKey()", keyOK(inputSet.lookup.Index), c.posOf(inputSet.lookup), "the duplicate set must be keyed by input.ReferKey() (outpoint), not by a value that includes the sequence")
			c.R.Check("G1-dupinput", "CheckBlockSanity|insert key = lookup key", inputSet.update.Key == inputSet.lookup.Index || (keyOK(inputSet.update.Key) && sameCallRecv(inputSet.update.Key, inputSet.lookup.Index)), c.posOf(inputSet.update), "the inserted key must be the looked-up key")
			// the map is created outside the loops (shared by all transactions of the block)
			c.R.Check("G1-dupinput", "CheckBlockSanity|set spans the block", len(loopHeaders(inputSet.mk.Block())) == 0, c.posOf(inputSet.mk), "the duplicate set must be allocated once per block, outside the loops")
			// loop domains
			hs := loopHeaders(inputSet.lookup.Block())
			okIn := len(hs) >= 2 && loopRangesOver(hs[0], func(v ssa.Value) bool { return methodCallNamed(v, "Inputs") }) &&
				loopRangesOver(hs[1], func(v ssa.Value) bool { return ssau.IsFieldOf(ssau.Unwrap(v), "Block", "Transactions") })
			c.R.Check("G1-dupinput", "CheckBlockSanity|loop domains", okIn, c.posOf(inputSet.lookup), "inner loop ranges over txn.Inputs(), outer loop over block.Transactions")
		}
	}

	// W-unspent: the unspent index (what IsDoubleSpend reads) is updated through ONE working set per block
	c.R.Rule("W-unspent", "UnspentIndex.ConnectBlock / DisconnectBlock load a transaction's unspent list from the database only on the absent arm of a lookup in a working-set map that is allocated once per block (in the function itself, outside its loops; it may be handed to a helper): two transactions of one block that touch outputs of the same earlier transaction see each other's update")
	fetchU := callPred(R{"blockchain/indexers", "", "DBFetchUnspentIndexEntry"})
	nU := 0
	for _, name := range []string{"ConnectBlock", "DisconnectBlock"} {
		f := c.fn("blockchain/indexers", "UnspentIndex", name)
		if f == nil {
			continue
		}
		for k, vc := range callsVia(f, fetchU) {
			vc := vc
			nU++
			vc.with(func() {
				host := vc.call.Parent()
				blockWide := func(v ssa.Value) bool {
					mk, ok := ssau.Unwrap(v).(*ssa.MakeMap)
					return ok && mk.Parent() == f && len(loopHeaders(mk.Block())) == 0
				}
				c.G2("W-unspent", fmt.Sprintf("UnspentIndex.%s|fetch#%d only on a miss of the block-wide working set", name, k+1), host, vc.call.(ssa.Instruction),
					"lookup in the per-block working set == absent", lookupAbsent(blockWide))
			})
		}
	}
	c.R.FloorCheck("W-unspent database fetches", nU, 2)

	cc := c.fn(txpkg, "DefaultChecker", "ContextCheck")
	if cc != nil {
		ids := callPred(R{"blockchain", "Ledger", "IsDoubleSpend"})
		c.G1s("G1-unspent", "ContextCheck|IsDoubleSpend", cc, "Ledger.IsDoubleSpend == false", ids, G1Opt{PassVal: false})
		for _, call := range ssau.CallsIn(cc, ids) {
			a := call.Common().Args
			c.R.Check("G1-unspent", "ContextCheck|IsDoubleSpend arg", ssau.IsFieldOf(ssau.Unwrap(a[len(a)-1]), "TransactionParameters", "Transaction"), c.posOf(call), "IsDoubleSpend must be applied to the validated transaction")
		}
	}
	c.contextCheckOverrides("G1-unspent")
	if lg := c.fn("blockchain", "Ledger", "IsDoubleSpend"); lg != nil {
		c.G1s("G1-unspent", "Ledger.IsDoubleSpend|delegates", lg, "IChainStore.IsDoubleSpend", func(cm *ssa.CallCommon) bool {
			o := ssau.CalleeObj(cm)
			return o != nil && o.Name() == "IsDoubleSpend"
		}, G1Opt{BoolSuccess: false, PassVal: false})
	}
	ds := c.fn("blockchain", "ChainStore", "IsDoubleSpend")
	if ds != nil {
		fromUnspent := func(v ssa.Value) bool {
			return ssau.DependsOn(v, func(x ssa.Value) bool { return methodCallNamed(x, "GetUnspent") })
		}
		fromIndex := func(v ssa.Value) bool {
			return ssau.DependsOn(v, func(x ssa.Value) bool { return ssau.IsFieldOf(x, "OutPoint", "Index") }) && !fromUnspent(v)
		}
		// accept = "not double spend" = return false
		opt := G1Opt{BoolSuccess: false}
		_ = opt
		c.iterGuardOpt("G1-unspent", "IsDoubleSpend|per-input membership", ds, "unspents[k] == input.Previous.Index", condCmp(fromUnspent, fromIndex, token.EQL, true), 1, G1Opt{BoolSuccess: false})
		// GetUnspent error => true (reject): per iteration, the lookup is made and its error tested
		c.iterMustPass("G1-unspent", "IsDoubleSpend|GetUnspent checked", ds, "GetUnspent", func(cm *ssa.CallCommon) bool {
			o := ssau.CalleeObj(cm)
			return o != nil && o.Name() == "GetUnspent"
		}, true)
		// the GetUnspent argument is the TxID of the same input whose Index is compared
		for _, call := range ssau.CallsIn(ds, func(cm *ssa.CallCommon) bool { o := ssau.CalleeObj(cm); return o != nil && o.Name() == "GetUnspent" }) {
			a := call.Common().Args
			c.R.Check("G1-unspent", "IsDoubleSpend|GetUnspent(TxID)", ssau.DependsOn(a[len(a)-1], func(x ssa.Value) bool { return ssau.IsFieldOf(x, "OutPoint", "TxID") }), c.posOf(call), "GetUnspent must be asked for input.Previous.TxID")
		}
		// outer loop covers every input: bound is len(txn.Inputs()), start 0, step 1
		c.R.Check("G1-unspent", "IsDoubleSpend|covers all inputs", c.loopCoversAll(ds, "Inputs"), c.pos(ds.Pos()), "the outer loop visits indexes 0..len(Inputs())-1")
	}

	// mempool slot
	c.mempoolInputSlot("R-slot")
	// per-tx duplicate-input sets keyed by ReferKey
	n := 0
	for _, t := range c.txTypesDeclaring("CheckTransactionInput") {
		fn := c.P.Func(txpkg, t, "CheckTransactionInput")
		for _, s := range findSeenSets(fn) {
			n++
			ok := methodCallNamed(ssau.Unwrap(s.lookup.Index), "ReferKey") && methodCallNamed(ssau.Unwrap(s.update.Key), "ReferKey")
			c.R.Check("R-slot", "CheckTransactionInput|"+t+"|key=ReferKey()", ok, c.posOf(s.lookup), "the per-transaction duplicate-input set must be keyed by input.ReferKey()")
			s := s
			c.iterGuard("R-slot", "CheckTransactionInput|"+t+"|absent-or-reject", fn, "duplicate-input lookup == absent", lookupAbsent(func(v ssa.Value) bool { return v == ssa.Value(s.mk) }), 0)
		}
	}
	c.R.FloorCheck("R-slot per-tx duplicate sets", n, 2)
}

func sameCallRecv(a, b ssa.Value) bool {
	ca, ok1 := ssau.Unwrap(a).(*ssa.Call)
	cb, ok2 := ssau.Unwrap(b).(*ssa.Call)
	if !ok1 || !ok2 || len(ca.Call.Args) == 0 || len(cb.Call.Args) == 0 {
		return false
	}
	return ca.Call.Args[0] == cb.Call.Args[0]
}

// iterGuardOpt is iterGuard with an exit-classifier option.
func (c *Ctx) iterGuardOpt(rule, key string, fn *ssa.Function, what string, sel IfArm, level int, opt G1Opt) bool {
	// identical to iterGuard but the success-exit scan uses opt
	cut := ssau.NewCut()
	_, ifs := c.matchGuardsA(fn, sel, cut, 0)
	if len(ifs) == 0 {
		c.R.Check(rule, key, false, c.pos(fn.Pos()), fmt.Sprintf("%s: no branch on %s", fname(fn), what))
		return false
	}
	hs := loopHeaders(ifs[0].Block())
	if len(hs) == 0 {
		c.R.Check(rule, key, false, c.posOf(ifs[0]), fmt.Sprintf("%s: the test of %s is not inside a loop", fname(fn), what))
		return false
	}
	if level >= len(hs) {
		// the inner search loop was folded into a helper: the element loop is the outermost one left
		level = len(hs) - 1
	}
	H := hs[level]
	var body *ssa.BasicBlock
	for _, s := range H.Succs {
		if s == ifs[0].Block() || s.Dominates(ifs[0].Block()) {
			body = s
		}
	}
	if body == nil {
		c.R.Undecided(rule, key, c.posOf(ifs[0]), "cannot identify loop body")
		return false
	}
	cut.AddInstr(H.Instrs[0])
	r := ssau.ReachFromBlock(fn, body, cut)
	for _, p := range H.Preds {
		if r.EdgeReachable(p, H) && (r.Block(p) || p == body) {
			c.R.Check(rule, key, false, c.posOf(ifs[0]), fmt.Sprintf("%s: a loop iteration completes without passing %s; path %s", fname(fn), what, ssau.DescribePath(fn, r.Path(p), c.pos)))
			return false
		}
	}
	ec := c.classifier(fn, opt)
	for _, ret := range ec.SuccessExitsIn(r, cut) {
		if r.Block(ret.Block()) {
			c.R.Check(rule, key, false, c.posOf(ret), fmt.Sprintf("%s: success exit inside the loop without passing %s", fname(fn), what))
			return false
		}
	}
	c.R.Check(rule, key, true, c.posOf(ifs[0]), fmt.Sprintf("%s: every completed iteration passes %s (%d branch(es))", fname(fn), what, len(ifs)))
	return true
}

// loopCoversAll: fn has a loop whose condition is `i < len(X())` with i a phi
// starting at 0 and stepping by 1, or a range loop over X().
func (c *Ctx) loopCoversAll(fn *ssa.Function, coll string) bool {
	for _, i := range ssau.Ifs(fn) {
		b, ok := i.Cond.(*ssa.BinOp)
		if !ok || b.Op != token.LSS {
			continue
		}
		if !lenOfCall(coll)(b.Y) {
			continue
		}
		if blockComment(i) == "rangeindex.loop" {
			return true
		}
		phi, ok := b.X.(*ssa.Phi)
		if !ok {
			continue
		}
		start0, step1 := false, false
		for _, e := range phi.Edges {
			if isConstInt(0)(e) {
				start0 = true
			}
			if add, ok := e.(*ssa.BinOp); ok && add.Op == token.ADD && add.X == ssa.Value(phi) && isConstInt(1)(add.Y) {
				step1 = true
			}
		}
		if start0 && step1 {
			return true
		}
	}
	return false
}

// mempoolInputSlot checks the conflict manager's input slot.
func (c *Ctx) mempoolInputSlot(rule string) {
	ap := c.fn("mempool", "TxPool", "appendToTxPool")
	if ap != nil {
		add := firstCall(ap, callPred(R{"mempool", "TxPool", "doAddTransaction"}))
		if add == nil {
			c.R.Check(rule, "appendToTxPool|doAddTransaction", false, c.pos(ap.Pos()), "no call of doAddTransaction")
		} else {
			for _, need := range []R{{"mempool", "TxPool", "verifyTransactionWithTxnPool"}, {"mempool", "conflictManager", "AppendTx"}} {
				need := need
				c.G2(rule, "appendToTxPool|"+need.Name+" before doAddTransaction", ap, add, need.Name+"(tx) == nil", func(i *ssa.If) (bool, bool) {
					x, trueIsNil, ok := ssau.NilTest(i.Cond)
					if ok && ssau.IsCallTo(ssau.Unwrap(x), callPred(need)) {
						return true, trueIsNil
					}
					return false, false
				})
			}
		}
	}
	// the key function: returns ReferKey of every referenced input
	kf := c.fn("mempool", "", "strArrayTxReferences")
	if kf != nil {
		isRef := func(v ssa.Value) bool { return methodCallNamed(v, "GetTxReference") }
		rangeOK := false
		for _, b := range kf.Blocks {
			for _, in := range b.Instrs {
				if rg, ok := in.(*ssa.Range); ok && ssau.DependsOn(rg.X, isRef) {
					rangeOK = true
				}
			}
		}
		retOK := false
		for _, ret := range ssau.Returns(kf) {
			if ssau.DependsOn(ret.Results[0], func(x ssa.Value) bool { return methodCallNamed(x, "ReferKey") }) {
				retOK = true
			}
		}
		refArg := false
		for _, call := range ssau.CallsIn(kf, func(cm *ssa.CallCommon) bool {
			o := ssau.CalleeObj(cm)
			return o != nil && o.Name() == "GetTxReference"
		}) {
			a := call.Common().Args
			refArg = paramNamed(a[len(a)-1], "tx")
		}
		c.R.Check(rule, "strArrayTxReferences|ReferKey of every input", rangeOK && retOK && refArg, c.pos(kf.Pos()), "the input slot key function ranges over GetTxReference(tx) and returns the ReferKey() of every referenced input")
	}
	// registration: newConflictManager stores a slot for slotTxInputsReferKeys with allType and strArrayTxReferences
	ncm := c.fn("mempool", "", "newConflictManager")
	if ncm != nil && kf != nil {
		found := false
		for _, b := range ncm.Blocks {
			for _, in := range b.Instrs {
				// any reference to the key function in the constructor
				for _, op := range in.Operands(nil) {
					if *op == ssa.Value(kf) {
						found = true
					}
					if mc, ok := (*op).(*ssa.MakeClosure); ok && mc.Fn == ssa.Value(kf) {
						found = true
					}
				}
			}
		}
		c.R.Check(rule, "newConflictManager|input slot registered", found, c.pos(ncm.Pos()), "newConflictManager registers strArrayTxReferences")
	}
}

func runC07(c *Ctx) {
	c.R.Rule("G1-sanity", "CheckBlockSanity: every success exit is behind (i) the true arm of transactions[0].IsCoinBaseTx(), (ii) a loop over transactions[1:] whose iterations complete only on the false arm of IsCoinBaseTx(), (iii) a loop over all block.Transactions whose iterations complete only through the absent arm of a set keyed by txn.Hash() with that key inserted, (iv) the true arm of header.MerkleRoot.IsEqual(root) with root = ComputeRoot(ids) checked, ids being the per-iteration append of the same txn.Hash() values")
	cbs := c.fn("blockchain", "BlockChain", "CheckBlockSanity")
	if cbs == nil {
		return
	}
	isCB := func(v ssa.Value) bool { return methodCallNamed(v, "IsCoinBaseTx") }
	firstIdx := func(call *ssa.Call) bool {
		// receiver/arg derives from an IndexAddr with constant index 0
		for _, a := range append([]ssa.Value{call.Call.Value}, call.Call.Args...) {
			if a == nil {
				continue
			}
			if ssau.DependsOn(a, func(x ssa.Value) bool {
				ia, ok := x.(*ssa.IndexAddr)
				return ok && isConstInt(0)(ia.Index)
			}) {
				return true
			}
		}
		return false
	}
	c.GuardSuccess("G1-sanity", "CheckBlockSanity|first tx is coinbase", cbs, "transactions[0].IsCoinBaseTx()", func(i *ssa.If) (bool, bool) {
		x, neg := ssau.StripNot(i.Cond)
		if call, ok := x.(*ssa.Call); ok && isCB(x) && firstIdx(call) {
			return true, !neg
		}
		return false, false
	}, G1Opt{})
	// (ii) second coinbase
	secondSel := func(i *ssa.If) (bool, bool) {
		x, neg := ssau.StripNot(i.Cond)
		if call, ok := x.(*ssa.Call); ok && isCB(x) && !firstIdx(call) {
			return true, neg // required: IsCoinBaseTx() == false
		}
		return false, false
	}
	c.iterGuard("G1-sanity", "CheckBlockSanity|no second coinbase", cbs, "tx.IsCoinBaseTx() == false for transactions[1:]", secondSel, 0)
	// the loop is over a slice expression with low bound 1 of the transactions
	okSlice := false
	for _, b := range cbs.Blocks {
		for _, in := range b.Instrs {
			if sl, ok := in.(*ssa.Slice); ok && sl.Low != nil && isConstInt(1)(sl.Low) && sl.High == nil {
				if ssau.DependsOn(sl.X, func(x ssa.Value) bool { return ssau.IsFieldOf(x, "Block", "Transactions") }) {
					okSlice = true
				}
			}
		}
	}
	// or an index loop i = 1 .. len(transactions)-1 in steps of one whose body tests transactions[i]
	if !okSlice {
		isTxs := func(v ssa.Value) bool {
			return ssau.DependsOn(v, func(x ssa.Value) bool { return ssau.IsFieldOf(x, "Block", "Transactions") })
		}
		for _, i := range ssau.Ifs(cbs) {
			b, ok := i.Cond.(*ssa.BinOp)
			if !ok || b.Op != token.LSS || !isLenOf(isTxs)(b.Y) {
				continue
			}
			phi, ok := b.X.(*ssa.Phi)
			if !ok {
				continue
			}
			from1, step1 := false, false
			for _, e := range phi.Edges {
				if isConstInt(1)(e) {
					from1 = true
				}
				if add, ok := e.(*ssa.BinOp); ok && add.Op == token.ADD && add.X == ssa.Value(phi) && isConstInt(1)(add.Y) {
					step1 = true
				}
			}
			// the coinbase test in the loop indexes the transactions with that counter
			uses := false
			for blk := range ssau.LoopBody(i.Block()) {
				for _, in := range blk.Instrs {
					if ia, ok := in.(*ssa.IndexAddr); ok && ia.Index == ssa.Value(phi) && isTxs(ia.X) {
						uses = true
					}
				}
			}
			if from1 && step1 && uses {
				okSlice = true
			}
		}
	}
	c.R.Check("G1-sanity", "CheckBlockSanity|second-coinbase loop covers transactions[1:]", okSlice, c.pos(cbs.Pos()), "the second-coinbase loop covers every transaction from index 1 (range over transactions[1:] or an index loop from 1)")
	// (iii) duplicate txid
	var idSet *seenSet
	for _, s := range findSeenSets(cbs) {
		s := s
		if methodCallNamed(ssau.Unwrap(s.lookup.Index), "Hash") {
			idSet = &s
		}
	}
	if idSet == nil {
		c.R.Check("G1-sanity", "CheckBlockSanity|duplicate txid set", false, c.pos(cbs.Pos()), "no insert-or-reject set keyed by txn.Hash() found")
	} else {
		c.iterGuard("G1-sanity", "CheckBlockSanity|per-tx unique id", cbs, "existingTxIDs lookup == absent", lookupAbsent(func(v ssa.Value) bool { return v == ssa.Value(idSet.mk) }), 0)
		c.R.Check("G1-sanity", "CheckBlockSanity|id insert key = lookup key", idSet.update.Key == idSet.lookup.Index, c.posOf(idSet.update), "the inserted id is the looked-up id")
		hs := loopHeaders(idSet.lookup.Block())
		c.R.Check("G1-sanity", "CheckBlockSanity|id loop covers all transactions", len(hs) == 1 && loopRangesOver(hs[0], func(v ssa.Value) bool { return ssau.IsFieldOf(ssau.Unwrap(v), "Block", "Transactions") }), c.posOf(idSet.lookup), "the duplicate-id loop ranges over block.Transactions")
		c.R.Check("G1-sanity", "CheckBlockSanity|id set spans the block", len(loopHeaders(idSet.mk.Block())) == 0, c.posOf(idSet.mk), "allocated once per block")
	}
	// (iv) merkle root
	cr := callPred(R{"crypto", "", "ComputeRoot"})
	c.G1s("G1-sanity", "CheckBlockSanity|ComputeRoot checked", cbs, "crypto.ComputeRoot", cr, G1Opt{})
	c.GuardSuccess("G1-sanity", "CheckBlockSanity|merkle root equality", cbs, "header.MerkleRoot.IsEqual(ComputeRoot(ids))", func(i *ssa.If) (bool, bool) {
		x, neg := ssau.StripNot(i.Cond)
		call, ok := x.(*ssa.Call)
		if !ok || !methodCallNamed(x, "IsEqual") || len(call.Call.Args) != 2 {
			return false, false
		}
		isRoot := func(v ssa.Value) bool {
			return ssau.DependsOn(v, func(y ssa.Value) bool { return ssau.IsCallTo(y, cr) })
		}
		isHdr := func(v ssa.Value) bool {
			return ssau.DependsOn(v, func(y ssa.Value) bool { return ssau.IsFieldOf(y, "Header", "MerkleRoot") })
		}
		a, b := call.Call.Args[0], call.Call.Args[1]
		if (isRoot(a) && isHdr(b)) || (isRoot(b) && isHdr(a)) {
			return true, !neg
		}
		return false, false
	}, G1Opt{})
	// the slice given to ComputeRoot is built by appending the dup-checked hash in the same loop
	for _, call := range ssau.CallsIn(cbs, cr) {
		arg := call.Common().Args[0]
		okAppend := false
		if idSet != nil {
			okAppend = ssau.DependsOn(arg, func(x ssa.Value) bool {
				cl, ok := x.(*ssa.Call)
				if !ok {
					return false
				}
				if bi, ok := cl.Call.Value.(*ssa.Builtin); ok && bi.Name() == "append" {
					// appended element derives from the looked-up hash value
					return ssau.DependsOn(cl.Call.Args[1], func(y ssa.Value) bool { return y == idSet.lookup.Index }) &&
						ssau.EnclosingLoopHeader(cl.Block()) == ssau.EnclosingLoopHeader(idSet.lookup.Block())
				}
				return false
			})
		}
		c.R.Check("G1-sanity", "CheckBlockSanity|root over the dup-checked hashes", okAppend, c.posOf(call), "ComputeRoot's argument is the slice appended with the same txn.Hash() that was checked for duplicates, in the same loop")
	}
	// header binding of PoW (shared with C09): AuxPow.Check and CheckProofOfWork are checked
	c.GuardSuccess("G1-sanity", "CheckBlockSanity|numTx != 0", cbs, "len(block.Transactions) == 0", condCmp(isLenOf(func(v ssa.Value) bool { return ssau.IsFieldOf(ssau.Unwrap(v), "Block", "Transactions") }), isConstInt(0), token.EQL, false), G1Opt{})
}

// dupInputSetInHelper handles the variant where the per-block duplicate-input set is allocated in CheckBlockSanity
// and the insert-or-reject loop over a transaction's inputs lives in a helper that receives the set. It emits the
// same G1-dupinput obligations and reports whether such a helper was found.
func (c *Ctx) dupInputSetInHelper(cbs *ssa.Function) bool {
	for _, b := range cbs.Blocks {
		for _, in := range b.Instrs {
			cl, ok := in.(*ssa.Call)
			if !ok {
				continue
			}
			h := cl.Call.StaticCallee()
			if h == nil || h.Pkg != cbs.Pkg || len(h.Blocks) == 0 {
				continue
			}
			// an argument that is a map allocated in cbs
			for ai, a := range cl.Call.Args {
				mk, ok := ssau.Unwrap(a).(*ssa.MakeMap)
				if !ok || mk.Parent() != cbs || ai >= len(h.Params) {
					continue
				}
				prm := h.Params[ai]
				var lookup *ssa.Lookup
				var update *ssa.MapUpdate
				if refs := prm.Referrers(); refs != nil {
					for _, r := range *refs {
						switch y := r.(type) {
						case *ssa.Lookup:
							if y.CommaOk {
								lookup = y
							}
						case *ssa.MapUpdate:
							update = y
						}
					}
				}
				if lookup == nil || update == nil {
					continue
				}
				found := false
				ssau.WithParamSubst(cl, func() {
					if !ssau.DependsOn(lookup.Index, func(x ssa.Value) bool { return methodCallNamed(x, "ReferKey") || methodCallNamed(x, "Inputs") }) {
						return
					}
					found = true
					isMap := func(v ssa.Value) bool { return v == ssa.Value(prm) }
					c.iterGuardOpt("G1-dupinput", "CheckBlockSanity|per-input absent-or-reject", h, "existingTxInputs lookup == absent", lookupAbsent(isMap), 0, G1Opt{BoolSuccess: completionValue(h)})
					keyOK := func(k ssa.Value) bool { return methodCallNamed(ssau.Unwrap(k), "ReferKey") }
					c.R.Check("G1-dupinput", "CheckBlockSanity|lookup key = ReferKey()", keyOK(lookup.Index), c.posOf(lookup), "the duplicate set must be keyed by input.ReferKey() (outpoint), not by a value that includes the sequence")
					c.R.Check("G1-dupinput", "CheckBlockSanity|insert key = lookup key", update.Key == lookup.Index || (keyOK(update.Key) && sameCallRecv(update.Key, lookup.Index)), c.posOf(update), "the inserted key must be the looked-up key")
					c.R.Check("G1-dupinput", "CheckBlockSanity|set spans the block", len(loopHeaders(mk.Block())) == 0, c.posOf(mk), "the duplicate set must be allocated once per block, outside the loops")
					hsIn := loopHeaders(lookup.Block())
					hsOut := loopHeaders(cl.Block())
					okIn := len(hsIn) >= 1 && loopRangesOver(hsIn[0], func(v ssa.Value) bool { return methodCallNamed(ssau.Unwrap(v), "Inputs") }) &&
						len(hsOut) >= 1 && loopRangesOver(hsOut[0], func(v ssa.Value) bool { return ssau.IsFieldOf(ssau.Unwrap(v), "Block", "Transactions") })
					c.R.Check("G1-dupinput", "CheckBlockSanity|loop domains", okIn, c.posOf(lookup), "inner loop ranges over txn.Inputs(), outer loop over block.Transactions")
				})
				if found {
					// every transaction's iteration passes the helper and its verdict is checked
					hp := func(cm *ssa.CallCommon) bool { return cm.StaticCallee() == h }
					c.iterMustPass("G1-dupinput", "CheckBlockSanity|helper "+h.Name()+" checked", cbs, h.Name(), hp, true)
					return true
				}
			}
		}
	}
	return false
}

// completionValue: for a helper with a bool verdict, the constant it returns when it runs to completion (the return
// outside every loop); that value means "passed". False when the helper has no such return (error verdicts ignore it).
func completionValue(h *ssa.Function) bool {
	idx := ssau.VerdictIndex(h.Signature)
	if idx < 0 {
		return false
	}
	for _, ret := range ssau.Returns(h) {
		if len(loopHeaders(ret.Block())) != 0 || idx >= len(ret.Results) {
			continue
		}
		if k, ok := ret.Results[idx].(*ssa.Const); ok && k.Value != nil && k.Value.Kind() == constant.Bool {
			return constant.BoolVal(k.Value)
		}
	}
	return false
}
