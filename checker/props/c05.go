package props

import (
	"fmt"
	"go/constant"
	"go/token"
	"go/types"
	"sort"
	"strings"

	"elaverif/ssau"

	"golang.org/x/tools/go/ssa"
)

func init() {
	register(&Check{ID: "C05", Title: "Spending requires valid signatures from every spent address", Run: runC05})
}

// txTypes lists named struct types of core/transaction that declare method m directly.
func (c *Ctx) txTypesDeclaring(m string) []string {
	pk := c.P.Pkg(txpkg)
	var out []string
	if pk == nil {
		return out
	}
	sc := pk.Types.Scope()
	for _, name := range sc.Names() {
		if _, ok := sc.Lookup(name).(*types.TypeName); !ok {
			continue
		}
		if f := c.P.Func(txpkg, name, m); f != nil && len(f.Blocks) > 0 {
			out = append(out, name)
		}
	}
	sort.Strings(out)
	return out
}

// earlyAcceptExits returns the returns of a SpecialContextCheck that may yield (nil, true).
func earlyAcceptExits(fn *ssa.Function) []*ssa.Return {
	var out []*ssa.Return
	ecErr := &ssau.ExitClassifier{Fn: fn, Idx: 0}
	r := ssau.ReachFromEntry(fn, nil)
	okErr := map[*ssa.Return]bool{}
	for _, ret := range ecErr.SuccessExitsIn(r, ssau.NewCut()) {
		okErr[ret] = true
	}
	for _, ret := range ssau.Returns(fn) {
		if !okErr[ret] || len(ret.Results) < 2 {
			continue
		}
		if cst, ok := ret.Results[1].(*ssa.Const); ok && cst.Value != nil && cst.Value.Kind() == constant.Bool && !constant.BoolVal(cst.Value) {
			continue
		}
		out = append(out, ret)
	}
	return out
}

// iterMustPass: in the loop enclosing the calls matched by pred, every
// iteration that completes (reaches the loop header again) or returns success
// has passed one of those calls with its verdict tested. One obligation per
// distinct bypass decision, so that a known bypass does not mask a new one.
func (c *Ctx) iterMustPass(rule, keyPrefix string, fn *ssa.Function, what string, pred func(*ssa.CallCommon) bool, passVal bool) {
	if fn == nil {
		return
	}
	// a same-package helper that dispatches to the required calls outside any loop of its own (a per-element
	// "check this one" helper) counts as a required call here; inside it, every success exit must have passed one
	helpers := map[*ssa.Function]bool{}
	if c.iterDepth < 2 {
		for _, b := range fn.Blocks {
			for _, in := range b.Instrs {
				cl, ok := in.(*ssa.Call)
				if !ok || pred(&cl.Call) {
					continue
				}
				h := cl.Call.StaticCallee()
				if h == nil || h.Pkg == nil || h == fn || len(h.Blocks) == 0 || len(h.Blocks) > 40 || helpers[h] {
					continue
				}
				root := fn
				for root.Parent() != nil {
					root = root.Parent()
				}
				hc := ssau.CallsIn(h, pred)
				if h.Pkg != root.Pkg || len(hc) == 0 || ssau.EnclosingLoopHeader(hc[0].Block()) != nil || ssau.EnclosingLoopHeader(b) == nil {
					continue
				}
				helpers[h] = true
				ssau.WithParamSubst(cl, func() { c.exitMustPass(rule, keyPrefix, h, what, pred, passVal) })
			}
		}
	}
	if len(helpers) > 0 {
		inner := pred
		pred = func(cm *ssa.CallCommon) bool { return inner(cm) || helpers[cm.StaticCallee()] }
	}
	calls := ssau.CallsIn(fn, pred)
	if len(calls) == 0 {
		// the element loop may have been extracted into a helper of the same package: then the rule must hold
		// inside the helper and the helper's verdict must be checked here
		if c.iterDepth < 2 {
			for _, b := range fn.Blocks {
				for _, in := range b.Instrs {
					cl, ok := in.(*ssa.Call)
					if !ok {
						continue
					}
					h := cl.Call.StaticCallee()
					if h == nil || h.Pkg == nil || h == fn || len(h.Blocks) == 0 || len(ssau.CallsIn(h, pred)) == 0 {
						continue
					}
					root := fn
					for root.Parent() != nil {
						root = root.Parent()
					}
					if h.Pkg != root.Pkg {
						continue
					}
					c.iterDepth++
					ssau.WithParamSubst(cl, func() { c.iterMustPass(rule, keyPrefix, h, what, pred, passVal) })
					c.iterDepth--
					hp := func(cm *ssa.CallCommon) bool { return cm.StaticCallee() == h }
					c.G1s(rule, keyPrefix+"|helper "+h.Name()+" checked", fn, h.Name(), hp, G1Opt{PassVal: passVal})
					return
				}
			}
		}
		c.R.Check(rule, keyPrefix+"|calls", false, c.pos(fn.Pos()), "no call to "+what)
		return
	}
	H := ssau.EnclosingLoopHeader(calls[0].Block())
	if H == nil {
		c.R.Undecided(rule, keyPrefix+"|loop", c.posOf(calls[0]), "required calls are not inside a loop")
		return
	}
	cut, unchecked := ssau.CheckedCut(fn, calls, passVal)
	for _, u := range unchecked {
		name := "?"
		if o := ssau.CalleeObj(u.Common()); o != nil {
			name = o.Name()
		}
		c.R.Check(rule, keyPrefix+"|unchecked:"+name, false, c.posOf(u), "verdict of "+name+" is neither tested nor returned")
	}
	var body *ssa.BasicBlock
	for _, s := range H.Succs {
		if s == calls[0].Block() || s.Dominates(calls[0].Block()) {
			body = s
		}
	}
	if body == nil {
		c.R.Undecided(rule, keyPrefix+"|loop", c.posOf(calls[0]), "cannot identify loop body")
		return
	}
	cut.AddInstr(H.Instrs[0]) // do not continue into the next iteration / loop exit
	r := ssau.ReachFromBlock(fn, body, cut)
	n := 0
	report := func(p *ssa.BasicBlock, toHeader bool) {
		var iff *ssa.If
		var arm bool
		if i, ok := p.Instrs[len(p.Instrs)-1].(*ssa.If); ok && toHeader {
			iff, arm = i, p.Succs[0] == H
		} else {
			iff, arm = ssau.DecisionBefore(p)
		}
		desc := "merge:" + p.Comment
		pos := c.pos(fn.Pos())
		if iff != nil {
			desc = fmt.Sprintf("%s=%v", ssau.CondString(iff.Cond), arm)
			pos = c.posOf(iff)
		}
		n++
		c.R.Check(rule, keyPrefix+"|bypass:"+desc, false, pos, fmt.Sprintf("%s: an iteration completes without a passed call to %s when %s", fname(fn), what, desc))
	}
	for _, p := range H.Preds {
		if r.EdgeReachable(p, H) && (r.Block(p) || p == body) {
			report(p, true)
		}
	}
	ec := c.classifier(fn, G1Opt{})
	for _, ret := range ec.SuccessExitsIn(r, cut) {
		if ret.Block() == H || !r.Block(ret.Block()) {
			continue
		}
		// success return inside the loop body without verification
		report(ret.Block(), false)
	}
	if n == 0 {
		c.R.Check(rule, keyPrefix+"|all-iterations", true, c.posOf(calls[0]), fmt.Sprintf("%s: every completed iteration passes a checked call to %s (%d call sites)", fname(fn), what, len(calls)))
	}
}

// exitMustPass: every success exit of the (loop-free dispatch) helper fn has passed a checked call matched by
// pred; each way around them is reported under the caller's key prefix, named by the deciding branch.
func (c *Ctx) exitMustPass(rule, keyPrefix string, fn *ssa.Function, what string, pred func(*ssa.CallCommon) bool, passVal bool) {
	calls := ssau.CallsIn(fn, pred)
	cut, unchecked := ssau.CheckedCut(fn, calls, passVal)
	for _, u := range unchecked {
		name := "?"
		if o := ssau.CalleeObj(u.Common()); o != nil {
			name = o.Name()
		}
		c.R.Check(rule, keyPrefix+"|unchecked:"+name, false, c.posOf(u), "verdict of "+name+" is neither tested nor returned")
	}
	r := ssau.ReachFromEntry(fn, cut)
	ec := c.classifier(fn, G1Opt{})
	n := 0
	for _, ret := range ec.SuccessExitsIn(r, cut) {
		iff, arm := ssau.DecisionBefore(ret.Block())
		if iff == nil {
			// a join: name the branch of the one incoming edge that is reachable without a passed call
			var live []*ssa.BasicBlock
			for _, p := range ret.Block().Preds {
				if r.EdgeReachable(p, ret.Block()) {
					live = append(live, p)
				}
			}
			if len(live) == 1 {
				if i, ok := live[0].Instrs[len(live[0].Instrs)-1].(*ssa.If); ok {
					iff, arm = i, live[0].Succs[0] == ret.Block()
				} else {
					iff, arm = ssau.DecisionBefore(live[0])
				}
			}
		}
		desc := "merge:" + ret.Block().Comment
		pos := c.posOf(ret)
		if iff != nil {
			desc = fmt.Sprintf("%s=%v", ssau.CondString(iff.Cond), arm)
			pos = c.posOf(iff)
		}
		n++
		c.R.Check(rule, keyPrefix+"|bypass:"+desc, false, pos, fmt.Sprintf("%s: returns success without a passed call to %s when %s", fname(fn), what, desc))
	}
	if n == 0 {
		c.R.Check(rule, keyPrefix+"|helper "+fn.Name()+" exits", true, c.pos(fn.Pos()), fmt.Sprintf("%s: every success exit passes a checked call to %s (%d call sites)", fname(fn), what, len(calls)))
	}
}

// viaCall is a call matched by a predicate, either directly in the analysed function (via == nil) or inside a
// same-package helper that the function calls at via.
type viaCall struct {
	call ssa.CallInstruction
	via  *ssa.Call
}

func (v viaCall) anchor() ssa.Instruction {
	if v.via != nil {
		return v.via
	}
	return v.call
}

// with runs f with the helper's parameters standing for the arguments of the call it was reached through.
func (v viaCall) with(f func()) {
	if v.via != nil {
		ssau.WithParamSubst(v.via, f)
		return
	}
	f()
}

func callsVia(fn *ssa.Function, pred func(*ssa.CallCommon) bool) []viaCall {
	var out []viaCall
	seen := map[*ssa.Function]bool{}
	for _, b := range fn.Blocks {
		for _, in := range b.Instrs {
			ci, ok := in.(ssa.CallInstruction)
			if !ok {
				continue
			}
			if pred(ci.Common()) {
				out = append(out, viaCall{call: ci})
				continue
			}
			cl, ok := in.(*ssa.Call)
			if !ok {
				continue
			}
			h := cl.Call.StaticCallee()
			if h == nil || h.Pkg == nil || h.Pkg != fn.Pkg || h == fn || len(h.Blocks) == 0 || len(h.Blocks) > 40 || seen[h] {
				continue
			}
			seen[h] = true
			for _, hc := range ssau.CallsIn(h, pred) {
				out = append(out, viaCall{call: hc, via: cl})
			}
		}
	}
	return out
}

// Outcome labels for three-valued decision tables.
func returnOutcome(ret *ssa.Return, idx int, trace []int) string {
	v := ssau.ResolveSpill(ret.Results[idx])
	if phi, ok := v.(*ssa.Phi); ok && phi.Block() == ret.Block() && len(trace) >= 2 {
		prev := trace[len(trace)-2]
		for i, p := range phi.Block().Preds {
			if p.Index == prev {
				v = phi.Edges[i]
			}
		}
	}
	switch x := v.(type) {
	case *ssa.Const:
		if x.Value == nil {
			return "nil"
		}
		return x.Value.String()
	case *ssa.Call:
		if ssau.ErrCtor(x.Call.StaticCallee()) {
			return "err"
		}
		if o := ssau.CalleeObj(&x.Call); o != nil {
			return "call:" + o.Name()
		}
		return "call"
	case *ssa.MakeInterface:
		return "err"
	}
	return "value"
}

// DecisionX is Decision with rule-defined outcome labels.
func (c *Ctx) DecisionX(rule, key string, fn *ssa.Function, syms *Symbols, envs []Env, idx int, expect func(Env) string) bool {
	if fn == nil {
		return false
	}
	n := 0
	for _, env := range envs {
		env := env
		res := ssau.AbsWalk(fn, ssau.AbsEnvFunc(func(i *ssa.If, visit int) (bool, bool) {
			return syms.evalCond(i.Cond, env, visit, blockComment(i))
		}))
		if res.Unknown != nil {
			c.R.Undecided(rule, key, c.posOf(res.Unknown), fmt.Sprintf("%s: branch condition %s is not in the rule's atom table (valuation %s)", fname(fn), ssau.CondString(res.Unknown.Cond), env))
			return false
		}
		if res.Ret == nil {
			c.R.Undecided(rule, key, c.pos(fn.Pos()), fmt.Sprintf("%s: abstract walk failed: %s panic=%v (valuation %s)", fname(fn), res.Err, res.Panic, env))
			return false
		}
		got := returnOutcome(res.Ret, idx, res.Trace)
		want := expect(env)
		if want == "value" && got != "nil" {
			got = "value" // any non-nil-literal outcome stands for a propagated value
		}
		if got != want {
			c.R.Check(rule, key, false, c.posOf(res.Ret), fmt.Sprintf("%s: for %s the code yields %s but the rule requires %s", fname(fn), env, got, want))
			return false
		}
		n++
	}
	c.R.Check(rule, key, true, c.pos(fn.Pos()), fmt.Sprintf("%s: outcome agrees with the rule's table on all %d abstract valuations", fname(fn), n))
	return true
}

var earlyAcceptTable = map[string]string{
	"CoinBaseTransaction":         "coinbase: exempt by the property text; its single input is the null outpoint (CheckTransactionInput)",
	"CRCAppropriationTransaction": "system-generated: inputs/outputs are recomputed exactly by every node (SpecialContextCheck compares with the appropriation amount and the CR assets/expenses addresses)",
}

func lenOfCall(name string) func(ssa.Value) bool {
	return isLenOf(func(v ssa.Value) bool { return methodCallNamed(v, name) })
}

func runC05(c *Ctx) {
	c.R.Rule("G1-sig", "in DefaultChecker.ContextCheck every success exit other than the SpecialContextCheck early exit passes a checked call of checkTransactionSignature(Transaction, references)")
	c.R.Rule("A-early", "every transaction type whose SpecialContextCheck has a (nil,true) early-accept exit either forces len(Inputs())==0 on every success path of its CheckTransactionInput or is in the frozen table of system-generated types (each with its reason)")
	c.R.Rule("T-exempt", "decision table of checkTransactionSignature: returns nil without RunPrograms exactly for the frozen set of node-generated transaction kinds; otherwise a GetTxProgramHashes error is returned, else the verdict is RunPrograms(unsigned bytes, hashes, programs)")
	c.R.Rule("K-verify", "RunPrograms receives the bytes of the buffer written by tx.SerializeUnsigned, the hashes from GetTxProgramHashes(tx, references) and tx.Programs(); each verifier receives RunPrograms' data parameter and the program at the same index as the hash")
	c.R.Rule("G1-run", "in RunPrograms every loop iteration that completes has passed one of checkSchnorrSignatures / CheckStandardSignature / CheckMultiSigSignatures / checkCrossChainSignatures with its verdict tested (one obligation per bypass decision); the count check len(programHashes)!=len(programs) guards success")
	c.R.Rule("G2-hash", "every verifier call for a non-cross-chain prefix is reachable only through the equal arm of ownerHash.IsEqual(codeHash) with ownerHash derived from programHashes[i] and codeHash from program.Code")
	c.R.Rule("G-multisig", "VerifyMultisigSignatures: success only through the false arm of len(verified) < m; verified is a map keyed by a value derived from the public key (not the signature), inserted only on the nil arm of Verify(pubKey, data, sign) and only when not already present (duplicate => reject)")

	cc := c.fn(txpkg, "DefaultChecker", "ContextCheck")
	sigPred := callPred(R{txpkg, "", "checkTransactionSignature"})
	if cc != nil {
		c.G1s("G1-sig", "ContextCheck|checkTransactionSignature", cc, "checkTransactionSignature", sigPred, G1Opt{IgnoreExit: isSpecialDelegation})
		for _, call := range ssau.CallsIn(cc, sigPred) {
			c.argIsField("G1-sig", "ContextCheck|sig arg0=Transaction", call, 0, "TransactionParameters", "Transaction")
			c.argIsCallResult("G1-sig", "ContextCheck|sig arg1=GetTxReference", call, 1, "GetTxReference", func(cm *ssa.CallCommon) bool {
				o := ssau.CalleeObj(cm)
				return o != nil && o.Name() == "GetTxReference"
			})
		}
	}
	c.contextCheckOverrides("G1-sig")

	// A-early
	c.earlyAccept("A-early", "Inputs", "CheckTransactionInput", "skips fee and signature checks", 12)

	// checkTransactionSignature table
	cts := c.fn(txpkg, "", "checkTransactionSignature")
	wdDefault, okc := c.constVal("core/types/payload", "CRCProposalWithdrawDefault")
	if cts != nil && okc {
		exempt := []string{"IsCRAssetsRectifyTx", "IsCRCProposalRealWithdrawTx", "IsNextTurnDPOSInfoTx", "IsDposV2ClaimRewardRealWithdraw", "IsVotesRealWithdrawTX"}
		// every Is*Tx predicate used in the function must be known
		syms := &Symbols{
			Bool: func(v ssa.Value) (string, bool) {
				if call, ok := v.(*ssa.Call); ok {
					if o := ssau.CalleeObj(&call.Call); o != nil && strings.HasPrefix(o.Name(), "Is") {
						return o.Name(), true
					}
				}
				return "", false
			},
			Int: func(v ssa.Value) (string, bool) {
				if methodCallNamed(v, "PayloadVersion") {
					return "ver", true
				}
				return "", false
			},
			Nil: func(v ssa.Value) (string, bool) {
				if ssau.IsCallTo(v, callPred(R{"blockchain", "", "GetTxProgramHashes"})) {
					return "hashErrNil", true
				}
				return "", false
			},
		}
		used := map[string]bool{}
		for _, i := range ssau.Ifs(cts) {
			base, _ := ssau.StripNot(i.Cond)
			if n, ok := syms.Bool(base); ok {
				used[n] = true
			}
		}
		bools := append([]string{"IsCRCProposalWithdrawTx", "hashErrNil"}, exempt...)
		for u := range used {
			known := false
			for _, b := range bools {
				if b == u {
					known = true
				}
			}
			if !known {
				bools = append(bools, u) // unknown predicates are enumerated too: they must not exempt anything
			}
		}
		sort.Strings(bools)
		// the payload version is an unvalidated byte: besides the two defined versions, two undefined ones stand for the rest
		envs := product(bools, map[string][]int64{"ver": {wdDefault, wdDefault + 1, wdDefault + 2, 255}})
		c.DecisionX("T-exempt", "checkTransactionSignature|table", cts, syms, envs, 0, func(e Env) string {
			ex := e.B["IsCRCProposalWithdrawTx"] && e.I["ver"] == wdDefault
			for _, n := range exempt {
				if e.B[n] {
					ex = true
				}
			}
			if ex {
				return "nil"
			}
			if !e.B["hashErrNil"] {
				return "value"
			}
			return "call:RunPrograms"
		})
		// K-verify: argument provenance of RunPrograms
		for _, call := range ssau.CallsIn(cts, callPred(R{"blockchain", "", "RunPrograms"})) {
			args := call.Common().Args
			// arg0 = buf.Bytes() where buf was passed to tx.SerializeUnsigned
			okBytes := false
			if bc, ok := ssau.Unwrap(args[0]).(*ssa.Call); ok && methodCallNamed(bc, "Bytes") && len(bc.Call.Args) > 0 {
				buf := bc.Call.Args[0]
				for _, su := range ssau.CallsIn(cts, func(cm *ssa.CallCommon) bool {
					o := ssau.CalleeObj(cm)
					return o != nil && o.Name() == "SerializeUnsigned"
				}) {
					for _, a := range su.Common().Args {
						if ssau.Unwrap(a) == buf || ssau.DependsOn(a, func(x ssa.Value) bool { return x == buf }) {
							okBytes = true
						}
					}
				}
				// nothing else writes the buffer
				for _, other := range ssau.CallsIn(cts, func(cm *ssa.CallCommon) bool {
					o := ssau.CalleeObj(cm)
					return o != nil && (o.Name() == "Serialize" || o.Name() == "Write" || o.Name() == "WriteString")
				}) {
					for _, a := range other.Common().Args {
						if ssau.Unwrap(a) == buf {
							okBytes = false
						}
					}
				}
			}
			c.R.Check("K-verify", "checkTransactionSignature|data=SerializeUnsigned", okBytes, c.posOf(call), "RunPrograms data must be the bytes of the buffer filled by tx.SerializeUnsigned only")
			c.R.Check("K-verify", "checkTransactionSignature|hashes=GetTxProgramHashes", ssau.IsCallTo(ssau.Unwrap(args[1]), callPred(R{"blockchain", "", "GetTxProgramHashes"})), c.posOf(call), "RunPrograms programHashes must come from GetTxProgramHashes")
			c.R.Check("K-verify", "checkTransactionSignature|programs=tx.Programs", methodCallNamed(ssau.Unwrap(args[2]), "Programs"), c.posOf(call), "RunPrograms programs must be tx.Programs()")
		}
		for _, call := range ssau.CallsIn(cts, callPred(R{"blockchain", "", "GetTxProgramHashes"})) {
			a := call.Common().Args
			c.R.Check("K-verify", "checkTransactionSignature|GetTxProgramHashes(tx,references)", paramNamed(a[0], "tx") && paramNamed(a[1], "references"), c.posOf(call), "GetTxProgramHashes must be applied to (tx, references)")
		}
	}
	// GetTxProgramHashes covers every reference and every script attribute
	gh := c.fn("blockchain", "", "GetTxProgramHashes")
	if gh != nil {
		nr := 0
		for _, b := range gh.Blocks {
			for _, in := range b.Instrs {
				if rg, ok := in.(*ssa.Range); ok && paramNamed(rg.X, "references") {
					nr++
				}
			}
		}
		c.R.Check("K-verify", "GetTxProgramHashes|ranges references", nr == 1, c.pos(gh.Pos()), "the hashes to verify are collected by ranging over the references parameter")
		attr := len(ssau.CallsIn(gh, func(cm *ssa.CallCommon) bool { o := ssau.CalleeObj(cm); return o != nil && o.Name() == "Attributes" })) > 0
		c.R.Check("K-verify", "GetTxProgramHashes|script attributes", attr, c.pos(gh.Pos()), "script-hash attributes are added to the hashes to verify")
	}

	// RunPrograms
	rp := c.fn("blockchain", "", "RunPrograms")
	verifiers := callPred(R{"blockchain", "", "checkSchnorrSignatures"}, R{"blockchain", "", "CheckStandardSignature"},
		R{"crypto", "", "CheckMultiSigSignatures"}, R{"blockchain", "", "checkCrossChainSignatures"})
	if rp != nil {
		c.iterMustPass("G1-run", "RunPrograms", rp, "a signature verifier", verifiers, true)
		c.GuardSuccess("G1-run", "RunPrograms|len(programHashes)==len(programs)", rp, "len(programHashes) != len(programs)",
			condCmp(isLenOf(func(v ssa.Value) bool { return paramNamed(v, "programHashes") }), isLenOf(func(v ssa.Value) bool { return paramNamed(v, "programs") }), token.EQL, true), G1Opt{})
		cross, _ := c.constVal("core/contract", "PrefixCrossChain")
		nver := 0
		for _, vc := range callsVia(rp, verifiers) {
			vc := vc
			call := vc.call
			nver++
			vc.with(func() {
				name := ssau.CalleeObj(call.Common()).Name()
				key := fmt.Sprintf("RunPrograms|%s", name)
				args := call.Common().Args
				// data provenance
				okData := ssau.DependsOn(args[1], func(x ssa.Value) bool { return paramNamed(x, "data") })
				c.R.Check("K-verify", key+"|data", okData, c.posOf(call), "verifier data must derive from RunPrograms' data parameter")
				// program provenance: programs[i] with the same index as programHashes[i]
				okProg := ssau.DependsOn(args[0], func(x ssa.Value) bool {
					ia, ok := x.(*ssa.IndexAddr)
					return ok && paramNamed(ia.X, "programs")
				})
				c.R.Check("K-verify", key+"|program", okProg, c.posOf(call), "verified program must be programs[i]")
				if name == "checkCrossChainSignatures" {
					return
				}
				// cross-chain prefixed schnorr call is exempt from the hash equality (legacy TODO in source): identified by being guarded by prefix==CrossChain
				cutCross := ssau.NewCut()
				for _, i := range ssau.Ifs(rp) {
					if m, arm := condCmp(func(v ssa.Value) bool { return methodCallNamed(v, "GetPrefixType") }, isConstInt(cross), token.EQL, true)(i); m {
						cutCross.AddEdge(i.Block(), ssau.Arm(i, arm))
					}
				}
				if !ssau.ReachFromEntry(rp, cutCross).Instr(vc.anchor()) {
					c.R.Info("G2-hash", key+"|cross-chain arm", c.posOf(call), "call sits on the cross-chain prefix arm (no code-hash binding there; multisig of arbiters)")
					return
				}
				c.G2("G2-hash", key+"|ownerHash==codeHash", rp, vc.anchor(), "ownerHash.IsEqual(codeHash)", func(i *ssa.If) (bool, bool) {
					x, neg := ssau.StripNot(i.Cond)
					call, ok := x.(*ssa.Call)
					if !ok || !methodCallNamed(x, "IsEqual") || len(call.Call.Args) != 2 {
						return false, false
					}
					fromCode := func(v ssa.Value) bool {
						return ssau.DependsOn(v, func(y ssa.Value) bool { return ssau.IsFieldOf(y, "Program", "Code") }) &&
							ssau.DependsOn(v, func(y ssa.Value) bool { return methodCallNamed(y, "ToCodeHash") })
					}
					fromHash := func(v ssa.Value) bool {
						return ssau.DependsOn(v, func(y ssa.Value) bool {
							ia, ok := y.(*ssa.IndexAddr)
							return ok && paramNamed(ia.X, "programHashes")
						})
					}
					a, b := call.Call.Args[0], call.Call.Args[1]
					if (fromCode(a) && fromHash(b) && !fromCode(b)) || (fromCode(b) && fromHash(a) && !fromCode(a)) {
						return true, !neg
					}
					return false, false
				})
			})
		}
		c.R.FloorCheck("G1-run verifier call sites", nver, 5)
		// index agreement: programs[i] and programHashes[i] use the same index value
		var idxP, idxH ssa.Value
		for _, b := range rp.Blocks {
			for _, in := range b.Instrs {
				if ia, ok := in.(*ssa.IndexAddr); ok {
					if paramNamed(ia.X, "programs") {
						idxP = ia.Index
					}
					if paramNamed(ia.X, "programHashes") {
						idxH = ia.Index
					}
				}
			}
		}
		c.R.Check("K-verify", "RunPrograms|same index", idxP != nil && idxP == idxH, c.pos(rp.Pos()), "programs and programHashes are indexed by the same loop variable")
	}

	// multisig
	vm := c.fn("crypto", "", "VerifyMultisigSignatures")
	if vm != nil {
		var mp *ssa.MakeMap
		for _, b := range vm.Blocks {
			for _, in := range b.Instrs {
				if m, ok := in.(*ssa.MakeMap); ok {
					mp = m
				}
			}
		}
		isMap := func(v ssa.Value) bool { return mp != nil && ssau.Unwrap(v) == ssa.Value(mp) }
		c.GuardSuccess("G-multisig", "VerifyMultisigSignatures|len(verified)>=m", vm, "len(verified) < m",
			condCmp(isLenOf(isMap), func(v ssa.Value) bool { return paramNamed(v, "m") }, token.LSS, false), G1Opt{})
		c.GuardSuccess("G-multisig", "VerifyMultisigSignatures|len(publicKeys)==n", vm, "len(publicKeys) != n",
			condCmp(isLenOf(func(v ssa.Value) bool { return paramNamed(v, "publicKeys") }), func(v ssa.Value) bool { return paramNamed(v, "n") }, token.EQL, true), G1Opt{})
		verifyPred := callPred(R{"crypto", "", "Verify"})
		nUpd := 0
		for _, b := range vm.Blocks {
			for _, in := range b.Instrs {
				up, ok := in.(*ssa.MapUpdate)
				if !ok || !isMap(up.Map) {
					continue
				}
				nUpd++
				c.G2("G-multisig", "VerifyMultisigSignatures|insert only after Verify==nil", vm, up, "Verify(...) == nil", func(i *ssa.If) (bool, bool) {
					x, trueIsNil, ok := ssau.NilTest(i.Cond)
					if ok && ssau.IsCallTo(ssau.Unwrap(x), verifyPred) {
						return true, trueIsNil
					}
					return false, false
				})
				c.G2("G-multisig", "VerifyMultisigSignatures|insert only when absent", vm, up, "_, ok := verified[hash]; ok == false", func(i *ssa.If) (bool, bool) {
					x, neg := ssau.StripNot(i.Cond)
					if e, ok := x.(*ssa.Extract); ok && e.Index == 1 {
						if lk, ok := e.Tuple.(*ssa.Lookup); ok && isMap(lk.X) && lk.CommaOk {
							return true, neg // required: ok == false
						}
					}
					return false, false
				})
				keyFromPub := ssau.DependsOn(up.Key, func(x ssa.Value) bool { return paramNamed(x, "publicKeys") })
				keyFromSig := ssau.DependsOnPrecise(up.Key, func(x ssa.Value) bool { return paramNamed(x, "signatures") })
				c.R.Check("G-multisig", "VerifyMultisigSignatures|key derives from public key", keyFromPub && !keyFromSig, c.posOf(up), "the distinctness key must be a function of the public key only")
			}
		}
		c.R.Check("G-multisig", "VerifyMultisigSignatures|single insertion site", nUpd == 1, c.pos(vm.Pos()), fmt.Sprintf("%d insertion sites into the verified set", nUpd))
		// present-key arm rejects: the duplicate branch leads only to fail exits (checked through G2 above + exit classification)
		for _, call := range ssau.CallsIn(vm, verifyPred) {
			a := call.Common().Args
			c.R.Check("G-multisig", "VerifyMultisigSignatures|Verify args", ssau.DependsOn(a[0], func(x ssa.Value) bool { return paramNamed(x, "publicKeys") }) &&
				paramNamed(a[1], "data") && ssau.DependsOn(a[2], func(x ssa.Value) bool { return paramNamed(x, "signatures") }), c.posOf(call), "Verify(pubKey from publicKeys, data, sign from signatures)")
		}
	}
	// CheckMultiSigSignatures / checkCrossChainSignatures delegate to VerifyMultisigSignatures with m,n parsed from the code
	for _, fr := range [][3]string{{"crypto", "", "CheckMultiSigSignatures"}, {"blockchain", "", "checkCrossChainSignatures"}} {
		f := c.fn(fr[0], fr[1], fr[2])
		if f == nil {
			continue
		}
		c.G1s("G-multisig", fr[2]+"|delegates to VerifyMultisigSignatures", f, "VerifyMultisigSignatures", callPred(R{"crypto", "", "VerifyMultisigSignatures"}), G1Opt{})
		for _, call := range ssau.CallsIn(f, callPred(R{"crypto", "", "VerifyMultisigSignatures"})) {
			a := call.Common().Args
			c.R.Check("G-multisig", fr[2]+"|args", ssau.DependsOn(a[3], func(x ssa.Value) bool {
				return ssau.IsFieldOf(x, "Program", "Parameter") || ssau.IsFieldOf(x, "", "Parameter")
			}) && paramNamed(a[4], "data"),
				c.posOf(call), "signatures = program.Parameter, data = data")
		}
	}
	// single-signature verifiers end in crypto.Verify / SchnorrVerify over the given data
	if f := c.fn("blockchain", "", "CheckStandardSignature"); f != nil {
		c.G1s("G1-run", "CheckStandardSignature|delegates to crypto.Verify", f, "crypto.Verify", callPred(R{"crypto", "", "Verify"}), G1Opt{})
		for _, call := range ssau.CallsIn(f, callPred(R{"crypto", "", "Verify"})) {
			a := call.Common().Args
			c.R.Check("K-verify", "CheckStandardSignature|Verify args", paramNamed(a[1], "data") &&
				ssau.DependsOn(a[0], func(x ssa.Value) bool { return ssau.IsFieldOf(x, "", "Code") }) &&
				ssau.DependsOn(a[2], func(x ssa.Value) bool { return ssau.IsFieldOf(x, "", "Parameter") }), c.posOf(call), "Verify(key from program.Code, data, program.Parameter)")
		}
	}
	if f := c.fn("blockchain", "", "checkSchnorrSignatures"); f != nil {
		c.G1s("G1-run", "checkSchnorrSignatures|delegates to SchnorrVerify", f, "crypto.SchnorrVerify", callPred(R{"crypto", "", "SchnorrVerify"}), G1Opt{HasIdx: true, Idx: 0, BoolSuccess: true, PassVal: true})
	}
	_ = types.Typ
	c.c05Digest()
}

// hashedContents lists, for the hash computations the value v is derived from inside its function, the values
// whose bytes are hashed: the argument of a one-shot SHA-256 (sha256.Sum256, common.Sha256D, common.Hash) or the
// arguments of the Write calls on the hash object whose Sum the value comes from. The argument of Sum itself is an
// output buffer prefix and is not hashed.
func hashedContents(fn *ssa.Function, v ssa.Value) (contents []ssa.Value, nhash int) {
	isOneShot := func(cm *ssa.CallCommon) bool {
		o := ssau.CalleeObj(cm)
		if o == nil || o.Pkg() == nil {
			return false
		}
		switch o.Pkg().Path() + "." + o.Name() {
		case "crypto/sha256.Sum256", "github.com/elastos/Elastos.ELA/common.Sha256D", "github.com/elastos/Elastos.ELA/common.Hash":
			return true
		}
		return false
	}
	methodOn := func(cm *ssa.CallCommon, name string) (ssa.Value, bool) {
		if cm.IsInvoke() {
			if cm.Method.Name() == name {
				return cm.Value, true
			}
			return nil, false
		}
		if o := ssau.CalleeObj(cm); o != nil && o.Name() == name && o.Type().(*types.Signature).Recv() != nil && len(cm.Args) > 0 {
			return cm.Args[0], true
		}
		return nil, false
	}
	for x := range ssau.Slice(v) {
		cl, ok := x.(*ssa.Call)
		if !ok {
			continue
		}
		if isOneShot(&cl.Call) && len(cl.Call.Args) > 0 {
			nhash++
			contents = append(contents, cl.Call.Args[len(cl.Call.Args)-1])
			continue
		}
		if h, ok := methodOn(&cl.Call, "Sum"); ok {
			nhash++
			for _, b := range fn.Blocks {
				for _, in := range b.Instrs {
					w, ok := in.(*ssa.Call)
					if !ok {
						continue
					}
					if hw, ok := methodOn(&w.Call, "Write"); ok && ssau.Unwrap(hw) == ssau.Unwrap(h) {
						args := w.Call.Args
						contents = append(contents, args[len(args)-1])
					}
				}
			}
		}
	}
	return
}

// contentFrom: the bytes of v are computed from a value satisfying pred (an empty re-slice x[:0] carries no bytes).
func contentFrom(v ssa.Value, pred func(ssa.Value) bool) bool {
	return ssau.DependsOnCut(v, pred, func(x ssa.Value) bool {
		if sl, ok := x.(*ssa.Slice); ok && sl.High != nil {
			if k, ok := sl.High.(*ssa.Const); ok && k.Value != nil && k.Value.Kind() == constant.Int {
				if n, ok := constant.Int64Val(k.Value); ok && n == 0 {
					return true
				}
			}
		}
		return false
	})
}

// c05Digest: the digest each single-signature verifier checks the signature against covers the signed data.
func (c *Ctx) c05Digest() {
	c.R.Rule("K-digest", "the value a signature is verified against is a SHA-256 whose hashed bytes are computed from the signed data: in crypto.Verify the hash argument of ecdsa.Verify covers the parameter data; in crypto.SchnorrVerify the challenge comes from getE applied to the public key, the signature's r and the message, and inside getE the hashed bytes cover every parameter (an x[:0] re-slice or the argument of hash.Sum carries no bytes)")
	isParam := func(name string) func(ssa.Value) bool {
		return func(x ssa.Value) bool { p, ok := x.(*ssa.Parameter); return ok && p.Name() == name }
	}
	n := 0
	if f := c.fn("crypto", "", "Verify"); f != nil {
		isECDSA := func(cm *ssa.CallCommon) bool {
			o := ssau.CalleeObj(cm)
			return o != nil && o.Pkg() != nil && o.Pkg().Path() == "crypto/ecdsa" && (o.Name() == "Verify" || o.Name() == "VerifyASN1")
		}
		// Verify may hash the data and hand the digest to a digest-level verifier of the package (VerifyDigest):
		// then that verifier passes its digest parameter to ecdsa.Verify and Verify passes the hash of the data
		if len(ssau.CallsIn(f, isECDSA)) == 0 {
			for _, b := range f.Blocks {
				for _, in := range b.Instrs {
					cl, ok := in.(*ssa.Call)
					if !ok {
						continue
					}
					h := cl.Call.StaticCallee()
					if h == nil || h.Pkg != f.Pkg || len(h.Blocks) == 0 {
						continue
					}
					for _, ec := range ssau.CallsIn(h, isECDSA) {
						dig := ssau.Unwrap(ec.Common().Args[1])
						for pi, prm := range h.Params {
							if dig != ssa.Value(prm) || pi >= len(cl.Call.Args) {
								continue
							}
							n++
							contents, nh := hashedContents(f, cl.Call.Args[pi])
							covered := false
							for _, hv := range contents {
								if contentFrom(hv, isParam("data")) {
									covered = true
								}
							}
							c.R.Check("K-digest", "crypto.Verify|digest=SHA256(data)", nh > 0 && covered, c.posOf(cl),
								fmt.Sprintf("the digest handed to %s must be a SHA-256 over the parameter data (%d hash computations, data covered=%v)", h.Name(), nh, covered))
						}
					}
				}
			}
		}
		for _, call := range ssau.CallsIn(f, isECDSA) {
			n++
			a := call.Common().Args
			contents, nh := hashedContents(f, a[1])
			ok := nh > 0
			covered := false
			for _, h := range contents {
				if contentFrom(h, isParam("data")) {
					covered = true
				}
			}
			c.R.Check("K-digest", "crypto.Verify|digest=SHA256(data)", ok && covered, c.posOf(call),
				fmt.Sprintf("the hash passed to ecdsa.Verify must be a SHA-256 over the parameter data (%d hash computations, data covered=%v)", nh, covered))
		}
	}
	sv := c.fn("crypto", "", "SchnorrVerify")
	ge := c.fn("crypto", "", "getE")
	if sv != nil && ge != nil {
		calls := ssau.CallsIn(sv, callPred(R{"crypto", "", "getE"}))
		c.R.Check("K-digest", "SchnorrVerify|challenge from getE", len(calls) == 1, c.pos(sv.Pos()), fmt.Sprintf("%d calls of getE in SchnorrVerify", len(calls)))
		for _, call := range calls {
			n++
			a := call.Common().Args
			okArgs := len(a) == 4 && contentFrom(a[0], isParam("publicKey")) && contentFrom(a[1], isParam("publicKey")) &&
				contentFrom(a[2], isParam("signature")) && contentFrom(a[3], isParam("message"))
			c.R.Check("K-digest", "SchnorrVerify|getE(P from publicKey, r from signature, message)", okArgs, c.posOf(call), "getE must be applied to the public key point, the signature's r and the message")
			// the acceptance test Rx == r is computed from e
			cv, _ := call.(*ssa.Call)
			usedInVerdict := false
			for _, i := range ssau.Ifs(sv) {
				if cv != nil && ssau.DependsOn(i.Cond, func(x ssa.Value) bool { return x == ssa.Value(cv) }) &&
					ssau.DependsOn(i.Cond, isParam("signature")) {
					usedInVerdict = true
				}
			}
			c.R.Check("K-digest", "SchnorrVerify|verdict depends on the challenge", usedInVerdict, c.posOf(call), "a rejecting comparison must be computed from both the challenge e and the signature")
		}
		for _, ret := range ssau.Returns(ge) {
			if len(ret.Results) != 1 {
				continue
			}
			contents, nh := hashedContents(ge, ret.Results[0])
			for _, p := range ge.Params {
				covered := false
				for _, h := range contents {
					if contentFrom(h, func(x ssa.Value) bool { return x == ssa.Value(p) }) {
						covered = true
					}
				}
				c.R.Check("K-digest", "getE|hash covers "+p.Name(), nh > 0 && covered, c.posOf(ret),
					fmt.Sprintf("the challenge hash must cover parameter %s (%d hash computations found, %d hashed values)", p.Name(), nh, len(contents)))
			}
		}
	}
	c.R.FloorCheck("K-digest verifier sites", n, 2)
}

// earlyPoint is a place in SpecialContextCheck from which (nil,true) is returned.
type earlyPoint struct {
	block *ssa.BasicBlock // block whose reachability stands for the exit (the return block, or the phi predecessor)
	ret   *ssa.Return
}

func earlyAcceptPoints(fn *ssa.Function) []earlyPoint {
	var out []earlyPoint
	for _, ret := range earlyAcceptExits(fn) {
		if phi, ok := ret.Results[1].(*ssa.Phi); ok && phi.Block() == ret.Block() {
			for i, e := range phi.Edges {
				if cst, ok := e.(*ssa.Const); ok && cst.Value != nil && cst.Value.Kind() == constant.Bool && !constant.BoolVal(cst.Value) {
					continue
				}
				out = append(out, earlyPoint{phi.Block().Preds[i], ret})
			}
			continue
		}
		out = append(out, earlyPoint{ret.Block(), ret})
	}
	return out
}

// stablePred: the condition is a predicate on the transaction itself (a method
// call whose receiver derives from the function's receiver) or a comparison of
// fields/constants only; such predicates mean the same in sibling methods.
func stablePred(fn *ssa.Function, cond ssa.Value) (string, bool) {
	base, _ := ssau.StripNot(cond)
	s := ssau.CondString(base)
	if strings.Contains(s, "_") || strings.Contains(s, "phi") || strings.Contains(s, "next") {
		return "", false
	}
	ok := true
	var walk func(v ssa.Value, depth int)
	walk = func(v ssa.Value, depth int) {
		if depth > 16 {
			ok = false
			return
		}
		switch x := v.(type) {
		case *ssa.Call:
			if b, isB := x.Call.Value.(*ssa.Builtin); isB && b.Name() == "len" {
				walk(x.Call.Args[0], depth+1)
				return
			}
			if x.Call.IsInvoke() || len(x.Call.Args) == 0 || len(fn.Params) == 0 {
				ok = false
				return
			}
			if ssau.AddrRoot(x.Call.Args[0]) != ssa.Value(fn.Params[0]) {
				ok = false
			}
		case *ssa.BinOp:
			walk(x.X, depth+1)
			walk(x.Y, depth+1)
		case *ssa.UnOp:
			walk(x.X, depth+1)
		case *ssa.FieldAddr:
			walk(x.X, depth+1)
		case *ssa.Const, *ssa.Parameter:
		case *ssa.Convert:
			walk(x.X, depth+1)
		default:
			ok = false
		}
	}
	walk(base, 0)
	return s, ok
}

// earlyAccept implements A-early for one collection ("Inputs" or "Outputs").
func (c *Ctx) earlyAccept(rule, coll, checker, skips string, floor int) {
	c.earlyAcceptKeyed(rule, coll, checker, skips, floor, "early|")
}

func (c *Ctx) earlyAcceptKeyed(rule, coll, checker, skips string, floor int, kp string) {
	nEarly := 0
	for _, t := range c.txTypesDeclaring("SpecialContextCheck") {
		fn := c.P.Func(txpkg, t, "SpecialContextCheck")
		pts := earlyAcceptPoints(fn)
		if len(pts) == 0 {
			continue
		}
		nEarly++
		if reason, ok := earlyAcceptTable[t]; ok {
			c.R.Exists(rule, kp+t, true, c.posOf(pts[0].ret), "tabled: "+reason)
			continue
		}
		nt := c.P.NamedType(txpkg, t)
		chk := c.P.MethodOf(nt, checker)
		if chk == nil {
			c.R.Undecided(rule, kp+t, c.posOf(pts[0].ret), checker+" not found")
			continue
		}
		seen := map[string]bool{}
		for _, pt := range pts {
			// stable guards of this early exit
			type g struct {
				s   string
				arm bool
			}
			var guards []g
			for _, i := range ssau.Ifs(fn) {
				s, ok := stablePred(fn, i.Cond)
				if !ok {
					continue
				}
				_, neg := ssau.StripNot(i.Cond)
				for _, arm := range []bool{true, false} {
					cut := ssau.NewCut()
					cut.AddEdge(i.Block(), ssau.Arm(i, arm))
					if !ssau.ReachFromEntry(fn, cut).Block(pt.block) {
						guards = append(guards, g{s, arm != neg}) // truth value of the un-negated predicate
					}
				}
			}
			// the early flag itself may be a stable predicate (return nil, h <= H)
			if pt.block == pt.ret.Block() {
				if _, isC := pt.ret.Results[1].(*ssa.Const); !isC {
					if sp, ok := stablePred(fn, pt.ret.Results[1]); ok {
						_, neg := ssau.StripNot(pt.ret.Results[1])
						guards = append(guards, g{sp, !neg})
					}
				}
			}
			var gs []string
			for _, x := range guards {
				gs = append(gs, fmt.Sprintf("%s=%v", x.s, x.arm))
			}
			sort.Strings(gs)
			desc := strings.Join(gs, "&")
			if desc == "" {
				desc = "unconditional"
			}
			key := kp + t + "|" + desc
			if seen[key] {
				continue
			}
			seen[key] = true
			// in the sibling checker: assume the guards, require the emptiness test
			cut := ssau.NewCut()
			for _, i := range ssau.Ifs(chk) {
				s, ok := stablePred(chk, i.Cond)
				if !ok {
					continue
				}
				_, neg := ssau.StripNot(i.Cond)
				for _, x := range guards {
					if x.s == s {
						// predicate has truth value x.arm: remove the arm taken when it is !x.arm
						cut.AddEdge(i.Block(), ssau.Arm(i, (!x.arm) != neg))
					}
				}
			}
			n := 0
			for _, i := range ssau.Ifs(chk) {
				if m, arm := condCmp(lenOfCall(coll), isConstInt(0), token.EQL, true)(i); m {
					n++
					cut.AddEdge(i.Block(), ssau.Arm(i, arm))
				}
				if coll == "Outputs" {
					// exact form: len(Outputs()) == 1 with Outputs()[0].Value == 0
					if m, arm := condCmp(lenOfCall(coll), isConstInt(1), token.EQL, true)(i); m && c.zeroValueForced(chk) {
						n++
						cut.AddEdge(i.Block(), ssau.Arm(i, arm))
					}
				}
			}
			ec := &ssau.ExitClassifier{Fn: chk, Idx: 0}
			succ := ec.SuccessExits(cut)
			ok := n > 0 && len(succ) == 0
			c.R.Check(rule, key, ok, c.posOf(pt.ret), fmt.Sprintf("%s.SpecialContextCheck can return (nil,true) at %s under [%s], which %s; %s must then force len(%s())==0: %v", t, c.posOf(pt.ret), desc, skips, fname(chk), coll, ok))
		}
	}
	c.R.FloorCheck(rule, nEarly, floor)
}

// zeroValueForced: the checker rejects Outputs()[0].Value != 0.
func (c *Ctx) zeroValueForced(chk *ssa.Function) bool {
	for _, i := range ssau.Ifs(chk) {
		if m, _ := condCmp(func(v ssa.Value) bool { return ssau.IsFieldOf(ssau.Unwrap(v), "Output", "Value") }, isConstInt(0), token.NEQ, true)(i); m {
			return true
		}
	}
	return false
}
