package props

import (
	"fmt"
	"go/token"
	"sort"
	"strings"

	"elaverif/core"
	"elaverif/ssau"

	"golang.org/x/tools/go/ssa"
)

func init() {
	register(&Check{ID: "C13", Title: "Disconnecting a block exactly undoes connecting it", Run: runC13})
}

// closureOf resolves a returned processor value to its function.
func closureOf(v ssa.Value) *ssa.Function {
	v = ssau.ResolveSpill(v)
	switch x := v.(type) {
	case *ssa.MakeClosure:
		if f, ok := x.Fn.(*ssa.Function); ok {
			return f
		}
	case *ssa.Function:
		return x
	case *ssa.ChangeType:
		return closureOf(x.X)
	}
	return nil
}

// processorFingerprint summarises a save/rollback closure: the index writes
// (bucket, key) and the loop filters with their effect.
func (c *Ctx) processorFingerprint(fn *ssa.Function, writeName string) []string {
	var out []string
	for _, call := range ssau.CallsIn(fn, namedCall(writeName)) {
		a := call.Common().Args
		bucket := ssau.CondString(a[1])
		key := ssau.CondString(a[2])
		loop := "once"
		if ssau.EnclosingLoopHeader(call.Block()) != nil {
			loop = "per-element"
		}
		out = append(out, fmt.Sprintf("write(%s,%s,%s)", bucket, key, loop))
	}
	// per-element filters, in a form that does not depend on how the branches are written (continue-guards,
	// nested positive conditions, switch): a condition arm after which the element's write can no longer be
	// reached, and what happens then (the loop goes on to the next element, or is left)
	for _, w := range ssau.CallsIn(fn, namedCall(writeName)) {
		H := ssau.EnclosingLoopHeader(w.Block())
		if H == nil {
			continue
		}
		body := ssau.LoopBody(H)
		canReach := func(from *ssa.BasicBlock, target func(*ssa.BasicBlock) bool) bool {
			seen := map[*ssa.BasicBlock]bool{}
			var walk func(x *ssa.BasicBlock) bool
			walk = func(x *ssa.BasicBlock) bool {
				if target(x) {
					return true
				}
				if x == H || seen[x] || !body[x] {
					return false
				}
				seen[x] = true
				for _, sx := range x.Succs {
					if walk(sx) {
						return true
					}
				}
				return false
			}
			return walk(from)
		}
		toWrite := func(x *ssa.BasicBlock) bool { return x == w.Block() }
		toHeader := func(x *ssa.BasicBlock) bool { return x == H }
		for b := range body {
			iff, ok := b.Instrs[len(b.Instrs)-1].(*ssa.If)
			if !ok || b == H {
				continue
			}
			if _, _, isNil := ssau.NilTest(iff.Cond); isNil {
				continue // error propagation
			}
			base, neg := ssau.StripNot(iff.Cond)
			for k := 0; k < 2; k++ {
				a, o := b.Succs[k], b.Succs[1-k]
				if canReach(a, toWrite) || !canReach(o, toWrite) {
					continue
				}
				val := (k == 0) != neg
				effect := "leave"
				if canReach(a, toHeader) {
					effect = "next"
				}
				cs := ssau.CondString(base)
				// normalise the comparison operator: != is "== false", >= is "< false", > is "<= false"
				if bo, ok := base.(*ssa.BinOp); ok {
					flip := map[token.Token]token.Token{token.NEQ: token.EQL, token.GEQ: token.LSS, token.GTR: token.LEQ}
					if to, ok := flip[bo.Op]; ok {
						cs = "(" + ssau.CondString(bo.X) + to.String() + ssau.CondString(bo.Y) + ")"
						val = !val
					}
				}
				out = append(out, fmt.Sprintf("filter(%s==%v -> %s)", cs, val, effect))
			}
		}
	}
	// loop domains
	for _, b := range fn.Blocks {
		if strings.HasSuffix(b.Comment, ".loop") {
			if iff, ok := b.Instrs[len(b.Instrs)-1].(*ssa.If); ok {
				out = append(out, "loop("+ssau.CondString(iff.Cond)+")")
			}
		}
	}
	sort.Strings(out)
	return out
}

func runC13(c *Ctx) {
	c.R.Rule("U-processor", "for every transaction type with a save processor, and for every payload version, the rollback processor removes exactly what the save processor puts: same buckets, same keys, same per-element filters with the same effect (skip vs stop), same loop domain")
	c.R.Rule("U-index", "every Indexer's DisconnectBlock touches the same buckets as its ConnectBlock; UtxoIndex loads the per-(address,height) list from the database exactly when the in-memory entry for that height is absent, in both directions")
	c.R.Rule("U-chainstore", "ChainStoreFFLDB.SaveBlock and RollbackBlock run, inside one db.Update closure each, the block-index put/remove, every processor with its error checked, and the index manager's ConnectBlock/DisconnectBlock checked; the processor lists are collected from every transaction of the block through the sibling getters")

	vers := []int64{}
	for _, n := range []string{"WithdrawFromSideChainVersion", "WithdrawFromSideChainVersionV1", "WithdrawFromSideChainVersionV2"} {
		if v, ok := c.constVal("core/types/payload", n); ok {
			vers = append(vers, v)
		}
	}
	vers = append(vers, 99)
	nTypes := 0
	for _, t := range c.txTypesDeclaring("GetSaveProcessor") {
		save := c.P.Func(txpkg, t, "GetSaveProcessor")
		roll := c.P.Func(txpkg, t, "GetRollbackProcessor")
		if t == "DefaultProcessor" {
			continue
		}
		nTypes++
		if roll == nil {
			c.R.Check("U-processor", t+"|rollback exists", false, c.pos(save.Pos()), "type declares GetSaveProcessor but no GetRollbackProcessor")
			continue
		}
		syms := &Symbols{Int: func(v ssa.Value) (string, bool) {
			if methodCallNamed(v, "PayloadVersion") {
				return "ver", true
			}
			return "", false
		}}
		usesVer := len(ssau.CallsIn(save, namedCall("PayloadVersion")))+len(ssau.CallsIn(roll, namedCall("PayloadVersion"))) > 0
		vs := []int64{0}
		if usesVer {
			vs = vers
		}
		for _, ver := range vs {
			env := Env{I: map[string]int64{"ver": ver}}
			key := fmt.Sprintf("%s|version=%d", t, ver)
			if !usesVer {
				key = t + "|all versions"
			}
			var fps [2][]string
			bad := ""
			for k, g := range []*ssa.Function{save, roll} {
				res := ssau.AbsWalk(g, ssau.AbsEnvFunc(func(i *ssa.If, visit int) (bool, bool) {
					return syms.evalCond(i.Cond, env, visit, blockComment(i))
				}))
				if res.Ret == nil {
					bad = fmt.Sprintf("cannot evaluate %s for version %d", fname(g), ver)
					if res.Unknown != nil {
						bad += ": unknown condition " + ssau.CondString(res.Unknown.Cond)
					}
					break
				}
				cl := closureOf(res.Ret.Results[0])
				if cl == nil {
					fps[k] = []string{"none"}
					continue
				}
				name := "DBPutData"
				if k == 1 {
					name = "DBRemoveData"
				}
				fps[k] = c.processorFingerprint(cl, name)
			}
			if bad != "" {
				c.R.Undecided("U-processor", key, c.pos(save.Pos()), bad)
				continue
			}
			a, b := strings.Join(fps[0], "; "), strings.Join(fps[1], "; ")
			c.R.Check("U-processor", key, a == b, c.pos(roll.Pos()), fmt.Sprintf("save: [%s]  rollback: [%s]", a, b))
		}
	}
	c.R.FloorCheck("U-processor", nTypes, 4)

	// indexers
	ipk := c.P.Pkg("blockchain/indexers")
	nIdx := 0
	if ipk != nil {
		for _, name := range ipk.Types.Scope().Names() {
			conn := c.P.Func("blockchain/indexers", name, "ConnectBlock")
			disc := c.P.Func("blockchain/indexers", name, "DisconnectBlock")
			if conn == nil || disc == nil || name == "Manager" {
				continue
			}
			nIdx++
			bc, bd := c.bucketsOf(conn), c.bucketsOf(disc)
			c.R.Check("U-index", name+"|same buckets", strings.Join(bc, ",") == strings.Join(bd, ",") && len(bc) > 0, c.pos(disc.Pos()), fmt.Sprintf("connect: %v  disconnect: %v", bc, bd))
		}
	}
	c.R.FloorCheck("U-index", nIdx, 4)
	for _, m := range []string{"ConnectBlock", "DisconnectBlock"} {
		f := c.fn("blockchain/indexers", "UtxoIndex", m)
		if f == nil {
			continue
		}
		n := 0
		for _, call := range ssau.CallsIn(f, namedCall("DBFetchUtxoIndexEntryByHeight")) {
			n++
			call := call
			height := call.Common().Args[2]
			c.G2("U-index", fmt.Sprintf("UtxoIndex.%s|load when the per-height entry is absent#%d", m, n), f, call, "utxoMap[addr][height] absent", func(i *ssa.If) (bool, bool) {
				x, neg := ssau.StripNot(i.Cond)
				e, ok := x.(*ssa.Extract)
				if !ok || e.Index != 1 {
					return false, false
				}
				lk, ok := e.Tuple.(*ssa.Lookup)
				if !ok || !lk.CommaOk {
					return false, false
				}
				// the per-height lookup: index is the height passed to the fetch, map is itself a lookup result
				if ssau.Unwrap(lk.Index) != ssau.Unwrap(height) && (ssau.CondString(lk.Index) != ssau.CondString(height) || strings.Contains(ssau.CondString(height), "_")) {
					return false, false
				}
				if _, inner := ssau.Unwrap(lk.X).(*ssa.Lookup); !inner {
					return false, false
				}
				return true, neg
			})
		}
		c.R.Check("U-index", "UtxoIndex."+m+"|loads present", n >= 1, c.pos(f.Pos()), fmt.Sprintf("%d database loads", n))
	}

	// chain store
	for _, pair := range [][3]string{{"SaveBlock", "dbPutBlockIndex", "ConnectBlock"}, {"RollbackBlock", "DBRemoveBlockIndex", "DisconnectBlock"}} {
		f := c.fn("blockchain", "ChainStoreFFLDB", pair[0])
		if f == nil {
			continue
		}
		var host *ssa.Function
		for _, a := range f.AnonFuncs {
			if len(ssau.CallsIn(a, namedCall(pair[1]))) > 0 {
				host = a
			}
		}
		if host == nil {
			c.R.Check("U-chainstore", pair[0]+"|atomic closure", false, c.pos(f.Pos()), "no db.Update closure containing "+pair[1])
			continue
		}
		c.G1s("U-chainstore", pair[0]+"|"+pair[1], host, pair[1], namedCall(pair[1]), G1Opt{})
		// index manager call checked when the manager exists
		c.G1s("U-chainstore", pair[0]+"|indexManager."+pair[2], host, "indexManager."+pair[2], namedCall(pair[2]), G1Opt{Base: nilManagerCut(host)})
		// every processor invoked and checked: dynamic call of a TXProcessor value inside a loop over ps
		dyn := func(cm *ssa.CallCommon) bool {
			return !cm.IsInvoke() && cm.StaticCallee() == nil && cm.Signature().Params().Len() == 1 && strings.HasSuffix(cm.Signature().Params().At(0).Type().String(), "database.Tx")
		}
		c.iterMustPass("U-chainstore", pair[0]+"|every processor runs", host, "processor(dbTx)", dyn, true)
		// the closure is passed to db.Update
		okUpd := false
		for _, call := range ssau.CallsIn(f, namedCall("Update")) {
			for _, a := range call.Common().Args {
				if mc, ok := a.(*ssa.MakeClosure); ok && mc.Fn == ssa.Value(host) {
					okUpd = true
				}
			}
		}
		c.R.Check("U-chainstore", pair[0]+"|inside db.Update", okUpd, c.pos(f.Pos()), "the index updates run inside one db.Update transaction")
	}
	for _, pair := range [][2]string{{"GetSaveProcessorsFromBlock", "GetSaveProcessor"}, {"GetRollbackProcessorsFromBlock", "GetRollbackProcessor"}} {
		f := c.fn("blockchain", "", pair[0])
		if f == nil {
			continue
		}
		c.iterMustPass("U-chainstore", pair[0]+"|per-transaction getter", f, pair[1], namedCall(pair[1]), true)
		hs := []*ssa.BasicBlock{}
		for _, call := range ssau.CallsIn(f, namedCall(pair[1])) {
			hs = loopHeaders(call.Block())
		}
		c.R.Check("U-chainstore", pair[0]+"|covers all transactions", len(hs) == 1 && loopRangesOver(hs[0], fieldIs("Block", "Transactions")), c.pos(f.Pos()), "ranges over b.Transactions")
		// non-nil processors are appended
		app := false
		for _, b := range f.Blocks {
			for _, in := range b.Instrs {
				if call, ok := in.(*ssa.Call); ok {
					if bi, ok := call.Call.Value.(*ssa.Builtin); ok && bi.Name() == "append" && ssau.DependsOn(call.Call.Args[1], func(x ssa.Value) bool { return methodCallNamed(x, pair[1]) }) {
						app = true
					}
				}
			}
		}
		c.R.Check("U-chainstore", pair[0]+"|processor appended", app, c.pos(f.Pos()), "the getter's processor is appended to the list")
	}
	// the store's persist/rollback use the sibling collectors
	for _, pair := range [][2]string{{"persist", "GetSaveProcessorsFromBlock"}, {"rollback", "GetRollbackProcessorsFromBlock"}} {
		if f := c.fn("blockchain", "ChainStore", pair[0]); f != nil {
			c.G1s("U-chainstore", "ChainStore."+pair[0]+"|"+pair[1], f, pair[1], namedCall(pair[1]), G1Opt{})
		}
	}
	_ = core.Mod
}

// nilManagerCut removes the arm on which c.indexManager == nil (no optional indexes configured).
func nilManagerCut(fn *ssa.Function) *ssau.Cut {
	cut := ssau.NewCut()
	for _, i := range ssau.Ifs(fn) {
		if x, trueIsNil, ok := ssau.NilTest(i.Cond); ok && ssau.IsFieldOf(ssau.Unwrap(x), "ChainStoreFFLDB", "indexManager") {
			cut.AddEdge(i.Block(), ssau.Arm(i, trueIsNil))
		}
	}
	return cut
}

// bucketsOf lists the bucket-name globals referenced by fn and its same-package static callees (depth 3).
func (c *Ctx) bucketsOf(fn *ssa.Function) []string {
	seen := map[*ssa.Function]bool{}
	set := map[string]bool{}
	var walk func(f *ssa.Function, d int)
	walk = func(f *ssa.Function, d int) {
		if f == nil || seen[f] || d > 3 || len(f.Blocks) == 0 {
			return
		}
		seen[f] = true
		for _, b := range f.Blocks {
			for _, in := range b.Instrs {
				for _, op := range in.Operands(nil) {
					if g, ok := (*op).(*ssa.Global); ok && (strings.Contains(g.Name(), "Bucket") || strings.Contains(g.Name(), "IndexKey")) {
						set[g.Name()] = true
					}
				}
				if ci, ok := in.(ssa.CallInstruction); ok {
					if g := ci.Common().StaticCallee(); g != nil && g.Pkg == fn.Pkg {
						walk(g, d+1)
					}
				}
			}
		}
		for _, a := range f.AnonFuncs {
			walk(a, d+1)
		}
	}
	walk(fn, 0)
	var out []string
	for k := range set {
		out = append(out, k)
	}
	sort.Strings(out)
	return out
}
