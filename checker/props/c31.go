package props

import (
	"fmt"

	"elaverif/ssau"

	"golang.org/x/tools/go/ssa"
)

const txpkg = "core/transaction"

// isSpecialDelegation: the return hands back the verdict of SpecialContextCheck
// (the `if end { return references, cerr }` early exit).
func isSpecialDelegation(ret *ssa.Return) bool {
	for _, v := range ret.Results {
		if ssau.DependsOn(v, func(x ssa.Value) bool {
			return ssau.IsCallTo(x, func(c *ssa.CallCommon) bool {
				o := ssau.CalleeObj(c)
				return o != nil && o.Name() == "SpecialContextCheck"
			})
		}) {
			return true
		}
	}
	return false
}

// argIsField checks that call argument i is a direct load of a field called name.
func (c *Ctx) argIsField(rule, key string, call ssa.CallInstruction, i int, owner, name string) {
	args := call.Common().Args
	if i >= len(args) {
		c.R.Check(rule, key, false, c.posOf(call), fmt.Sprintf("argument %d missing", i))
		return
	}
	ok := ssau.IsFieldOf(ssau.Unwrap(args[i]), owner, name)
	c.R.Check(rule, key, ok, c.posOf(call), fmt.Sprintf("argument %d of %s must be the field %s.%s (got %s)", i, call.Common().Value.Name(), owner, name, args[i].String()))
}

func (c *Ctx) argIsCallResult(rule, key string, call ssa.CallInstruction, i int, what string, pred func(*ssa.CallCommon) bool) {
	args := call.Common().Args
	ok := i < len(args) && ssau.IsCallTo(ssau.Unwrap(args[i]), pred)
	c.R.Check(rule, key, ok, c.posOf(call), fmt.Sprintf("argument %d must be the result of %s", i, what))
}

func init() {
	register(&Check{ID: "C31", Title: "Cross-chain UTXO spending follows the emergency policy", Run: runC31})
	register(&Check{ID: "C32", Title: "Frozen addresses can neither spend nor receive", Run: runC32})
}

func runC31(c *Ctx) {
	c.R.Rule("G1-policy", "in DefaultChecker.ContextCheck every success exit (including the SpecialContextCheck early exit) is reached only after checkTransactionCrossChainUTXO was called and its error tested, with arguments bound to (Transaction, references from GetTxReference, BlockHeight, Config.CrossChainUTXOFreezeHeight, Config.CrossChainUTXORestrictionHeight)")
	cc := c.fn(txpkg, "DefaultChecker", "ContextCheck")
	if cc != nil {
		pred := callPred(R{txpkg, "", "checkTransactionCrossChainUTXO"})
		c.G1s("G1-policy", "ContextCheck|checkTransactionCrossChainUTXO", cc, "checkTransactionCrossChainUTXO", pred, G1Opt{})
		for _, call := range ssau.CallsIn(cc, pred) {
			c.argIsField("G1-policy", "ContextCheck|arg0=Transaction", call, 0, "TransactionParameters", "Transaction")
			c.argIsCallResult("G1-policy", "ContextCheck|arg1=GetTxReference", call, 1, "GetTxReference", func(cm *ssa.CallCommon) bool {
				o := ssau.CalleeObj(cm)
				return o != nil && o.Name() == "GetTxReference"
			})
			c.argIsField("G1-policy", "ContextCheck|arg2=BlockHeight", call, 2, "TransactionParameters", "BlockHeight")
			c.argIsField("G1-policy", "ContextCheck|arg3=FreezeHeight", call, 3, "Configuration", "CrossChainUTXOFreezeHeight")
			c.argIsField("G1-policy", "ContextCheck|arg4=RestrictionHeight", call, 4, "Configuration", "CrossChainUTXORestrictionHeight")
		}
	}
}

func runC32(c *Ctx) {
	c.R.Rule("G1-frozen", "in DefaultChecker.ContextCheck every success exit (including the early exit) passes a checked call of checkFrozenAddresses bound to (Transaction, references, BlockHeight, Config.FrozenAddresses)")
	cc := c.fn(txpkg, "DefaultChecker", "ContextCheck")
	if cc != nil {
		pred := callPred(R{txpkg, "", "checkFrozenAddresses"})
		c.G1s("G1-frozen", "ContextCheck|checkFrozenAddresses", cc, "checkFrozenAddresses", pred, G1Opt{})
	}
}
