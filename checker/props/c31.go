package props

import (
	"fmt"
	"go/constant"
	"go/token"
	"go/types"
	"sort"
	"strings"

	"elaverif/core"

	"elaverif/ssau"

	"golang.org/x/tools/go/ssa"
)

const txpkg = "core/transaction"

// isSpecialDelegation: the return hands back the verdict of SpecialContextCheck
// (the `if end { return references, cerr }` early exit).
func isSpecialDelegation(ret *ssa.Return) bool {
	for _, v := range ret.Results {
		if ssau.DependsOn(v, func(x ssa.Value) bool {
			return ssau.IsCallTo(x, func(c *ssa.CallCommon) bool {
				o := ssau.CalleeObj(c)
				return o != nil && o.Name() == "SpecialContextCheck"
			})
		}) {
			return true
		}
	}
	return false
}

// argIsField checks that call argument i is a direct load of a field called name.
func (c *Ctx) argIsField(rule, key string, call ssa.CallInstruction, i int, owner, name string) {
	args := call.Common().Args
	if i >= len(args) {
		c.R.Check(rule, key, false, c.posOf(call), fmt.Sprintf("argument %d missing", i))
		return
	}
	ok := ssau.IsFieldOf(ssau.Unwrap(args[i]), owner, name)
	c.R.Check(rule, key, ok, c.posOf(call), fmt.Sprintf("argument %d of %s must be the field %s.%s (got %s)", i, call.Common().Value.Name(), owner, name, args[i].String()))
}

func (c *Ctx) argIsCallResult(rule, key string, call ssa.CallInstruction, i int, what string, pred func(*ssa.CallCommon) bool) {
	args := call.Common().Args
	ok := i < len(args) && ssau.IsCallTo(ssau.Unwrap(args[i]), pred)
	c.R.Check(rule, key, ok, c.posOf(call), fmt.Sprintf("argument %d must be the result of %s", i, what))
}

func init() {
	register(&Check{ID: "C31", Title: "Cross-chain UTXO spending follows the emergency policy", Run: runC31})
	register(&Check{ID: "C32", Title: "Frozen addresses can neither spend nor receive", Run: runC32})
}

// constVal returns the integer value of a package-level constant.
func (c *Ctx) constVal(rel, name string) (int64, bool) {
	obj := c.P.Object(rel, name)
	k, ok := obj.(*types.Const)
	if !c.R.Anchor("const "+rel+"."+name, ok) {
		return 0, false
	}
	if v, exact := constant.Int64Val(constant.ToInt(k.Val())); exact {
		return v, true
	}
	if u, exact := constant.Uint64Val(constant.ToInt(k.Val())); exact {
		return int64(u), true
	}
	return 0, false
}

// nodeFunc: function belongs to the node binary proper (not tests/tools/benchmarks).
func nodeFunc(f *ssa.Function) bool {
	if f == nil || f.Pkg == nil {
		return false
	}
	path := f.Pkg.Pkg.Path()
	if !strings.HasPrefix(path, core.Mod) {
		return false
	}
	return !core.IsTestOrTool(core.RelPath(path))
}

// fieldStores lists Store instructions writing field fname of struct type tname, grouped by (outermost named) function.
func (c *Ctx) fieldStores(tname, fname string, onlyNode bool) map[*ssa.Function][]*ssa.Store {
	out := map[*ssa.Function][]*ssa.Store{}
	for f := range c.P.AllFuncs() {
		if f.Pkg == nil && f.Parent() == nil {
			continue
		}
		root := f
		for root.Parent() != nil {
			root = root.Parent()
		}
		if root.Pkg == nil || !strings.HasPrefix(root.Pkg.Pkg.Path(), core.Mod) {
			continue
		}
		if onlyNode && !nodeFunc(root) {
			continue
		}
		for _, b := range f.Blocks {
			for _, in := range b.Instrs {
				st, ok := in.(*ssa.Store)
				if !ok {
					continue
				}
				if ssau.IsFieldOf(st.Addr, tname, fname) {
					out[root] = append(out[root], st)
				}
			}
		}
	}
	return out
}

func runC31(c *Ctx) {
	c.R.Rule("G1-policy", "in DefaultChecker.ContextCheck every success exit (including the SpecialContextCheck early exit) is reached only after checkTransactionCrossChainUTXO was called and its error tested, with arguments bound to (Transaction, references from GetTxReference, BlockHeight, Config.CrossChainUTXOFreezeHeight, Config.CrossChainUTXORestrictionHeight); no transaction type overrides ContextCheck except the coinbase")
	c.R.Rule("T-policy", "decision table: the branch structure of checkTransactionCrossChainUTXO (and hasCrossChainUTXO) is walked abstractly for every valuation of its atoms (height vs freeze/restriction heights, tx kind predicates, payload version, UTXO prefix) and the accept/reject outcome is compared with the policy stated by the property; an unknown atom is undecided")
	c.R.Rule("K-config", "only the frozen writer set stores to Configuration.CrossChainUTXOFreezeHeight/RestrictionHeight; SetupConfig reaches its return only after enforceCrossChainUTXORestrictionHeights, and no configuration writer (loadConfigFile, screw.Bind, TestNet, RegNet, InstantBlock) is reachable after it; enforce assigns the MainNet constants on {\"\",mainnet,main} and the Disabled constant otherwise")
	cc := c.fn(txpkg, "DefaultChecker", "ContextCheck")
	if cc != nil {
		pred := callPred(R{txpkg, "", "checkTransactionCrossChainUTXO"})
		c.G1s("G1-policy", "ContextCheck|checkTransactionCrossChainUTXO", cc, "checkTransactionCrossChainUTXO", pred, G1Opt{})
		for _, call := range ssau.CallsIn(cc, pred) {
			c.argIsField("G1-policy", "ContextCheck|arg0=Transaction", call, 0, "TransactionParameters", "Transaction")
			c.argIsCallResult("G1-policy", "ContextCheck|arg1=GetTxReference", call, 1, "GetTxReference", func(cm *ssa.CallCommon) bool {
				o := ssau.CalleeObj(cm)
				return o != nil && o.Name() == "GetTxReference"
			})
			c.argIsField("G1-policy", "ContextCheck|arg2=BlockHeight", call, 2, "TransactionParameters", "BlockHeight")
			c.argIsField("G1-policy", "ContextCheck|arg3=FreezeHeight", call, 3, "Configuration", "CrossChainUTXOFreezeHeight")
			c.argIsField("G1-policy", "ContextCheck|arg4=RestrictionHeight", call, 4, "Configuration", "CrossChainUTXORestrictionHeight")
		}
	}
	c.contextCheckOverrides("G1-policy")

	// decision table
	v0, ok0 := c.constVal("core/types/payload", "WithdrawFromSideChainVersion")
	v1, ok1 := c.constVal("core/types/payload", "WithdrawFromSideChainVersionV1")
	v2, ok2 := c.constVal("core/types/payload", "WithdrawFromSideChainVersionV2")
	rv, ok3 := c.constVal("core/types/payload", "ReturnSideChainDepositCoinVersion")
	cross, ok4 := c.constVal("core/contract", "PrefixCrossChain")
	pol := c.fn(txpkg, "", "checkTransactionCrossChainUTXO")
	has := c.fn(txpkg, "", "hasCrossChainUTXO")
	if pol != nil && has != nil && ok0 && ok1 && ok2 && ok3 && ok4 {
		syms := &Symbols{
			Bool: func(v ssa.Value) (string, bool) {
				for _, n := range []string{"hasCrossChainUTXO", "IsWithdrawFromSideChainTx", "IsReturnSideChainDepositCoinTx"} {
					if methodCallNamed(v, n) {
						return n, true
					}
				}
				return "", false
			},
			Int: func(v ssa.Value) (string, bool) {
				for _, n := range []string{"blockHeight", "freezeHeight", "restrictionHeight"} {
					if paramNamed(v, n) {
						return n, true
					}
				}
				if methodCallNamed(v, "PayloadVersion") {
					return "ver", true
				}
				if methodCallNamed(v, "GetPrefixType") {
					return "prefix", true
				}
				return "", false
			},
		}
		other := cross + 1
		vers := map[int64]bool{v0: true, v1: true, v2: true, rv: true, 3: true, 7: true, 255: true}
		var verList []int64
		for k := range vers {
			verList = append(verList, k)
		}
		envs := product([]string{"hasCrossChainUTXO", "IsWithdrawFromSideChainTx", "IsReturnSideChainDepositCoinTx"},
			map[string][]int64{"blockHeight": {0, 1, 2, 3, 4}, "freezeHeight": {1, 3}, "restrictionHeight": {1, 3}, "ver": verList, "prefix": {cross, other}})
		expect := func(e Env) bool {
			h := e.I["blockHeight"]
			if h < e.I["freezeHeight"] || !e.B["hasCrossChainUTXO"] {
				return true // policy not active / nothing cross-chain spent
			}
			if h < e.I["restrictionHeight"] {
				return false // freeze window
			}
			ver := e.I["ver"]
			if e.B["IsWithdrawFromSideChainTx"] {
				return ver == v0 || ver == v1 || ver == v2
			}
			if !e.B["IsReturnSideChainDepositCoinTx"] {
				return false
			}
			if ver != rv {
				return false
			}
			return e.I["prefix"] == cross // spends only cross-chain UTXOs
		}
		c.Decision("T-policy", "checkTransactionCrossChainUTXO|table", pol, syms, envs, expect, G1Opt{})
		c.Decision("T-policy", "hasCrossChainUTXO|table", has, syms, product(nil, map[string][]int64{"prefix": {cross, other}}),
			func(e Env) bool { return e.I["prefix"] == cross }, G1Opt{BoolSuccess: true})
		// the call inside the policy function must pass the references parameter
		for _, call := range ssau.CallsIn(pol, callPred(R{txpkg, "", "hasCrossChainUTXO"})) {
			c.R.Check("T-policy", "checkTransactionCrossChainUTXO|hasCrossChainUTXO(references)", paramNamed(call.Common().Args[0], "references"), c.posOf(call), "hasCrossChainUTXO must be applied to the references parameter")
		}
		c.rangesOverParam("T-policy", "checkTransactionCrossChainUTXO|loop over references", pol, "references")
		c.rangesOverParam("T-policy", "hasCrossChainUTXO|loop over references", has, "references")
	}
	c.configEnforce("K-config", "enforceCrossChainUTXORestrictionHeights", []string{"CrossChainUTXOFreezeHeight", "CrossChainUTXORestrictionHeight"})
}

// rangesOverParam: every range loop (map iteration) of fn iterates the named parameter.
func (c *Ctx) rangesOverParam(rule, key string, fn *ssa.Function, param string) {
	n := 0
	ok := true
	for _, dr := range rangesDeep(fn) {
		n++
		if !dr.over(func(v ssa.Value) bool { return paramNamed(v, param) }) {
			ok = false
		}
	}
	c.R.Check(rule, key, ok && n > 0, c.pos(fn.Pos()), fmt.Sprintf("%s: %d range loop(s), all over parameter %q: %v", fname(fn), n, param, ok))
}

// contextCheckOverrides: the only concrete transaction type overriding
// ContextCheck is the coinbase (which spends nothing).
func (c *Ctx) contextCheckOverrides(rule string) {
	pk := c.P.Pkg(txpkg)
	if pk == nil {
		return
	}
	var over []string
	sc := pk.Types.Scope()
	for _, name := range sc.Names() {
		tn, ok := sc.Lookup(name).(*types.TypeName)
		if !ok {
			continue
		}
		if f := c.P.Func(txpkg, name, "ContextCheck"); f != nil {
			over = append(over, tn.Name())
		}
	}
	okk := true
	for _, o := range over {
		if o != "DefaultChecker" && o != "CoinBaseTransaction" {
			okk = false
		}
	}
	c.R.Check(rule, "ContextCheck|overrides", okk && len(over) >= 1, "", fmt.Sprintf("types declaring ContextCheck: %v (allowed: DefaultChecker, CoinBaseTransaction)", over))
}

// configEnforce checks the SetupConfig ordering and the enforce function's assignments.
func (c *Ctx) configEnforce(rule, enforceName string, fields []string) {
	const spkg = "common/config/settings"
	setup := c.fn(spkg, "Settings", "SetupConfig")
	enf := c.fn(spkg, "", enforceName)
	if setup == nil || enf == nil {
		return
	}
	pred := callPred(R{spkg, "", enforceName})
	calls := ssau.CallsIn(setup, pred)
	// must-pass (plain): no return of SetupConfig without the enforce call
	cut := ssau.NewCut()
	for _, ci := range calls {
		cut.AddInstr(ci)
	}
	r := ssau.ReachFromEntry(setup, cut)
	bypass := ""
	for _, ret := range ssau.Returns(setup) {
		if r.Instr(ret) {
			bypass = c.posOf(ret)
		}
	}
	c.R.Check(rule, "SetupConfig|must-pass "+enforceName, len(calls) > 0 && bypass == "", c.pos(setup.Pos()), fmt.Sprintf("SetupConfig returns only after %s (%d call(s)); bypassing return: %q", enforceName, len(calls), bypass))
	// nothing that rewrites the configuration after the enforce call
	writers := map[string]bool{"loadConfigFile": true, "Bind": true, "TestNet": true, "RegNet": true, "InstantBlock": true, "Unmarshal": true}
	for _, ci := range calls {
		ra := ssau.ReachAfter(setup, ci, nil)
		bad := ""
		for _, b := range setup.Blocks {
			for _, in := range b.Instrs {
				if cc, ok := in.(ssa.CallInstruction); ok && in != ssa.Instruction(ci) && ra.Instr(in) {
					if o := ssau.CalleeObj(cc.Common()); o != nil && writers[o.Name()] {
						bad = o.Name() + " at " + c.posOf(in)
					}
				}
			}
		}
		c.R.Check(rule, "SetupConfig|no config writer after "+enforceName, bad == "", c.posOf(ci), "configuration writers reachable after the enforce call: "+bad)
		// the enforced object is the one that is sterilized and returned
		argOK := ssau.IsFieldOf(ssau.Unwrap(ci.Common().Args[0]), "Config", "Configuration")
		c.R.Check(rule, "SetupConfig|"+enforceName+" arg", argOK, c.posOf(ci), "argument must be conf.Configuration")
		// Sterilize must come after enforce and its receiver must be the same object
		st := ssau.CallsIn(setup, callPred(R{"common/config", "Configuration", "Sterilize"}))
		after := len(st) > 0
		for _, s := range st {
			if !ra.Instr(s) {
				after = false
			}
		}
		c.R.Check(rule, "SetupConfig|Sterilize after "+enforceName, after, c.posOf(ci), "Sterilize (which returns the final configuration) must run after the enforce call")
	}
	// who writes the fields
	allowed := map[string]bool{
		"common/config/settings." + enforceName:  true, // the enforcement itself
		"(*common/config.Configuration).TestNet": true, // network presets, applied before enforcement
		"(*common/config.Configuration).RegNet":  true,
		"common/config.init":                     true, // DefaultParams literal
		"common/config.GetDefaultParams":         true, // mainnet defaults literal
	}
	for _, f := range fields {
		ws := c.fieldStores("Configuration", f, true)
		var bad []string
		n := 0
		for fn, sts := range ws {
			n += len(sts)
			if !allowed[fname(fn)] {
				bad = append(bad, fname(fn)+" at "+c.posOf(sts[0]))
			}
		}
		c.R.Check(rule, "writers|Configuration."+f, len(bad) == 0 && n > 0, "", fmt.Sprintf("%d stores; writers outside the allowed set: %v", n, bad))
	}
	c.enforceAssignments(rule, enf, fields)
}

// enforceAssignments walks the enforce function for each network name and
// checks which constants get stored.
func (c *Ctx) enforceAssignments(rule string, enf *ssa.Function, fields []string) {
	// the raw configured name is the symbol; strings.ToLower and small predicate helpers are evaluated
	syms := &Symbols{Str: func(v ssa.Value) (string, bool) {
		if ssau.IsFieldOf(ssau.Unwrap(v), "Configuration", "ActiveNet") {
			return "net", true
		}
		return "", false
	}}
	mainFreeze, _ := c.constVal("common/config", "MainNetCrossChainUTXOFreezeHeight")
	mainRestr, _ := c.constVal("common/config", "MainNetCrossChainUTXORestrictionHeight")
	disabled, _ := c.constVal("common/config", "DisabledCrossChainUTXORestrictionHeight")
	for _, net := range []string{"", "mainnet", "main", "MainNet", "MAINNET", "Main", "testnet", "test", "TestNet", "regnet", "regtest", "reg", "somethingelse"} {
		env := Env{S: map[string]string{"net": net}}
		res := ssau.AbsWalk(enf, ssau.AbsEnvFunc(func(i *ssa.If, visit int) (bool, bool) {
			return syms.evalCond(i.Cond, env, visit, blockComment(i))
		}))
		key := fmt.Sprintf("%s|net=%q", enf.Name(), net)
		if res.Unknown != nil || res.Ret == nil {
			pos := c.pos(enf.Pos())
			if res.Unknown != nil {
				pos = c.posOf(res.Unknown)
			}
			c.R.Undecided(rule, key, pos, "cannot evaluate the network switch: a condition is not a comparison of (strings.ToLower of) cfg.ActiveNet with a literal, directly or in a small helper")
			continue
		}
		stored := map[string]ssa.Value{}
		for _, bi := range res.Trace {
			for _, in := range enf.Blocks[bi].Instrs {
				if st, ok := in.(*ssa.Store); ok {
					if fa, ok := st.Addr.(*ssa.FieldAddr); ok {
						pt := fa.X.Type().Underlying().(*types.Pointer)
						stt := pt.Elem().Underlying().(*types.Struct)
						stored[stt.Field(fa.Field).Name()] = resolveAlong(st.Val, res.Trace)
					}
				}
			}
		}
		lnet := strings.ToLower(net)
		isMain := lnet == "" || lnet == "mainnet" || lnet == "main"
		for _, f := range fields {
			v := stored[f]
			ok := false
			detail := ""
			switch f {
			case "CrossChainUTXOFreezeHeight", "CrossChainUTXORestrictionHeight":
				want := disabled
				if isMain {
					want = mainFreeze
					if f == "CrossChainUTXORestrictionHeight" {
						want = mainRestr
					}
				}
				if cst, isC := v.(*ssa.Const); isC {
					got, _ := constInt(cst)
					if cst.Value != nil && cst.Value.Kind() == constant.Int {
						if u, exact := constant.Uint64Val(cst.Value); exact {
							got = int64(u)
						}
					}
					ok = got == want
					detail = fmt.Sprintf("stored %d, required %d", got, want)
				} else {
					detail = fmt.Sprintf("stored value %v is not a constant", v)
				}
			case "FrozenAddresses":
				if isMain {
					ok = v != nil && methodCallNamed(v, "MainNetFrozenAddresses")
					detail = "mainnet must assign config.MainNetFrozenAddresses()"
				} else {
					ok = v == nil
					detail = "other networks keep their configured list (no store expected)"
				}
			}
			c.R.Check(rule, key+"|"+f, ok, c.pos(enf.Pos()), detail)
		}
	}
	_ = token.ADD
}

func runC32(c *Ctx) {
	c.R.Rule("G1-frozen", "in DefaultChecker.ContextCheck every success exit (including the early exit) passes a checked call of checkFrozenAddresses bound to (Transaction, references, BlockHeight, Config.FrozenAddresses)")
	c.R.Rule("T-frozen", "decision table of checkFrozenAddresses: for a frozen entry, accept iff the entry has no program hash, or height < DisableStartHeight, or neither a spent output nor a new output equals the frozen hash; the loops range over the frozenAddresses parameter, the references parameter and txn.Outputs()")
	c.R.Rule("K-config", "SetupConfig passes enforceFrozenAddresses before returning and before Sterilize, nothing rewrites the configuration after it; on mainnet names the list is MainNetFrozenAddresses(); Sterilize resolves ProgramHash for every entry; writers of Configuration.FrozenAddresses are the frozen set")
	cc := c.fn(txpkg, "DefaultChecker", "ContextCheck")
	pred := callPred(R{txpkg, "", "checkFrozenAddresses"})
	if cc != nil {
		c.G1s("G1-frozen", "ContextCheck|checkFrozenAddresses", cc, "checkFrozenAddresses", pred, G1Opt{})
		for _, call := range ssau.CallsIn(cc, pred) {
			c.argIsField("G1-frozen", "ContextCheck|arg0=Transaction", call, 0, "TransactionParameters", "Transaction")
			c.argIsCallResult("G1-frozen", "ContextCheck|arg1=GetTxReference", call, 1, "GetTxReference", func(cm *ssa.CallCommon) bool {
				o := ssau.CalleeObj(cm)
				return o != nil && o.Name() == "GetTxReference"
			})
			c.argIsField("G1-frozen", "ContextCheck|arg2=BlockHeight", call, 2, "TransactionParameters", "BlockHeight")
			c.argIsField("G1-frozen", "ContextCheck|arg3=FrozenAddresses", call, 3, "Configuration", "FrozenAddresses")
		}
	}
	c.contextCheckOverrides("G1-frozen")
	fz := c.fn(txpkg, "", "checkFrozenAddresses")
	if fz != nil {
		fromOutputs := func(v ssa.Value) bool {
			return ssau.DependsOn(v, func(x ssa.Value) bool { return methodCallNamed(x, "Outputs") })
		}
		fromRefs := func(v ssa.Value) bool {
			return ssau.DependsOn(v, func(x ssa.Value) bool {
				if n, ok := x.(*ssa.Next); ok {
					if rg, ok := n.Iter.(*ssa.Range); ok {
						return paramNamed(rg.X, "references")
					}
				}
				return false
			})
		}
		syms := &Symbols{
			Bool: func(v ssa.Value) (string, bool) {
				call, ok := v.(*ssa.Call)
				if !ok || !methodCallNamed(v, "IsEqual") {
					return "", false
				}
				// receiver (arg 0 for static method call) is the candidate hash, arg 1 the frozen hash
				args := call.Call.Args
				if len(args) != 2 {
					return "", false
				}
				frozenSide := func(x ssa.Value) bool {
					return ssau.DependsOn(x, func(y ssa.Value) bool { return ssau.IsFieldOf(y, "FrozenAddress", "ProgramHash") })
				}
				var cand ssa.Value
				switch {
				case frozenSide(args[1]) && !frozenSide(args[0]):
					cand = args[0]
				case frozenSide(args[0]) && !frozenSide(args[1]):
					cand = args[1]
				default:
					return "", false
				}
				if fromOutputs(cand) {
					return "outEq", true
				}
				if fromRefs(cand) {
					return "refEq", true
				}
				return "", false
			},
			Nil: func(v ssa.Value) (string, bool) {
				if ssau.IsFieldOf(v, "FrozenAddress", "ProgramHash") {
					return "hashNil", true
				}
				return "", false
			},
			Int: func(v ssa.Value) (string, bool) {
				if paramNamed(v, "blockHeight") {
					return "h", true
				}
				if ssau.IsFieldOf(v, "FrozenAddress", "DisableStartHeight") {
					return "start", true
				}
				return "", false
			},
		}
		envs := product([]string{"hashNil", "outEq", "refEq"}, map[string][]int64{"h": {0, 1, 2}, "start": {1}})
		c.Decision("T-frozen", "checkFrozenAddresses|table", fz, syms, envs, func(e Env) bool {
			if e.B["hashNil"] || e.I["h"] < e.I["start"] {
				return true
			}
			return !e.B["outEq"] && !e.B["refEq"]
		}, G1Opt{})
		// loop domains
		nRange, okRefs := 0, false
		for _, dr := range rangesDeep(fz) {
			nRange++
			if dr.over(func(v ssa.Value) bool { return paramNamed(v, "references") }) {
				okRefs = true
			}
		}
		c.R.Check("T-frozen", "checkFrozenAddresses|ranges references", okRefs && nRange == 1, c.pos(fz.Pos()), "exactly one map range, over the references parameter")
		// the outer slice loop is over the frozenAddresses parameter: its length bound
		okOuter := false
		for _, b := range fz.Blocks {
			for _, in := range b.Instrs {
				if call, ok := in.(*ssa.Call); ok {
					if bi, ok := call.Call.Value.(*ssa.Builtin); ok && bi.Name() == "len" && paramNamed(call.Call.Args[0], "frozenAddresses") {
						okOuter = true
					}
				}
			}
		}
		c.R.Check("T-frozen", "checkFrozenAddresses|ranges frozenAddresses", okOuter, c.pos(fz.Pos()), "outer loop bound is len(frozenAddresses)")
		// every entry is examined: the outer loop is left only at its header (list exhausted) or by a failing return
		for _, i := range ssau.Ifs(fz) {
			b, ok := i.Cond.(*ssa.BinOp)
			if !ok || b.Op != token.LSS || blockComment(i) != "rangeindex.loop" || !isLenOf(func(v ssa.Value) bool { return paramNamed(v, "frozenAddresses") })(b.Y) {
				continue
			}
			bad := c.earlyLoopExits(fz, i.Block())
			c.R.Check("T-frozen", "checkFrozenAddresses|no entry is skipped by leaving the loop early", len(bad) == 0, c.posOf(i), fmt.Sprintf("the loop over frozenAddresses is left only when the list is exhausted or with an error (early exits: %v)", bad))
		}
	}
	c.configEnforce("K-config", "enforceFrozenAddresses", []string{"FrozenAddresses"})
	// Sterilize resolves program hashes
	ster := c.fn("common/config", "Configuration", "Sterilize")
	if ster != nil {
		n := 0
		for _, b := range ster.Blocks {
			for _, in := range b.Instrs {
				if st, ok := in.(*ssa.Store); ok && ssau.IsFieldOf(st.Addr, "FrozenAddress", "ProgramHash") {
					if methodCallNamed(st.Val, "Uint168FromAddress") || ssau.DependsOn(st.Val, func(x ssa.Value) bool { return methodCallNamed(x, "Uint168FromAddress") }) {
						n++
					}
				}
			}
		}
		c.R.Check("K-config", "Sterilize|FrozenAddress.ProgramHash", n > 0, c.pos(ster.Pos()), "Sterilize stores Uint168FromAddress(Address) into FrozenAddress.ProgramHash")
	}
}

// earlyLoopExits lists edges that leave the loop headed by h from inside its body (not from the header) and do
// not go straight to a failing return.
func (c *Ctx) earlyLoopExits(fn *ssa.Function, h *ssa.BasicBlock) []string {
	body := ssau.LoopBody(h)
	var out []string
	for b := range body {
		if b == h {
			continue
		}
		for _, sx := range b.Succs {
			if body[sx] {
				continue
			}
			if ret, ok := sx.Instrs[len(sx.Instrs)-1].(*ssa.Return); ok && c.failingReturn(fn, ret) {
				continue
			}
			out = append(out, c.pos(b.Instrs[len(b.Instrs)-1].Pos()))
		}
	}
	sort.Strings(out)
	return out
}

// resolveAlong replaces a (nested) phi by the edge value selected on the walked path (block indexes in order).
func resolveAlong(v ssa.Value, trace []int) ssa.Value {
	for n := 0; n < 8; n++ {
		phi, ok := v.(*ssa.Phi)
		if !ok {
			return v
		}
		at := -1
		for k := len(trace) - 1; k >= 1; k-- {
			if trace[k] == phi.Block().Index {
				at = k
				break
			}
		}
		if at < 1 {
			return v
		}
		next := v
		for i, p := range phi.Block().Preds {
			if p.Index == trace[at-1] {
				next = phi.Edges[i]
			}
		}
		if next == v {
			return v
		}
		v = next
		trace = trace[:at]
	}
	return v
}

// deepRange is a map/string range of a function, or of a same-package helper it calls (via), in which case the
// helper's parameters stand for the call's arguments.
type deepRange struct {
	r   *ssa.Range
	via *ssa.Call
}

func (d deepRange) over(pred func(ssa.Value) bool) bool {
	if d.via == nil {
		return pred(d.r.X)
	}
	ok := false
	ssau.WithParamSubst(d.via, func() { ok = pred(d.r.X) })
	return ok
}

func rangesDeep(fn *ssa.Function) []deepRange {
	var out []deepRange
	seen := map[*ssa.Function]bool{}
	for _, b := range fn.Blocks {
		for _, in := range b.Instrs {
			if r, ok := in.(*ssa.Range); ok {
				out = append(out, deepRange{r: r})
			}
			cl, ok := in.(*ssa.Call)
			if !ok {
				continue
			}
			h := cl.Call.StaticCallee()
			if h == nil || h.Pkg != fn.Pkg || h == fn || seen[h] || len(h.Blocks) == 0 || len(h.Blocks) > 40 {
				continue
			}
			seen[h] = true
			for _, hb := range h.Blocks {
				for _, hin := range hb.Instrs {
					if r, ok := hin.(*ssa.Range); ok {
						out = append(out, deepRange{r: r, via: cl})
					}
				}
			}
		}
	}
	return out
}
