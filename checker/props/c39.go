package props

import (
	"fmt"
	"go/token"
	"strings"

	"elaverif/ssau"

	"golang.org/x/tools/go/ssa"
)

func init() {
	register(&Check{ID: "C39", Title: "Bloom filters have no false negatives", Run: runC39})
}

func runC39(c *Ctx) {
	c.R.Rule("A-bits", "Filter.add and Filter.matches derive the touched bits the same way: both loop i = 0 .. msg.HashFuncs-1, both call bf.hash(i, data), both address byte idx>>3 with mask 1<<(idx&7) of msg.Filter; add sets that bit, matches answers false only on the arm where that bit is zero (or no filter is loaded); the outpoint variants serialize the outpoint the same way")
	c.R.Rule("R-update", "in matchTxAndUpdate (ordinary filters) every output whose program hash matches gets its outpoint (tx hash, output index) added, the only way an iteration skips the addition is a non-matching program hash, and the answer is false only after every output and every spent outpoint was tested")
	c.R.Rule("R-sidechain", "in the side chain filter branch (Tweak == MaxUint32) the answer is false only after every output's program hash was tested against a non-empty filter (or the filter is empty)")
	const pk = "elanet/bloom"
	add, mat := c.fn(pk, "Filter", "add"), c.fn(pk, "Filter", "matches")
	sig := func(f *ssa.Function) (bound, hashArgs, byteIdx, mask string, ok bool) {
		var idx ssa.Value
		for _, cl := range ssau.CallsIn(f, callPred(R{pk, "Filter", "hash"})) {
			idx = cl.Value()
			a := cl.Common().Args
			var parts []string
			for _, x := range a[1:] {
				parts = append(parts, canonExpr(x, nil, 0))
			}
			hashArgs = strings.Join(parts, ",")
		}
		if idx == nil {
			return
		}
		for _, i := range ssau.Ifs(f) {
			if b, isB := i.Cond.(*ssa.BinOp); isB && b.Op == token.LSS {
				if _, isPhi := b.X.(*ssa.Phi); isPhi && ssau.IsFieldOf(ssau.Unwrap(b.Y), "FilterLoad", "HashFuncs") {
					bound = "HashFuncs"
				}
			}
		}
		k := map[ssa.Value]bool{idx: true}
		for _, b := range f.Blocks {
			for _, in := range b.Instrs {
				if ia, isIA := in.(*ssa.IndexAddr); isIA && ssau.DependsOn(ia.Index, func(y ssa.Value) bool { return y == idx }) && ssau.DependsOn(ia.X, func(y ssa.Value) bool { return ssau.IsFieldOf(y, "FilterLoad", "Filter") }) {
					byteIdx = canonExpr(ia.Index, k, 0)
				}
				// the mask is what is AND-ed (matches) or OR-ed (add) with the addressed filter byte
				if bo, isBo := in.(*ssa.BinOp); isBo && (bo.Op == token.AND || bo.Op == token.OR) && ssau.DependsOn(bo, func(y ssa.Value) bool { return y == idx }) {
					isByte := func(v ssa.Value) bool {
						u, ok := v.(*ssa.UnOp)
						if !ok || u.Op != token.MUL {
							return false
						}
						ia, ok := u.X.(*ssa.IndexAddr)
						return ok && ssau.DependsOn(ia.X, func(y ssa.Value) bool { return ssau.IsFieldOf(y, "FilterLoad", "Filter") })
					}
					if isByte(bo.X) {
						mask = canonExpr(bo.Y, k, 0)
					} else if isByte(bo.Y) {
						mask = canonExpr(bo.X, k, 0)
					}
				}
			}
		}
		ok = bound != "" && hashArgs != "" && byteIdx != "" && mask != ""
		return
	}
	if add != nil && mat != nil {
		ab, ah, ai, am, ok1 := sig(add)
		mb, mh, mi, mm, ok2 := sig(mat)
		c.R.Check("A-bits", "add ~ matches|same bits", ok1 && ok2 && ab == mb && ah == mh && ai == mi && am == mm, c.pos(add.Pos()), fmt.Sprintf("add: loop<%s hash(%s) byte %s mask %s; matches: loop<%s hash(%s) byte %s mask %s", ab, ah, ai, am, mb, mh, mi, mm))
		// add sets the bit (OR), matches tests it (AND) and answers false only there
		okSet := false
		for _, b := range add.Blocks {
			for _, in := range b.Instrs {
				if st, isSt := in.(*ssa.Store); isSt {
					if or, isOr := st.Val.(*ssa.BinOp); isOr && or.Op == token.OR {
						if _, isIA := st.Addr.(*ssa.IndexAddr); isIA {
							okSet = true
						}
					}
				}
			}
		}
		c.R.Check("A-bits", "add|sets the bit", okSet, c.pos(add.Pos()), "filter[idx>>3] |= mask on every hash function")
		c.R.Check("A-bits", "add|every hash function", noBypassInLoop(add, callPred(R{pk, "Filter", "hash"})), c.pos(add.Pos()), "no iteration of the hash-function loop is skipped")
		bad := ""
		for _, ret := range ssau.Returns(mat) {
			k, isC := ret.Results[0].(*ssa.Const)
			if !isC || k.Value.String() != "false" {
				continue
			}
			// reachable only through the zero-bit arm or msg == nil
			cut := ssau.NewCut()
			for _, i := range ssau.Ifs(mat) {
				if b, isB := i.Cond.(*ssa.BinOp); isB && b.Op == token.EQL && isConstInt(0)(b.Y) {
					if and, isAnd := b.X.(*ssa.BinOp); isAnd && and.Op == token.AND {
						cut.AddEdge(i.Block(), ssau.Arm(i, true))
					}
				}
				if x, trueIsNil, isNil := ssau.NilTest(i.Cond); isNil && ssau.IsFieldOf(ssau.Unwrap(x), "Filter", "msg") {
					cut.AddEdge(i.Block(), ssau.Arm(i, trueIsNil))
				}
			}
			if ssau.ReachFromEntry(mat, cut).Instr(ret) {
				bad = c.posOf(ret)
			}
		}
		c.R.Check("A-bits", "matches|false only on a zero bit", bad == "", c.pos(mat.Pos()), "every `return false` is behind filter[idx>>3]&mask == 0 or msg == nil")
	}
	// outpoint serialization agreement
	ao, mo := c.fn(pk, "Filter", "addOutPoint"), c.fn(pk, "Filter", "matchesOutPoint")
	if ao != nil && mo != nil {
		arg := func(f *ssa.Function, callee string) string {
			for _, cl := range ssau.CallsIn(f, callPred(R{pk, "Filter", callee})) {
				a := cl.Common().Args
				return canonExpr(a[len(a)-1], nil, 0)
			}
			return ""
		}
		x, y := arg(ao, "add"), arg(mo, "matches")
		c.R.Check("A-bits", "addOutPoint ~ matchesOutPoint|same serialization", x != "" && x == y, c.pos(ao.Pos()), fmt.Sprintf("add(%s) vs matches(%s)", x, y))
	}

	// ---- matchTxAndUpdate
	f := c.fn(pk, "Filter", "matchTxAndUpdate")
	if f == nil {
		return
	}
	// the side chain region selector
	var sel *ssa.If
	for _, i := range ssau.Ifs(f) {
		if b, ok := i.Cond.(*ssa.BinOp); ok && b.Op == token.EQL && ssau.IsFieldOf(ssau.Unwrap(b.X), "FilterLoad", "Tweak") {
			sel = i
		}
	}
	c.R.Check("R-sidechain", "region selector", sel != nil, c.pos(f.Pos()), "the side chain branch is selected by msg.Tweak == MaxUint32")
	if sel == nil {
		return
	}
	matchP := callPred(R{pk, "Filter", "matches"})
	addOP := callPred(R{pk, "Filter", "addOutPoint"})
	inRegion := func(side bool) *ssau.Reach {
		cut := ssau.NewCut()
		cut.AddEdge(sel.Block(), ssau.Arm(sel, !side))
		return ssau.ReachFromBlock(f, ssau.Arm(sel, side), cut)
	}
	// loops over Outputs()/Inputs() in each region
	loopOverIn := func(g *ssa.Function, r *ssau.Reach, method string) *ssa.If {
		for _, i := range ssau.Ifs(g) {
			b, ok := i.Cond.(*ssa.BinOp)
			if !ok || b.Op != token.LSS || blockComment(i) != "rangeindex.loop" || !r.Instr(i) {
				continue
			}
			if isLenOf(func(v ssa.Value) bool { return methodCallNamed(v, method) })(b.Y) {
				return i
			}
		}
		return nil
	}
	loopOver := func(r *ssau.Reach, method string) *ssa.If { return loopOverIn(f, r, method) }
	// reachFalse: can ret be reached under cut on a path where its (non-constant) result may be false? Arms on which
	// the returned variable itself was tested true are excluded.
	reachFalseIn := func(g *ssa.Function, from *ssa.BasicBlock, cut *ssau.Cut, ret *ssa.Return) bool {
		cc := cut.Clone()
		v := ret.Results[0]
		if _, isC := v.(*ssa.Const); !isC {
			for _, i := range ssau.Ifs(g) {
				x, neg := ssau.StripNot(i.Cond)
				if x == v {
					cc.AddEdge(i.Block(), ssau.Arm(i, !neg))
				}
			}
		}
		return ssau.ReachFromBlock(g, from, cc).Instr(ret)
	}
	falseRetsIn := func(g *ssa.Function, r *ssau.Reach) []*ssa.Return {
		var out []*ssa.Return
		for _, ret := range ssau.Returns(g) {
			if !r.Instr(ret) {
				continue
			}
			if k, ok := ret.Results[0].(*ssa.Const); ok && k.Value.String() == "true" {
				continue
			}
			out = append(out, ret)
		}
		return out
	}
	falseRets := func(r *ssau.Reach) []*ssa.Return { return falseRetsIn(f, r) }
	reachFalse := func(from *ssa.BasicBlock, cut *ssau.Cut, ret *ssa.Return) bool { return reachFalseIn(f, from, cut, ret) }
	_ = reachFalse
	// side chain region: in g, starting at block from, with the edges of base removed
	sideRegion := func(g *ssa.Function, from *ssa.BasicBlock, base *ssau.Cut, sr *ssau.Reach) bool {
		lo := loopOverIn(g, sr, "Outputs")
		if lo == nil {
			return false
		}
		cut := base.Clone()
		cut.AddEdge(lo.Block(), ssau.Arm(lo, false)) // loop exhausted
		for _, i := range ssau.Ifs(g) {
			if b, ok := i.Cond.(*ssa.BinOp); ok && b.Op == token.NEQ && isConstInt(0)(b.Y) && isLenOf(func(v ssa.Value) bool { return ssau.IsFieldOf(ssau.Unwrap(v), "FilterLoad", "Filter") })(b.X) {
				cut.AddEdge(i.Block(), ssau.Arm(i, false)) // empty filter
			}
		}
		bad := ""
		for _, ret := range falseRetsIn(g, sr) {
			if reachFalseIn(g, from, cut, ret) {
				bad = c.posOf(ret)
			}
		}
		det := "a possibly-false answer is given only after the loop over Outputs() is exhausted or for an empty filter"
		if bad != "" {
			det = "the return at " + bad + " can answer false before the outputs were tested against the filter"
		}
		c.R.Check("R-sidechain", "false only after every output was tested", bad == "", c.posOf(lo), det)
		c.R.Check("R-sidechain", "every output tested", noBypassInLoopAt(g, lo.Block(), matchP), c.posOf(lo), "every iteration calls matches(txOut.ProgramHash)")
		return true
	}
	sr := inRegion(true)
	base := ssau.NewCut()
	base.AddEdge(sel.Block(), ssau.Arm(sel, false))
	if !sideRegion(f, ssau.Arm(sel, true), base, sr) {
		// the side chain branch may hand the whole answer to a method of the filter
		done := false
		for _, ret := range ssau.Returns(f) {
			if !sr.Instr(ret) || done {
				continue
			}
			if cl, ok := ssau.ResolveSpill(ret.Results[0]).(*ssa.Call); ok {
				if h := cl.Call.StaticCallee(); h != nil && h.Pkg == f.Pkg && len(h.Blocks) > 0 {
					done = sideRegion(h, h.Blocks[0], ssau.NewCut(), ssau.ReachFromEntry(h, nil))
				}
			}
		}
		if !done {
			c.R.Check("R-sidechain", "outputs loop", false, c.pos(f.Pos()), "no loop over Outputs() in the side chain branch")
		}
	}
	// ordinary region
	nr := inRegion(false)
	lo, li := loopOver(nr, "Outputs"), loopOver(nr, "Inputs")
	c.R.Check("R-update", "loops over outputs and inputs", lo != nil && li != nil, c.pos(f.Pos()), "the ordinary branch ranges over Outputs() and over Inputs()")
	if lo != nil && li != nil {
		var adds []ssa.CallInstruction
		for _, cl := range ssau.CallsIn(f, addOP) {
			if ssau.LoopBody(lo.Block())[cl.Block()] {
				adds = append(adds, cl)
			}
		}
		by := bypassConds(f, adds)
		okBy := len(by) == 1 && strings.Contains(by[0], "matches(") && strings.HasSuffix(by[0], "==false")
		c.R.Check("R-update", "outpoint of every matching output added", len(adds) == 1 && okBy, c.posOf(lo), fmt.Sprintf("an iteration skips addOutPoint only when %v", by))
		for _, cl := range adds {
			a := cl.Common().Args
			np, ok := ssau.Unwrap(a[len(a)-1]).(*ssa.Call)
			okArg := ok && methodCallNamed(np, "NewOutPoint") && methodCallNamed(ssau.Unwrap(np.Call.Args[0]), "Hash") && ssau.DependsOn(np.Call.Args[1], func(y ssa.Value) bool {
				p, isPhi := y.(*ssa.Phi)
				return isPhi && p.Comment == "rangeindex"
			})
			c.R.Check("R-update", "added outpoint is (tx hash, output index)", okArg, c.posOf(cl), "addOutPoint(NewOutPoint(txn.Hash(), uint16(i)))")
		}
		// the tested datum is the output's program hash
		okPH := false
		for _, cl := range ssau.CallsIn(f, matchP) {
			if ssau.LoopBody(lo.Block())[cl.Block()] {
				a := cl.Common().Args
				okPH = ssau.DependsOn(a[len(a)-1], func(y ssa.Value) bool { return ssau.IsFieldOf(y, "Output", "ProgramHash") })
			}
		}
		c.R.Check("R-update", "outputs tested by program hash", okPH, c.posOf(lo), "matches(txOut.ProgramHash[:])")
		// false only after both loops exhausted
		cut := ssau.NewCut()
		cut.AddEdge(sel.Block(), ssau.Arm(sel, true))
		cut.AddEdge(li.Block(), ssau.Arm(li, false))
		bad := ""
		for _, ret := range falseRets(nr) {
			if reachFalse(ssau.Arm(sel, false), cut, ret) {
				bad = c.posOf(ret)
			}
		}
		// and the inputs loop is reached only after the outputs loop is exhausted
		cut2 := ssau.NewCut()
		cut2.AddEdge(sel.Block(), ssau.Arm(sel, true))
		cut2.AddEdge(lo.Block(), ssau.Arm(lo, false))
		if ssau.ReachFromBlock(f, ssau.Arm(sel, false), cut2).Instr(li) {
			bad = c.posOf(li)
		}
		c.R.Check("R-update", "false only after outputs and spent outpoints were tested", bad == "", c.posOf(li), "a possibly-false answer needs both loops exhausted")
		c.R.Check("R-update", "every spent outpoint tested", noBypassInLoopAt(f, li.Block(), callPred(R{pk, "Filter", "matchesOutPoint"})), c.posOf(li), "every iteration calls matchesOutPoint(&txIn.Previous)")
	}
}

// noBypassInLoop: the loop containing the calls matched by pred has no iteration that completes without such a call.
func noBypassInLoop(f *ssa.Function, pred func(*ssa.CallCommon) bool) bool {
	calls := ssau.CallsIn(f, pred)
	if len(calls) == 0 {
		return false
	}
	h := ssau.EnclosingLoopHeader(calls[0].Block())
	if h == nil {
		return false
	}
	return noBypassInLoopAt(f, h, pred)
}

func noBypassInLoopAt(f *ssa.Function, h *ssa.BasicBlock, pred func(*ssa.CallCommon) bool) bool {
	body := ssau.LoopBody(h)
	cut := ssau.NewCut()
	n := 0
	for _, cl := range ssau.CallsIn(f, pred) {
		if body[cl.Block()] {
			cut.AddInstr(cl)
			n++
		}
	}
	if n == 0 {
		return false
	}
	iff, ok := h.Instrs[len(h.Instrs)-1].(*ssa.If)
	if !ok {
		return false
	}
	r := ssau.ReachFromBlock(f, ssau.Arm(iff, true), cut)
	return !r.Block(h)
}
