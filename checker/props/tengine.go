package props

import (
	"fmt"
	"go/token"
	"go/types"
	"sort"
	"strings"

	"elaverif/ssau"

	"golang.org/x/tools/go/ssa"
)

// wireSource: v is an integer read from untrusted bytes (result of a Read* helper).
func wireSource(v ssa.Value) (string, bool) {
	var call *ssa.Call
	switch x := v.(type) {
	case *ssa.Call:
		call = x
	case *ssa.Extract:
		c, ok := x.Tuple.(*ssa.Call)
		if !ok || x.Index != 0 {
			return "", false
		}
		call = c
	case *ssa.UnOp:
		// message header fields filled from the wire
		if ssau.IsFieldOf(x, "Header", "Length") {
			return "Header.Length", true
		}
		return "", false
	default:
		return "", false
	}
	f := call.Call.StaticCallee()
	if f == nil || f.Pkg == nil || !strings.HasSuffix(f.Pkg.Pkg.Path(), "Elastos.ELA/common") {
		return "", false
	}
	switch f.Name() {
	case "ReadVarUint", "ReadUint32", "ReadUint64":
		return f.Name(), true
	}
	return "", false
}

func typeBits(t types.Type) int {
	b, ok := t.Underlying().(*types.Basic)
	if !ok {
		return 0
	}
	switch b.Kind() {
	case types.Int8, types.Uint8:
		return 8
	case types.Int16, types.Uint16:
		return 16
	case types.Int32, types.Uint32:
		return 32
	case types.Int, types.Uint, types.Int64, types.Uint64, types.Uintptr:
		return 64
	}
	return 0
}

// stripConv strips conversions; wideningOnly stops at a narrowing conversion.
func stripConv(v ssa.Value, wideningOnly bool) ssa.Value {
	for {
		c, ok := v.(*ssa.Convert)
		if !ok {
			if ct, ok := v.(*ssa.ChangeType); ok {
				v = ct.X
				continue
			}
			return v
		}
		if wideningOnly && typeBits(c.Type()) < typeBits(c.X.Type()) {
			return v
		}
		v = c.X
	}
}

// sizeSink describes an allocation whose size derives from a wire integer.
type sizeSink struct {
	fn     *ssa.Function
	in     ssa.Instruction
	size   ssa.Value // the operand
	root   ssa.Value // source value
	source string
	what   string
}

// taintedRoot walks back from a size operand through conversions and simple arithmetic to a wire source.
func taintedRoot(v ssa.Value, depth int) (ssa.Value, string, bool) {
	if depth > 6 {
		return nil, "", false
	}
	v = stripConv(v, false)
	if s, ok := wireSource(v); ok {
		return v, s, true
	}
	switch x := v.(type) {
	case *ssa.BinOp:
		if x.Op == token.MUL || x.Op == token.ADD {
			if r, s, ok := taintedRoot(x.X, depth+1); ok {
				return r, s, true
			}
			return taintedRoot(x.Y, depth+1)
		}
	case *ssa.Phi:
		for _, e := range x.Edges {
			if r, s, ok := taintedRoot(e, depth+1); ok {
				return r, s, true
			}
		}
	case *ssa.UnOp:
		// load of a local that was assigned from a source (named results)
		if x.Op == token.MUL {
			if a, ok := x.X.(*ssa.Alloc); ok {
				for _, st := range ssau.StoresInto(a) {
					if r, s, ok := taintedRoot(st.Val, depth+1); ok {
						return r, s, true
					}
				}
			}
			// load of a variable or field whose address was handed to common.ReadElements / ReadElement
			if readElementsTarget(x.X) {
				return v, "ReadElements", true
			}
			// load of a field of the object being decoded that the same function filled from the wire
			if fa, ok := x.X.(*ssa.FieldAddr); ok && fa.Parent() != nil {
				for _, b := range fa.Parent().Blocks {
					for _, in := range b.Instrs {
						st, ok := in.(*ssa.Store)
						if !ok {
							continue
						}
						if sfa, ok := st.Addr.(*ssa.FieldAddr); ok && sfa.X == fa.X && sfa.Field == fa.Field {
							if r, s, ok := taintedRoot(st.Val, depth+1); ok {
								return r, s, true
							}
						}
					}
				}
			}
		}
	}
	return nil, "", false
}

func (c *Ctx) sizeSinks() []sizeSink {
	var out []sizeSink
	for f := range c.P.AllFuncs() {
		root := f
		for root.Parent() != nil {
			root = root.Parent()
		}
		if !nodeFunc(root) || len(f.Blocks) == 0 {
			continue
		}
		for _, b := range f.Blocks {
			for _, in := range b.Instrs {
				var ops []ssa.Value
				what := ""
				switch x := in.(type) {
				case *ssa.MakeSlice:
					ops = []ssa.Value{x.Len, x.Cap}
					what = "make slice"
				// make(map, hint) is not a sink: the Go runtime ignores a hint whose bucket array would overflow or exceed the allocation limit
				case *ssa.Call:
					if g := x.Call.StaticCallee(); g != nil && g.Name() == "ReadBytes" && g.Pkg != nil && strings.HasSuffix(g.Pkg.Pkg.Path(), "Elastos.ELA/common") && len(x.Call.Args) >= 2 {
						ops = []ssa.Value{x.Call.Args[1]}
						what = "ReadBytes length"
					}
				}
				for _, op := range ops {
					if op == nil {
						continue
					}
					if r, s, ok := taintedRoot(op, 0); ok {
						out = append(out, sizeSink{fn: f, in: in, size: op, root: r, source: s, what: what})
						break
					}
				}
			}
		}
	}
	sort.Slice(out, func(i, j int) bool { return out[i].in.Pos() < out[j].in.Pos() })
	return out
}

// boundedBy: the sink is reachable only through the surviving arm of a comparison of the full-width tainted value with an untainted bound.
func (c *Ctx) boundedBy(s sizeSink) (bool, string) {
	fn := s.fn
	cut := ssau.NewCut()
	desc := ""
	// operands of a comparison inside a checking helper stand for the caller's arguments
	subst := func(v ssa.Value) ssa.Value {
		v = stripConv(v, true)
		if p, ok := v.(*ssa.Parameter); ok {
			if a, ok := ssau.ParamSubst[p]; ok {
				return stripConv(a, true)
			}
		}
		return v
	}
	n := c.matchGuards(fn, func(i *ssa.If) (bool, bool) {
		base, neg := ssau.StripNot(i.Cond)
		b, ok := base.(*ssa.BinOp)
		if !ok {
			return false, false
		}
		var other ssa.Value
		var op token.Token
		switch {
		case sameRoot(subst(b.X), s.root):
			other, op = b.Y, b.Op
		case sameRoot(subst(b.Y), s.root):
			other, op = b.X, mirror(b.Op)
		default:
			return false, false
		}
		if _, _, tainted := taintedRoot(subst(other), 0); tainted {
			return false, false
		}
		// root OP other ; surviving arm is where root is bounded above
		var surviving bool
		switch op {
		case token.GTR, token.GEQ:
			surviving = false
		case token.LSS, token.LEQ:
			surviving = true
		default:
			return false, false
		}
		desc = ssau.CondString(base)
		return true, surviving != neg
	}, cut, 0)
	if n == 0 {
		return false, "no comparison of the decoded value with a bound"
	}
	if ssau.ReachFromEntry(fn, cut).Instr(s.in) {
		return false, "the allocation is reachable without passing the bound check " + desc
	}
	return true, "bounded by " + desc
}

// tAlloc runs the allocation rule; tabled lists known-benign sinks (function name -> reason).
func (c *Ctx) tAlloc(rule string, floorSinks, floorBounded int, tabled map[string]string) {
	sinks := c.sizeSinks()
	nb := 0
	for _, s := range sinks {
		root := s.fn
		for root.Parent() != nil {
			root = root.Parent()
		}
		key := fmt.Sprintf("alloc|%s|%s<-%s", fname(root), s.what, s.source)
		ok, why := c.boundedBy(s)
		if ok {
			nb++
			c.R.Check(rule, key, true, c.posOf(s.in), why)
			continue
		}
		if s.source == "ReadUint32" || s.source == "ReadVarUint" || s.source == "ReadUint64" {
			if reason, t := tabled[fname(root)]; t {
				c.R.Info(rule, "tabled|"+key, c.posOf(s.in), reason)
				continue
			}
		}
		c.R.Check(rule, key, false, c.posOf(s.in), fmt.Sprintf("%s: %s sized by a value decoded with %s: %s", fname(root), s.what, s.source, why))
	}
	c.R.FloorCheck(rule+" wire-sized allocations", len(sinks), floorSinks)
	c.R.FloorCheck(rule+" bounded allocations", nb, floorBounded)
}

// sameRoot: identical SSA value, or two loads of the same field of the same base object.
func sameRoot(a, b ssa.Value) bool {
	if a == b {
		return true
	}
	ua, ok1 := a.(*ssa.UnOp)
	ub, ok2 := b.(*ssa.UnOp)
	if ok1 && ok2 && ua.Op == token.MUL && ub.Op == token.MUL {
		if _, isAlloc := ua.X.(*ssa.Alloc); isAlloc && ua.X == ub.X {
			return true
		}
		fa, ok3 := ua.X.(*ssa.FieldAddr)
		fb, ok4 := ub.X.(*ssa.FieldAddr)
		return ok3 && ok4 && fa.X == fb.X && fa.Field == fb.Field
	}
	return false
}

// readElementsTarget: the address (a local variable or a field) is passed, boxed in an interface, to
// common.ReadElements or common.ReadElement somewhere in its function, and addresses an integer.
func readElementsTarget(addr ssa.Value) bool {
	pt, ok := addr.Type().Underlying().(*types.Pointer)
	if !ok || typeBits(pt.Elem()) == 0 {
		return false
	}
	var cands []ssa.Value
	switch a := addr.(type) {
	case *ssa.Alloc:
		cands = []ssa.Value{a}
	case *ssa.FieldAddr:
		if a.Parent() == nil {
			return false
		}
		for _, b := range a.Parent().Blocks {
			for _, in := range b.Instrs {
				if fa, ok := in.(*ssa.FieldAddr); ok && fa.X == a.X && fa.Field == a.Field {
					cands = append(cands, fa)
				}
			}
		}
	default:
		return false
	}
	isReader := func(in ssa.Instruction) bool {
		cl, ok := in.(*ssa.Call)
		if !ok {
			return false
		}
		f := cl.Call.StaticCallee()
		return f != nil && f.Pkg != nil && strings.HasSuffix(f.Pkg.Pkg.Path(), "Elastos.ELA/common") && (f.Name() == "ReadElements" || f.Name() == "ReadElement")
	}
	for _, cnd := range cands {
		refs := cnd.Referrers()
		if refs == nil {
			continue
		}
		for _, r := range *refs {
			mi, ok := r.(*ssa.MakeInterface)
			if !ok || mi.Referrers() == nil {
				continue
			}
			for _, r2 := range *mi.Referrers() {
				if isReader(r2) {
					return true
				}
				st, ok := r2.(*ssa.Store)
				if !ok {
					continue
				}
				if ia, ok := st.Addr.(*ssa.IndexAddr); ok {
					if arr, ok := ia.X.(*ssa.Alloc); ok && arr.Referrers() != nil {
						for _, r3 := range *arr.Referrers() {
							if sl, ok := r3.(*ssa.Slice); ok && sl.Referrers() != nil {
								for _, r4 := range *sl.Referrers() {
									if isReader(r4) {
										return true
									}
								}
							}
						}
					}
				}
			}
		}
	}
	return false
}
