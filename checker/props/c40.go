package props

import (
	"fmt"
	"go/token"
	"go/types"
	"sort"
	"strings"

	"elaverif/core"
	"elaverif/ssau"

	"golang.org/x/tools/go/ssa"
)

func init() {
	register(&Check{ID: "C40", Title: "Validation and state queries are safe under concurrency", Run: runC40})
}

// guardedOwners: struct types whose contents are protected by the owning object's mutex.
var c40Owners = map[string]map[string]bool{
	"dpos/state": {"State": true, "StateKeyFrame": true, "Producer": true, "Arbiters": true, "RewardData": true},
	"cr/state":   {"Committee": true, "KeyFrame": true, "StateKeyFrame": true, "ProposalKeyFrame": true, "ProposalManager": true, "State": true, "Candidate": true, "CRMember": true, "ProposalState": true},
}

// c40LockFree: exported methods of the dpos State, Arbiters and the CR Committee that touch guarded containers
// without taking the mutex themselves on the pinned tree, with the reason they are accepted.
var c40LockFree = map[string]string{
	"(*dpos/state.Arbiters).ChangeCurrentArbitrators":         "round change, called from IncreaseChainHeight with a.mtx held",
	"(*dpos/state.Arbiters).GetCurrentArbitratorKeys":         "delegates to a locking getter / called with a.mtx held",
	"(*dpos/state.Arbiters).GetDposV2CandidatesDesc":          "selection helper used during round change with a.mtx held",
	"(*dpos/state.Arbiters).GetDposV2NormalArbitratorsDesc":   "selection helper used during round change with a.mtx held",
	"(*dpos/state.Arbiters).GetNextOnDutyArbitrator":          "delegates to the versioned helper that locks",
	"(*dpos/state.Arbiters).IsMemberElectedNextCRCArbitrator": "read of the next-round set by the next-turn check on the chain goroutine",
	"(*dpos/state.Arbiters).IsNextCRCArbitrator":              "read of the next-round set by the next-turn check on the chain goroutine",
	"(*dpos/state.Arbiters).IsSameWithNextArbitrators":        "read used by the next-turn check on the chain goroutine",
	"(*dpos/state.Arbiters).ProcessBlock":                     "block connection entry: locks inside the steps it calls",
	"(*dpos/state.Arbiters).Snapshot":                         "checkpoint snapshot on the chain goroutine",
	"(*dpos/state.Arbiters).SnapshotByHeight":                 "checkpoint snapshot on the chain goroutine",
	"(*dpos/state.Arbiters).UpdateNextArbitrators":            "round change, called with a.mtx held",
	"(*dpos/state.State).ProcessVoteStatisticsBlock":          "called from State.ProcessBlock with s.mtx held",
	"(*cr/state.Committee).Snapshot":                          "checkpoint snapshot on the chain goroutine",
}

type c40 struct {
	c   *Ctx
	rel string
	pkg *ssa.Package
}

func isContainerType(t types.Type) bool {
	switch t.Underlying().(type) {
	case *types.Map, *types.Slice:
		return true
	}
	return false
}

// guardedAccess: in is a load/store/lookup/update/range touching a map- or slice-typed field of a guarded struct,
// or a map/slice element reached through one.
func (k *c40) guardedField(fa *ssa.FieldAddr) (string, bool) {
	pt, ok := fa.X.Type().Underlying().(*types.Pointer)
	if !ok {
		return "", false
	}
	named, ok := pt.Elem().(*types.Named)
	if !ok {
		return "", false
	}
	if named.Obj().Pkg() == nil || !strings.HasSuffix(named.Obj().Pkg().Path(), "Elastos.ELA/"+k.rel) {
		return "", false
	}
	if !c40Owners[k.rel][named.Obj().Name()] {
		return "", false
	}
	st := named.Underlying().(*types.Struct)
	f := st.Field(fa.Field)
	if !isContainerType(f.Type()) {
		return "", false
	}
	return named.Obj().Name() + "." + f.Name(), true
}

func (k *c40) accessesIn(f *ssa.Function, reach func(ssa.Instruction) bool) []string {
	set := map[string]bool{}
	for _, b := range f.Blocks {
		for _, in := range b.Instrs {
			if reach != nil && !reach(in) {
				continue
			}
			fa, ok := in.(*ssa.FieldAddr)
			if !ok {
				continue
			}
			if name, ok := k.guardedField(fa); ok {
				// only count if the field value is actually read or written (not merely address-taken for a callee)
				set[name] = true
			}
		}
	}
	return ssau.SortedKeys(set)
}

func isMutexCall(cm *ssa.CallCommon, names ...string) bool {
	o := ssau.CalleeObj(cm)
	if o == nil || o.Pkg() == nil || o.Pkg().Path() != "sync" {
		return false
	}
	for _, n := range names {
		if o.Name() == n {
			return true
		}
	}
	return false
}

func runC40(c *Ctx) {
	c.R.Rule("L-unlock", "in the state packages (dpos/state, cr/state) no map- or slice-typed field of mutex-guarded state (State, StateKeyFrame, Producer, Arbiters, Committee, the CR key frames, Candidate, CRMember, ProposalState) is accessed, directly or through an unexported helper that takes no lock, on a path after an explicit (non-deferred) Unlock/RUnlock of the owner's mutex and before it is locked again")
	c.R.Rule("L-commit", "in dpos/state, cr/state and mempool a function that releases a mutex with an explicit Unlock()/RUnlock() call does not afterwards (without taking the lock again) run the deferred state mutations of a History (Commit, RollbackTo, SeekTo, RollbackSeekTo): those execute the queued closures that write the guarded maps")
	{
		nU := 0
		for _, rel := range []string{"dpos/state", "cr/state", "mempool"} {
			for _, f := range c.pkgFuncs(rel) {
				if len(f.Blocks) == 0 {
					continue
				}
				isSync := func(cm *ssa.CallCommon, names ...string) bool {
					o := ssau.CalleeObj(cm)
					if o == nil || o.Pkg() == nil || o.Pkg().Path() != "sync" {
						return false
					}
					for _, n := range names {
						if o.Name() == n {
							return true
						}
					}
					return false
				}
				relock := ssau.NewCut()
				for _, ci := range ssau.CallsIn(f, func(cm *ssa.CallCommon) bool { return isSync(cm, "Lock", "RLock") }) {
					relock.AddInstr(ci)
				}
				for _, b := range f.Blocks {
					for _, in := range b.Instrs {
						u, ok := in.(*ssa.Call)
						if !ok || !isSync(&u.Call, "Unlock", "RUnlock") {
							continue
						}
						nU++
						ra := ssau.ReachAfter(f, u, relock)
						bad := ""
						for _, hc := range ssau.CallsIn(f, func(cm *ssa.CallCommon) bool {
							o := ssau.CalleeObj(cm)
							if o == nil || ssau.RecvName(o) != "History" {
								return false
							}
							switch o.Name() {
							case "Commit", "RollbackTo", "SeekTo", "RollbackSeekTo":
								return true
							}
							return false
						}) {
							if ra.Instr(hc) {
								bad = c.posOf(hc)
							}
						}
						if bad != "" {
							c.R.Check("L-commit", short(fname(f))+"|history mutation after unlock", false, c.posOf(u), "the History call at "+bad+" runs the queued state changes after the mutex was released at "+c.posOf(u))
						}
					}
				}
			}
		}
		c.R.Check("L-commit", "explicit unlocks examined", nU > 0, "", fmt.Sprintf("%d explicit Unlock/RUnlock calls; none is followed by a History mutation without re-locking (violations are listed separately)", nU))
	}
	c.R.Rule("L-entry", "every exported method of State, Arbiters and Committee that takes the owner's mutex touches guarded containers only after taking it (no access between entry and the first Lock/RLock)")
	c.R.Rule("G-snapshot", "the checkpoint manager hands the asynchronous file writer (the only caller of ICheckPoint.Serialize off the chain goroutine) nothing but the result of Snapshot(): every argument of fileChannels.Save derives from a Snapshot() call, and the other file operations never serialize the object they are given")
	c.R.Rule("L-external", "map-typed fields of the guarded state structs are not indexed, ranged over or written by code outside the owning package in the node binary (the mutex is unexported, so such code cannot hold it)")

	lockP := func(cm *ssa.CallCommon) bool { return isMutexCall(cm, "Lock", "RLock") }
	unlockP := func(cm *ssa.CallCommon) bool { return isMutexCall(cm, "Unlock", "RUnlock") }

	nUnlockSites, nEntry := 0, 0
	for _, rel := range []string{"dpos/state", "cr/state"} {
		pk := c.P.Pkg(rel)
		if pk == nil {
			c.R.Anchor("package "+rel, false)
			continue
		}
		k := &c40{c: c, rel: rel, pkg: c.P.SSAPkgs[pk.PkgPath]}
		fns := c.pkgFuncs(rel)
		// unexported/closure functions that touch guarded containers without taking a lock themselves (transitively)
		touches := map[*ssa.Function]bool{}
		locks := map[*ssa.Function]bool{}
		for _, f := range fns {
			if len(ssau.CallsIn(f, lockP)) > 0 {
				locks[f] = true
			}
			if len(k.accessesIn(f, nil)) > 0 {
				touches[f] = true
			}
		}
		for changed := true; changed; {
			changed = false
			for _, f := range fns {
				if touches[f] {
					continue
				}
				for _, b := range f.Blocks {
					for _, in := range b.Instrs {
						if ci, ok := in.(ssa.CallInstruction); ok {
							if g := ci.Common().StaticCallee(); g != nil && touches[g] && !locks[g] {
								touches[f] = true
								changed = true
							}
						}
					}
				}
			}
		}
		badIn := func(f *ssa.Function, r *ssau.Reach) []string {
			set := map[string]bool{}
			for _, a := range k.accessesIn(f, r.Instr) {
				set[a] = true
			}
			for _, b := range f.Blocks {
				for _, in := range b.Instrs {
					if !r.Instr(in) {
						continue
					}
					if ci, ok := in.(ssa.CallInstruction); ok {
						if _, isDefer := in.(*ssa.Defer); isDefer {
							continue
						}
						if g := ci.Common().StaticCallee(); g != nil && touches[g] && !locks[g] && g.Pkg == k.pkg {
							set["via "+g.Name()] = true
						}
					}
				}
			}
			return ssau.SortedKeys(set)
		}
		for _, f := range fns {
			if f.Synthetic != "" {
				continue
			}
			// L-unlock
			for n, u := range ssau.CallsIn(f, unlockP) {
				if _, isDefer := u.(*ssa.Defer); isDefer {
					continue
				}
				// a deferred unlock registered earlier means this explicit one is paired differently; still check
				nUnlockSites++
				cut := ssau.NewCut()
				for _, l := range ssau.CallsIn(f, lockP) {
					cut.AddInstr(l)
				}
				r := ssau.ReachAfter(f, u, cut)
				bad := badIn(f, r)
				key := fmt.Sprintf("%s|after unlock#%d", short(fname(f)), n+1)
				det := "nothing guarded is touched after the unlock"
				if len(bad) > 0 {
					det = fmt.Sprintf("guarded state touched after the mutex was released: %v", bad)
				}
				c.R.Check("L-unlock", key, len(bad) == 0, c.posOf(u), det)
			}
			// L-entry
			if f.Signature.Recv() == nil || !token.IsExported(f.Name()) {
				continue
			}
			rn := ssau.TypeName(f.Signature.Recv().Type())
			if rn != "State" && rn != "Arbiters" && rn != "Committee" {
				continue
			}
			if !locks[f] {
				if touches[f] && (rn != "State" || rel == "dpos/state") {
					// the reviewed set of lock-free exported methods (they rely on the caller's lock or run on the
					// chain goroutine); a method outside it that touches guarded containers without locking is reported
					if _, ok := c40LockFree[short(fname(f))]; !ok {
						c.R.Check("L-entry", short(fname(f))+"|locks first", false, c.pos(f.Pos()), fmt.Sprintf("exported method touches guarded containers %v (or an unlocked helper that does) but takes no lock and is not in the reviewed lock-free table", k.accessesIn(f, nil)))
						continue
					}
				}
				if touches[f] {
					ext := map[string]bool{}
					add := func(m map[*ssa.Function][]ssa.CallInstruction) {
						for caller := range m {
							root := caller
							for root.Parent() != nil {
								root = root.Parent()
							}
							if root.Pkg != nil && root.Pkg != k.pkg {
								ext[short(fname(root))] = true
							}
						}
					}
					add(c.staticCallers(f))
					add(c.invokeCallers(f.Name()))
					c.R.Info("L-entry", short(fname(f))+"|takes no lock", c.pos(f.Pos()), fmt.Sprintf("exported method touches guarded containers %v and takes no lock itself; callers outside the package (static or by interface method name): %v", k.accessesIn(f, nil), ssau.SortedKeys(ext)))
				}
				continue
			}
			nEntry++
			cut := ssau.NewCut()
			for _, l := range ssau.CallsIn(f, lockP) {
				cut.AddInstr(l)
			}
			r := ssau.ReachFromEntry(f, cut)
			bad := badIn(f, r)
			det := "guarded containers are touched only with the mutex held"
			if len(bad) > 0 {
				det = fmt.Sprintf("guarded state touched before the mutex is taken: %v", bad)
			}
			c.R.Check("L-entry", short(fname(f))+"|locks first", len(bad) == 0, c.pos(f.Pos()), det)
		}
	}
	c.R.FloorCheck("L-unlock explicit unlock sites", nUnlockSites, 20)
	c.R.FloorCheck("L-entry locking exported methods", nEntry, 100)

	// ---- G-snapshot
	save := c.fn("core/checkpoint", "fileChannels", "Save")
	if save != nil {
		n := 0
		for caller, sites := range c.staticCallers(save) {
			if c.isTestFn(caller) {
				continue
			}
			for _, s := range sites {
				n++
				a := s.Common().Args[1]
				ok := methodCallNamed(ssau.Unwrap(a), "Snapshot")
				c.R.Check("G-snapshot", short(fname(caller))+"|Save receives a snapshot", ok, c.posOf(s), "the value queued for the file writer is the result of Snapshot()")
			}
		}
		c.R.FloorCheck("G-snapshot Save call sites", n, 1)
	}
	// who serializes in the file goroutine: only saveCheckpoint (reached from the save channel)
	var sers []string
	for _, f := range c.pkgFuncs("core/checkpoint") {
		if f.Signature.Recv() == nil || ssau.TypeName(f.Signature.Recv().Type()) != "fileChannels" {
			continue
		}
		for _, ci := range ssau.CallsIn(f, func(cm *ssa.CallCommon) bool {
			o := ssau.CalleeObj(cm)
			return o != nil && o.Name() == "Serialize"
		}) {
			_ = ci
			sers = append(sers, f.Name())
		}
	}
	sort.Strings(sers)
	c.R.Check("G-snapshot", "fileChannels|only the save path serializes", strings.Join(sers, ",") == "saveCheckpoint", "core/checkpoint/channels.go", fmt.Sprintf("file-goroutine functions calling Serialize: %v", sers))
	if ml := c.fn("core/checkpoint", "fileChannels", "messageLoop"); ml != nil {
		// saveCheckpoint is called only for messages received from the save channel
		ok := false
		for _, ci := range ssau.CallsIn(ml, callPred(R{"core/checkpoint", "fileChannels", "saveCheckpoint"})) {
			a := ci.Common().Args
			ok = ssau.DependsOn(a[len(a)-1], func(y ssa.Value) bool { return ssau.IsFieldOf(y, "fileChannels", "save") })
		}
		c.R.Check("G-snapshot", "messageLoop|saveCheckpoint fed by the save channel", ok, c.pos(ml.Pos()), "the serialized object comes from the channel that only Save writes to")
	}

	// ---- L-external
	c.lExternal()
}

// lExternal enumerates container accesses to guarded state from outside the owning package.
func (c *Ctx) lExternal() {
	type site struct{ fn, field string }
	found := map[site]string{}
	for f := range c.P.AllFuncs() {
		pk := f.Pkg
		if pk == nil && f.Parent() != nil {
			pk = f.Parent().Pkg
		}
		if pk == nil || len(f.Blocks) == 0 {
			continue
		}
		rel := strings.TrimPrefix(pk.Pkg.Path(), core.Mod+"/")
		if !strings.HasPrefix(pk.Pkg.Path(), core.Mod) || core.IsTestOrTool(rel) {
			continue
		}
		for _, b := range f.Blocks {
			for _, in := range b.Instrs {
				fa, ok := in.(*ssa.FieldAddr)
				if !ok {
					continue
				}
				pt, ok := fa.X.Type().Underlying().(*types.Pointer)
				if !ok {
					continue
				}
				named, ok := pt.Elem().(*types.Named)
				if !ok || named.Obj().Pkg() == nil {
					continue
				}
				orel := strings.TrimPrefix(named.Obj().Pkg().Path(), core.Mod+"/")
				owners, ok := c40Owners[orel]
				if !ok || !owners[named.Obj().Name()] || orel == rel {
					continue
				}
				fld := named.Underlying().(*types.Struct).Field(fa.Field)
				if _, isMap := fld.Type().Underlying().(*types.Map); !isMap {
					continue
				}
				// is the map actually indexed / ranged / updated here (not merely passed on)?
				used := false
				if refs := fa.Referrers(); refs != nil {
					for _, r := range *refs {
						ld, ok := r.(*ssa.UnOp)
						if !ok {
							continue
						}
						if lr := ld.Referrers(); lr != nil {
							for _, u := range *lr {
								switch u.(type) {
								case *ssa.Lookup, *ssa.MapUpdate, *ssa.Range:
									used = true
								case *ssa.Call:
									if bi, ok := u.(*ssa.Call).Call.Value.(*ssa.Builtin); ok && (bi.Name() == "len" || bi.Name() == "delete") {
										used = true
									}
								}
							}
						}
					}
				}
				if used {
					found[site{short(fname(f)), orel + "." + named.Obj().Name() + "." + fld.Name()}] = c.pos(fa.Pos())
				}
			}
		}
	}
	var keys []site
	for s := range found {
		keys = append(keys, s)
	}
	sort.Slice(keys, func(i, j int) bool { return keys[i].fn+keys[i].field < keys[j].fn+keys[j].field })
	for _, s := range keys {
		c.R.Check("L-external", s.fn+"|"+s.field, false, found[s], fmt.Sprintf("%s indexes the guarded map %s from outside its package, without the owner's mutex", s.fn, s.field))
	}
	c.R.Check("L-external", "scan completed", true, "", fmt.Sprintf("%d external container access site(s) found", len(keys)))
}
