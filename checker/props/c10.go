package props

import (
	"fmt"
	"go/constant"
	"go/token"
	"go/types"
	"sort"
	"strings"

	"elaverif/ssau"

	"golang.org/x/tools/go/ssa"
)

func init() {
	register(&Check{ID: "C10", Title: "A merged-mining proof commits to exactly this block", Run: runC10})
}

func staticCalleeNamed(v ssa.Value, full string) *ssa.Call {
	cl, ok := v.(*ssa.Call)
	if !ok {
		return nil
	}
	if f := cl.Call.StaticCallee(); f != nil && f.String() == full {
		return cl
	}
	return nil
}

func runC10(c *Ctx) {
	c.R.Rule("G-commit", "(*AuxPow).Check returns true only through all of: GetMerkleRoot(ParCoinbaseTx.Hash(), ParCoinBaseMerkle, ParMerkleIndex) == ParBlockHeader.MerkleRoot; marker found in hex(TxIn[0].SignatureScript); aux root (GetMerkleRoot over the block hash parameter, AuxMerkleBranch, AuxMerkleIndex) found; no second marker anywhere behind the first; marker index + len(marker) == root index; declared size == 1 << len(AuxMerkleBranch); AuxMerkleIndex == GetExpectedIndex(nonce from the script, chainID parameter, len(AuxMerkleBranch)). Operands are identified by role (def-use), not by text")
	c.R.Rule("D-slot", "GetExpectedIndex's result depends on nonce, chainID and h; GetMerkleRoot's result depends on the leaf, every branch element and the index bit of each level")
	c.R.Rule("T-sentinel", "GetMerkleRoot treats index -1 as 'no proof' and returns the zero hash without reading the leaf: every store into AuxPow.ParMerkleIndex / AuxMerkleIndex in the node is a zero-extending conversion of an unsigned wire value or a non-negative constant, so the sentinel is unreachable from the wire (64-bit int)")
	c.R.Rule("K-caller", "every caller of (*AuxPow).Check passes the hash of the header that owns the proof")

	const full = "github.com/elastos/Elastos.ELA/"
	chk := c.fn("auxpow", "AuxPow", "Check")
	if chk == nil {
		return
	}
	fieldOfAP := func(name string) func(ssa.Value) bool { return fieldIs("AuxPow", name) }
	dependsOnAPField := func(name string) func(ssa.Value) bool {
		return func(v ssa.Value) bool {
			return ssau.DependsOn(v, func(y ssa.Value) bool { return ssau.IsFieldOf(y, "AuxPow", name) })
		}
	}
	isGMR := func(v ssa.Value) *ssa.Call { return staticCalleeNamed(ssau.Unwrap(v), full+"auxpow.GetMerkleRoot") }
	isHexOf := func(inner func(ssa.Value) bool) func(ssa.Value) bool {
		return func(v ssa.Value) bool {
			cl := staticCalleeNamed(ssau.Unwrap(v), "encoding/hex.EncodeToString")
			return cl != nil && inner(cl.Call.Args[0])
		}
	}
	isScript := func(v ssa.Value) bool {
		v = ssau.Unwrap(v)
		if !ssau.IsFieldOf(v, "BtcTxIn", "SignatureScript") {
			return false
		}
		// of TxIn[0] of ParCoinbaseTx
		idx0 := false
		ssau.DependsOn(v, func(y ssa.Value) bool {
			if ia, ok := y.(*ssa.IndexAddr); ok && isConstInt(0)(ia.Index) && ssau.DependsOn(ia.X, func(z ssa.Value) bool { return ssau.IsFieldOf(z, "BtcTx", "TxIn") }) {
				idx0 = true
			}
			return false
		})
		return idx0 && dependsOnAPField("ParCoinbaseTx")(v)
	}
	isScriptStr := isHexOf(isScript)
	isMarkerStr := isHexOf(func(v ssa.Value) bool {
		u, ok := ssau.Unwrap(v).(*ssa.UnOp)
		if !ok || u.Op != token.MUL {
			return false
		}
		g, ok := u.X.(*ssa.Global)
		return ok && g.Name() == "pchMergedMiningHeader"
	})
	isAuxRoot := func(v ssa.Value) bool {
		cl := isGMR(v)
		if cl == nil {
			return false
		}
		a := cl.Call.Args
		return ssau.DependsOn(a[0], func(y ssa.Value) bool { return paramNamed(y, "hashAuxBlock") }) &&
			fieldOfAP("AuxMerkleBranch")(a[1]) && fieldOfAP("AuxMerkleIndex")(a[2])
	}
	isRootStr := isHexOf(func(v ssa.Value) bool {
		return ssau.DependsOn(v, func(y ssa.Value) bool { return isAuxRoot(y) })
	})
	isIndexOf := func(hay, needle func(ssa.Value) bool) func(ssa.Value) bool {
		return func(v ssa.Value) bool {
			cl := staticCalleeNamed(ssau.Unwrap(v), "strings.Index")
			return cl != nil && hay(cl.Call.Args[0]) && needle(cl.Call.Args[1])
		}
	}
	isHeaderIdx := viaHelperResult(isIndexOf(isScriptStr, isMarkerStr))
	isRootIdx := viaHelperResult(isIndexOf(isScriptStr, isRootStr))
	bs := G1Opt{BoolSuccess: true}

	// (a) parent coinbase under the parent merkle root
	c.GuardSuccess("G-commit", "Check|coinbase under parent merkle root", chk, "GetMerkleRoot(coinbase hash, ParCoinBaseMerkle, ParMerkleIndex) == ParBlockHeader.MerkleRoot",
		condCmp(func(v ssa.Value) bool {
			cl := isGMR(v)
			if cl == nil {
				return false
			}
			a := cl.Call.Args
			h := ssau.Unwrap(a[0])
			hashOfCoinbase := methodCallNamed(h, "Hash") && dependsOnAPField("ParCoinbaseTx")(h)
			return hashOfCoinbase && fieldOfAP("ParCoinBaseMerkle")(a[1]) && fieldOfAP("ParMerkleIndex")(a[2])
		}, func(v ssa.Value) bool {
			return ssau.IsFieldOf(ssau.Unwrap(v), "BtcHeader", "MerkleRoot") && dependsOnAPField("ParBlockHeader")(v)
		}, token.EQL, true), bs)
	// (b),(c) both found
	c.GuardSuccess("G-commit", "Check|marker found", chk, "strings.Index(scriptHex, markerHex) != -1", condCmp(isHeaderIdx, isConstInt(-1), token.NEQ, true), bs)
	c.GuardSuccess("G-commit", "Check|aux root found", chk, "strings.Index(scriptHex, hex(reverse(auxRoot))) != -1", condCmp(isRootIdx, isConstInt(-1), token.NEQ, true), bs)
	// (d) exactly one marker
	markerLen := int64(-1)
	if g := chk.Pkg.Members["pchMergedMiningHeader"]; g != nil {
		// length of the marker literal, from the package initialiser
		if init := chk.Pkg.Func("init"); init != nil {
			for _, b := range init.Blocks {
				for _, in := range b.Instrs {
					if st, ok := in.(*ssa.Store); ok && st.Addr == ssa.Value(g.(*ssa.Global)) {
						if sl, ok := st.Val.(*ssa.Slice); ok {
							if al, ok := sl.X.(*ssa.Alloc); ok {
								if arr, ok := al.Type().Underlying().(*types.Pointer).Elem().Underlying().(*types.Array); ok {
									markerLen = arr.Len() * 2
								}
							}
						}
					}
				}
			}
		}
	}
	c.R.Check("G-commit", "marker length known", markerLen > 0, c.pos(chk.Pos()), fmt.Sprintf("hex length of pchMergedMiningHeader = %d", markerLen))
	c.GuardSuccess("G-commit", "Check|no second marker", chk, "no further marker occurrence behind the first (Index(script[first+k:], marker) == -1 with 1 <= k <= len(marker), or Count == 1, or LastIndex == first)",
		func(i *ssa.If) (bool, bool) {
			// idiom 1: strings.Index(scriptStr[headerIdx+k:], marker) == -1
			if m, arm := condCmp(func(v ssa.Value) bool {
				cl := staticCalleeNamed(ssau.Unwrap(v), "strings.Index")
				if cl == nil || !isMarkerStr(cl.Call.Args[1]) {
					return false
				}
				sl, ok := ssau.Unwrap(cl.Call.Args[0]).(*ssa.Slice)
				if !ok || sl.High != nil || !isScriptStr(sl.X) || sl.Low == nil {
					return false
				}
				add, ok := sl.Low.(*ssa.BinOp)
				if !ok || add.Op != token.ADD {
					return false
				}
				var k ssa.Value
				switch {
				case isHeaderIdx(add.X):
					k = add.Y
				case isHeaderIdx(add.Y):
					k = add.X
				default:
					return false
				}
				if kc, ok := k.(*ssa.Const); ok {
					if n, ok := constInt(kc); ok && n >= 1 && n <= markerLen {
						return true
					}
				}
				// k = len(marker)
				return isLenOf(isMarkerStr)(k)
			}, isConstInt(-1), token.EQL, true)(i); m {
				return m, arm
			}
			// idiom 1b: strings.Contains(scriptStr[headerIdx+k:], marker) == false
			{
				x, neg := ssau.StripNot(i.Cond)
				if cl := staticCalleeNamed(ssau.Unwrap(x), "strings.Contains"); cl != nil && isMarkerStr(cl.Call.Args[1]) {
					if sl, ok := ssau.Unwrap(cl.Call.Args[0]).(*ssa.Slice); ok && sl.High == nil && sl.Low != nil && isScriptStr(sl.X) {
						if add, ok := sl.Low.(*ssa.BinOp); ok && add.Op == token.ADD {
							var k ssa.Value
							switch {
							case isHeaderIdx(add.X):
								k = add.Y
							case isHeaderIdx(add.Y):
								k = add.X
							}
							okK := false
							if kc, ok := k.(*ssa.Const); ok {
								if n, ok := constInt(kc); ok && n >= 1 && n <= markerLen {
									okK = true
								}
							} else if k != nil && isLenOf(isMarkerStr)(k) {
								okK = true
							}
							if okK {
								return true, neg
							}
						}
					}
				}
			}
			// idiom 2: strings.Count(scriptStr, marker) == 1
			if m, arm := condCmp(func(v ssa.Value) bool {
				cl := staticCalleeNamed(ssau.Unwrap(v), "strings.Count")
				return cl != nil && isScriptStr(cl.Call.Args[0]) && isMarkerStr(cl.Call.Args[1])
			}, isConstInt(1), token.EQL, true)(i); m {
				return m, arm
			}
			// idiom 3: strings.LastIndex(scriptStr, marker) == headerIdx
			return condCmp(func(v ssa.Value) bool {
				cl := staticCalleeNamed(ssau.Unwrap(v), "strings.LastIndex")
				return cl != nil && isScriptStr(cl.Call.Args[0]) && isMarkerStr(cl.Call.Args[1])
			}, isHeaderIdx, token.EQL, true)(i)
		}, bs)
	// (e) adjacency
	c.GuardSuccess("G-commit", "Check|root immediately follows marker", chk, "markerIndex + len(markerHex) == rootIndex",
		condCmp(func(v ssa.Value) bool {
			add, ok := ssau.Unwrap(v).(*ssa.BinOp)
			if !ok || add.Op != token.ADD {
				return false
			}
			return (isHeaderIdx(add.X) && isLenOf(isMarkerStr)(add.Y)) || (isHeaderIdx(add.Y) && isLenOf(isMarkerStr)(add.X))
		}, isRootIdx, token.EQL, true), bs)
	// (g) size
	fromScriptAfterRoot := func(v ssa.Value) bool {
		cl, ok := ssau.Unwrap(v).(*ssa.Call)
		if !ok {
			return false
		}
		o := ssau.CalleeObj(&cl.Call)
		if o == nil || o.Name() != "Uint32" {
			return false
		}
		arg := cl.Call.Args[len(cl.Call.Args)-1]
		sl, ok := ssau.Unwrap(arg).(*ssa.Slice)
		if !ok || !isScript(sl.X) || sl.Low == nil {
			return false
		}
		return ssau.DependsOn(sl.Low, isRootIdx) && ssau.DependsOn(sl.Low, isLenOf(isRootStr))
	}
	heightVal := func(v ssa.Value) bool { return isLenOf(fieldOfAP("AuxMerkleBranch"))(ssau.Unwrap(v)) }
	c.GuardSuccess("G-commit", "Check|size == 1 << height", chk, "uint32 behind the root == 1 << len(AuxMerkleBranch)",
		condCmp(fromScriptAfterRoot, func(v ssa.Value) bool {
			sh, ok := ssau.Unwrap(v).(*ssa.BinOp)
			if !ok || sh.Op != token.SHL || !isConstInt(1)(sh.X) {
				return false
			}
			return ssau.DependsOn(sh.Y, heightVal)
		}, token.EQL, true), bs)
	// (h) slot
	c.GuardSuccess("G-commit", "Check|index == expected slot", chk, "AuxMerkleIndex == GetExpectedIndex(nonce, chainID, height)",
		condCmp(fieldOfAP("AuxMerkleIndex"), func(v ssa.Value) bool {
			cl := staticCalleeNamed(ssau.Unwrap(v), full+"auxpow.GetExpectedIndex")
			if cl == nil {
				return false
			}
			a := cl.Call.Args
			return fromScriptAfterRoot(a[0]) && paramNamed(a[1], "chainID") && heightVal(a[2])
		}, token.EQL, true), bs)
	// the size and the nonce are different words of the script
	var words []*ssa.Slice
	for _, b := range chk.Blocks {
		for _, in := range b.Instrs {
			if cl, ok := in.(*ssa.Call); ok && fromScriptAfterRoot(cl) {
				words = append(words, ssau.Unwrap(cl.Call.Args[len(cl.Call.Args)-1]).(*ssa.Slice))
			}
		}
	}
	offs := map[int64]bool{}
	for _, w := range words {
		off := int64(0)
		if add, ok := w.Low.(*ssa.BinOp); ok && add.Op == token.ADD {
			if k, ok := add.Y.(*ssa.Const); ok {
				off, _ = constInt(k)
			}
		}
		offs[off] = true
	}
	c.R.Check("G-commit", "Check|size and nonce are distinct script words", len(words) == 2 && offs[0] && offs[4], c.pos(chk.Pos()), fmt.Sprintf("%d little-endian words read behind the root at byte offsets %v", len(words), keysInt(offs)))

	// P-pure: the hashes the proof is checked against are recomputed from the fields on every call
	c.R.Rule("P-pure", "BtcTx.Hash and BtcHeader.Hash, whose results AuxPow.Check compares, are functions of the current field values: they store nothing into their receiver (no memoised hash that could outlive a change or a re-decode of the object)")
	for _, tn := range []string{"BtcTx", "BtcHeader"} {
		hf := c.fn("auxpow", tn, "Hash")
		if hf == nil {
			continue
		}
		bad := ""
		for _, b := range hf.Blocks {
			for _, in := range b.Instrs {
				if st, ok := in.(*ssa.Store); ok {
					if fa, ok := st.Addr.(*ssa.FieldAddr); ok && !isLocalRoot(st.Addr) && ssau.TypeName(fa.X.Type()) == tn {
						bad = ownerField(fa) + " at " + c.posOf(st)
					}
				}
			}
		}
		c.R.Check("P-pure", tn+".Hash|no state written", bad == "", c.pos(hf.Pos()), "Hash() writes "+bad+": a cached hash survives later changes of the object, so a proof is checked against the hash of different bytes")
	}
	// D-slot
	if g := c.fn("auxpow", "", "GetExpectedIndex"); g != nil {
		for _, p := range []string{"nonce", "chainID", "h"} {
			ok := false
			for _, ret := range ssau.Returns(g) {
				if ssau.DependsOn(ret.Results[0], func(y ssa.Value) bool { return paramNamed(y, p) }) {
					ok = true
				}
			}
			c.R.Check("D-slot", "GetExpectedIndex|depends on "+p, ok, c.pos(g.Pos()), "the slot is a function of "+p)
		}
		// the slot formula is fixed by the merged-mining convention every parent chain miner follows:
		// ((nonce*1103515245 + 12345 + chainID) * 1103515245 + 12345) mod 2^h in 32-bit arithmetic
		const slotFormula = "conv<int>((((((1103515245*nonce)+12345+conv<uint32>(chainID))*1103515245)+12345)%(1<<conv<uint32>(h))))"
		for _, ret := range ssau.Returns(g) {
			got := canonExpr(ret.Results[0], map[ssa.Value]bool{}, 0)
			c.R.Check("D-slot", "GetExpectedIndex|merged-mining slot formula", normSlot(got) == normSlot(slotFormula), c.posOf(ret),
				"the expected slot is ((nonce*1103515245+12345+chainID)*1103515245+12345) mod 2^h; the code computes "+got)
		}
	}
	if g := c.fn("auxpow", "", "GetMerkleRoot"); g != nil {
		rets := ssau.Returns(g)
		dep := func(pred func(ssa.Value) bool) bool {
			for _, ret := range rets {
				if ssau.DependsOn(ret.Results[0], pred) {
					return true
				}
			}
			return false
		}
		c.R.Check("D-slot", "GetMerkleRoot|depends on leaf", dep(func(y ssa.Value) bool { return paramNamed(y, "hash") }), c.pos(g.Pos()), "the root is a function of the leaf hash")
		c.R.Check("D-slot", "GetMerkleRoot|ranges over the whole branch", rangesWholeParam(g, "merkleBranch"), c.pos(g.Pos()), "the level loop ranges over every element of the branch")
		// side selection by the low bit, then shift
		bit, shift := false, false
		for _, i := range ssau.Ifs(g) {
			if b, ok := i.Cond.(*ssa.BinOp); ok && (b.Op == token.EQL || b.Op == token.NEQ) {
				if and, ok := b.X.(*ssa.BinOp); ok && and.Op == token.AND && isConstInt(1)(and.Y) && ssau.EnclosingLoopHeader(i.Block()) != nil {
					bit = true
				}
			}
		}
		for _, b := range g.Blocks {
			for _, in := range b.Instrs {
				if sh, ok := in.(*ssa.BinOp); ok && sh.Op == token.SHR && isConstInt(1)(sh.Y) && ssau.EnclosingLoopHeader(b) != nil {
					shift = true
				}
			}
		}
		c.R.Check("D-slot", "GetMerkleRoot|side chosen by index bit per level", bit && shift, c.pos(g.Pos()), "each level tests index&1 and shifts the index right by one")
		// every level hashes a buffer filled from the accumulator and from the current branch element
		sliceRoot := func(v ssa.Value) ssa.Value {
			for {
				switch x := v.(type) {
				case *ssa.Slice:
					v = x.X
				case *ssa.FieldAddr:
					v = x.X
				case *ssa.IndexAddr:
					v = x.X
				default:
					return v
				}
			}
		}
		var acc ssa.Value
		for _, ret := range rets {
			if u, ok := ret.Results[0].(*ssa.UnOp); ok && u.Op == token.MUL {
				if a, ok := u.X.(*ssa.Alloc); ok {
					acc = a
				}
			}
			// the running hash may live in a loop-carried value instead of a variable cell
			if ph, ok := ret.Results[0].(*ssa.Phi); ok && acc == nil {
				acc = ph
			}
		}
		isElemAlloc := func(v ssa.Value) bool {
			a, ok := v.(*ssa.Alloc)
			if !ok {
				return false
			}
			for _, st := range ssau.StoresInto(a) {
				if u, ok := st.Val.(*ssa.UnOp); ok && u.Op == token.MUL {
					if ia, ok := u.X.(*ssa.IndexAddr); ok && paramNamed(ia.X, "merkleBranch") {
						return true
					}
				}
			}
			return false
		}
		nh, okAll := 0, acc != nil
		for _, ci := range ssau.CallsIn(g, callPred(R{"common", "", "Hash"})) {
			if ssau.EnclosingLoopHeader(ci.Block()) == nil {
				continue
			}
			nh++
			buf := sliceRoot(ci.Common().Args[0])
			fromAcc, fromElem, stored := false, false, false
			for _, in := range ci.Block().Instrs {
				if cp, ok := in.(*ssa.Call); ok {
					if bi, ok := cp.Call.Value.(*ssa.Builtin); ok && bi.Name() == "copy" && sliceRoot(cp.Call.Args[0]) == buf {
						src := sliceRoot(cp.Call.Args[1])
						if src == acc {
							fromAcc = true
						}
						if isElemAlloc(src) {
							fromElem = true
						}
						// the two halves may be chosen into locals first (left, right := hash, it / swapped)
						if sv, ok := src.(ssa.Value); ok && sv != nil {
							if ssau.DependsOn(sv, func(x ssa.Value) bool { return x == ssa.Value(acc) }) {
								fromAcc = true
							}
							if ssau.DependsOn(sv, func(x ssa.Value) bool {
								if isElemAlloc(x) {
									return true
								}
								u, ok := x.(*ssa.UnOp)
								if !ok || u.Op != token.MUL {
									return false
								}
								ia, ok := u.X.(*ssa.IndexAddr)
								return ok && paramNamed(ia.X, "merkleBranch")
							}) {
								fromElem = true
							}
						}
					}
				}
				if st, ok := in.(*ssa.Store); ok && st.Addr == acc && st.Val == ci.Value() {
					stored = true
				}
			}
			if ph, ok := acc.(*ssa.Phi); ok {
				for _, e := range ph.Edges {
					if e == ci.Value() {
						stored = true
					}
				}
			}
			if !(fromAcc && fromElem && stored) {
				okAll = false
			}
		}
		c.R.Check("D-slot", "GetMerkleRoot|each level hashes accumulator and branch element", okAll && nh >= 1, c.pos(g.Pos()), fmt.Sprintf("%d hash call(s) in the level loop, each over a buffer copied from the running hash and the current branch element, result stored back to the running hash", nh))
	}

	// T-sentinel
	n := 0
	for _, fld := range []string{"ParMerkleIndex", "AuxMerkleIndex"} {
		for f, sts := range c.fieldStores("AuxPow", fld, true) {
			for k, st := range sts {
				n++
				ok, why := c.nonNegIndex(st.Val, f, 0)
				c.R.Check("T-sentinel", fmt.Sprintf("%s|store %s#%d", short(fname(f)), fld, k+1), ok, c.posOf(st), why)
			}
		}
	}
	c.R.FloorCheck("T-sentinel stores of the merkle indexes", n, 4)

	// K-caller
	callers := c.staticCallers(chk)
	nc := 0
	var cn []string
	for caller, sites := range callers {
		if c.isTestFn(caller) {
			continue
		}
		for _, s := range sites {
			nc++
			cn = append(cn, short(fname(caller)))
			a := s.Common().Args
			recvRoot := ssau.AddrRoot(a[0])
			okHash := false
			var hashRoot ssa.Value
			ssau.DependsOn(a[1], func(y ssa.Value) bool {
				if cl, ok := y.(*ssa.Call); ok && methodCallNamed(cl, "Hash") && len(cl.Call.Args) > 0 && cl.Parent() == caller {
					hashRoot = ssau.AddrRoot(cl.Call.Args[0])
					okHash = true
					return true
				}
				return false
			})
			same := okHash && recvRoot != nil && hashRoot != nil && (recvRoot == hashRoot || sameHeaderObject(recvRoot, hashRoot))
			c.R.Check("K-caller", short(fname(caller))+"|hash of the proof's own header", same, c.posOf(s), "the checked hash is header.Hash() of the header whose AuxPow is the receiver")
		}
	}
	sort.Strings(cn)
	c.R.FloorCheck("K-caller call sites of AuxPow.Check", nc, 1)
}

// sameHeaderObject: both roots are loads/addresses into the same local header copy.
func sameHeaderObject(a, b ssa.Value) bool {
	ra, rb := ssau.AddrRoot(a), ssau.AddrRoot(b)
	return ra != nil && ra == rb
}

func keysInt(m map[int64]bool) []int64 {
	var out []int64
	for k := range m {
		out = append(out, k)
	}
	sort.Slice(out, func(i, j int) bool { return out[i] < out[j] })
	return out
}

// rangesWholeParam: fn has a range loop over the slice parameter named p.
func rangesWholeParam(fn *ssa.Function, p string) bool {
	for _, i := range ssau.Ifs(fn) {
		b, ok := i.Cond.(*ssa.BinOp)
		if !ok || b.Op != token.LSS || blockComment(i) != "rangeindex.loop" {
			continue
		}
		if isLenOf(func(v ssa.Value) bool { return paramNamed(v, p) })(b.Y) {
			return true
		}
	}
	return false
}

// nonNegIndex: v is provably >= 0 on a 64-bit int: a non-negative constant, a direct conversion of an unsigned
// integer of at most 32 bits, or a parameter whose every static caller passes such a value.
func (c *Ctx) nonNegIndex(v ssa.Value, in *ssa.Function, depth int) (bool, string) {
	switch x := v.(type) {
	case *ssa.Const:
		if x.Value != nil && x.Value.Kind() == constant.Int && constant.Sign(x.Value) >= 0 {
			return true, "non-negative constant"
		}
		return false, "negative or non-integer constant"
	case *ssa.Convert:
		if bt, ok := x.X.Type().Underlying().(*types.Basic); ok && bt.Info()&types.IsUnsigned != 0 && (bt.Kind() == types.Uint32 || bt.Kind() == types.Uint16 || bt.Kind() == types.Uint8) {
			return true, "zero-extension of a " + bt.Name() + " wire value"
		}
		return false, fmt.Sprintf("conversion from %s may produce a negative index (the -1 sentinel of GetMerkleRoot becomes reachable)", x.X.Type())
	case *ssa.Parameter:
		if depth > 2 {
			return false, "parameter chain too deep"
		}
		idx := -1
		for k, p := range in.Params {
			if p == x {
				idx = k
			}
		}
		callers := c.staticCallers(in)
		n := 0
		for caller, sites := range callers {
			if c.isTestFn(caller) {
				continue
			}
			for _, s := range sites {
				n++
				if ok, why := c.nonNegIndex(s.Common().Args[idx], caller, depth+1); !ok {
					return false, "caller " + short(fname(caller)) + ": " + why
				}
			}
		}
		return true, fmt.Sprintf("constructor parameter; all %d node call site(s) pass a non-negative value", n)
	case *ssa.Phi:
		for _, e := range x.Edges {
			if ok, why := c.nonNegIndex(e, in, depth); !ok {
				return false, why
			}
		}
		return true, "all phi inputs non-negative"
	}
	return false, fmt.Sprintf("value %s is not recognised as non-negative", v)
}

// viaHelperResult lifts a role predicate over values to results of small repository helpers: the value also has
// the role when it is the result of a helper (at most 12 blocks) every non-constant return of which, in that result
// position and with the helper's parameters standing for the call's arguments, has the role.
func viaHelperResult(pred func(ssa.Value) bool) func(ssa.Value) bool {
	var lifted func(v ssa.Value) bool
	depth := 0
	lifted = func(v ssa.Value) bool {
		if pred(v) {
			return true
		}
		u := ssau.Unwrap(v)
		idx := 0
		var cl *ssa.Call
		if e, ok := u.(*ssa.Extract); ok {
			if c2, ok := e.Tuple.(*ssa.Call); ok {
				cl, idx = c2, e.Index
			}
		} else if c2, ok := u.(*ssa.Call); ok {
			cl = c2
		}
		if cl == nil || depth >= 2 {
			return false
		}
		h := cl.Call.StaticCallee()
		if h == nil || h.Pkg == nil || len(h.Blocks) == 0 || len(h.Blocks) > 12 || !strings.HasPrefix(h.Pkg.Pkg.Path(), "github.com/elastos/Elastos.ELA") {
			return false
		}
		all, any := true, false
		depth++
		ssau.WithParamSubst(cl, func() {
			for _, ret := range ssau.Returns(h) {
				if idx >= len(ret.Results) {
					all = false
					continue
				}
				r := ret.Results[idx]
				if _, isK := r.(*ssa.Const); isK {
					continue
				}
				if lifted(r) {
					any = true
				} else {
					all = false
				}
			}
		})
		depth--
		return all && any
	}
	return lifted
}

// normSlot removes the typed-constant suffixes and spaces canonExpr prints, so that only the expression shape counts.
func normSlot(s string) string {
	r := strings.NewReplacer(" ", "", ":uint32", "", ":int", "")
	return r.Replace(s)
}
