package props

import (
	"fmt"
	"go/token"
	"go/types"
	"sort"
	"strings"

	"elaverif/ssau"

	"golang.org/x/tools/go/ssa"
)

// fieldTouches collects, for struct type T, the fields referenced (FieldAddr /
// Field on a value of type T or *T) by fn and its same-package static callees.
type fieldTouch struct {
	fn *ssa.Function
	in ssa.Instruction
}

func touchesOf(fn *ssa.Function, T *types.Named, depth int, seen map[*ssa.Function]bool, out map[string][]fieldTouch) {
	if fn == nil || seen[fn] || depth > 4 || len(fn.Blocks) == 0 {
		return
	}
	seen[fn] = true
	st, ok := T.Underlying().(*types.Struct)
	if !ok {
		return
	}
	isT := func(t types.Type) bool {
		if p, ok := t.(*types.Pointer); ok {
			t = p.Elem()
		}
		n, ok := t.(*types.Named)
		return ok && n.Obj() == T.Obj()
	}
	for _, b := range fn.Blocks {
		for _, in := range b.Instrs {
			switch x := in.(type) {
			case *ssa.FieldAddr:
				if isT(x.X.Type()) {
					name := st.Field(x.Field).Name()
					out[name] = append(out[name], fieldTouch{fn, x})
				}
			case *ssa.Field:
				if isT(x.X.Type()) {
					name := st.Field(x.Field).Name()
					out[name] = append(out[name], fieldTouch{fn, x})
				}
			case ssa.CallInstruction:
				g := x.Common().StaticCallee()
				if g != nil && g.Pkg == fn.Pkg {
					touchesOf(g, T, depth+1, seen, out)
				}
				// closures passed as arguments (ForEach style)
				for _, a := range x.Common().Args {
					if mc, ok := a.(*ssa.MakeClosure); ok {
						if cf, ok := mc.Fn.(*ssa.Function); ok {
							touchesOf(cf, T, depth+1, seen, out)
						}
					}
				}
			}
		}
	}
}

// codecPair finds the serialize/deserialize methods of a named struct type.
type codecPair struct {
	T        *types.Named
	ser, des []*ssa.Function
}

func (c *Ctx) codecTypes(rels []string) []codecPair {
	var out []codecPair
	for _, rel := range rels {
		pk := c.P.Pkg(rel)
		if pk == nil {
			continue
		}
		sc := pk.Types.Scope()
		for _, name := range sc.Names() {
			tn, ok := sc.Lookup(name).(*types.TypeName)
			if !ok || tn.IsAlias() {
				continue
			}
			named, ok := tn.Type().(*types.Named)
			if !ok {
				continue
			}
			if _, ok := named.Underlying().(*types.Struct); !ok {
				continue
			}
			cp := codecPair{T: named}
			for _, t := range []types.Type{types.NewPointer(named), named} {
				ms := c.P.SSA.MethodSets.MethodSet(t)
				for i := 0; i < ms.Len(); i++ {
					sel := ms.At(i)
					if len(sel.Index()) != 1 {
						continue // promoted
					}
					f := c.P.SSA.MethodValue(sel)
					if f == nil || len(f.Blocks) == 0 || f.Synthetic != "" {
						continue
					}
					n := sel.Obj().Name()
					if strings.HasPrefix(n, "Serialize") {
						cp.ser = appendUniq(cp.ser, f)
					}
					if strings.HasPrefix(n, "Deserialize") {
						cp.des = appendUniq(cp.des, f)
					}
				}
			}
			if len(cp.ser) > 0 && len(cp.des) > 0 {
				out = append(out, cp)
			}
		}
	}
	return out
}

func appendUniq(l []*ssa.Function, f *ssa.Function) []*ssa.Function {
	for _, x := range l {
		if x == f {
			return l
		}
	}
	return append(l, f)
}

// versionGuards: the stable conditions (depending on a parameter called
// version/payloadVersion/... or on a version-like field) that edge-guard instruction `in` inside its function.
func versionGuards(in ssa.Instruction) []string {
	fn := in.Parent()
	var out []string
	for _, i := range ssau.Ifs(fn) {
		base, neg := ssau.StripNot(i.Cond)
		bo, isBin := base.(*ssa.BinOp)
		if !isBin {
			continue
		}
		isVer := func(x ssa.Value) bool {
			x = ssau.Unwrap(x)
			if p, ok := x.(*ssa.Parameter); ok {
				return strings.Contains(strings.ToLower(p.Name()), "version")
			}
			return ssau.IsFieldOf(x, "", "version") || ssau.IsFieldOf(x, "", "payloadVersion") || ssau.IsFieldOf(x, "", "Version") || ssau.IsFieldOf(x, "", "txType")
		}
		_, cx := bo.X.(*ssa.Const)
		_, cy := bo.Y.(*ssa.Const)
		if !((isVer(bo.X) && cy) || (isVer(bo.Y) && cx)) {
			continue
		}
		s := ssau.CondString(base)
		if strings.Contains(s, "_") {
			continue
		}
		for _, arm := range []bool{true, false} {
			cut := ssau.NewCut()
			cut.AddEdge(i.Block(), ssau.Arm(i, arm))
			if !ssau.ReachFromEntry(fn, cut).Instr(in) {
				out = append(out, fmt.Sprintf("%s=%v", s, arm != neg))
			}
		}
	}
	sort.Strings(out)
	return out
}

// sCoverage checks field coverage (and version-guard agreement) of all codec types in rels.
func (c *Ctx) sCoverage(rule string, rels []string, exempt map[string]string, floor int, guards bool) {
	pairs := c.codecTypes(rels)
	n := 0
	for _, cp := range pairs {
		st := cp.T.Underlying().(*types.Struct)
		tname := cp.T.Obj().Name()
		rel := strings.TrimPrefix(cp.T.Obj().Pkg().Path(), "github.com/elastos/Elastos.ELA/")
		ser, des := map[string][]fieldTouch{}, map[string][]fieldTouch{}
		seenS, seenD := map[*ssa.Function]bool{}, map[*ssa.Function]bool{}
		for _, f := range cp.ser {
			touchesOf(f, cp.T, 0, seenS, ser)
		}
		for _, f := range cp.des {
			touchesOf(f, cp.T, 0, seenD, des)
		}
		n++
		for i := 0; i < st.NumFields(); i++ {
			fld := st.Field(i).Name()
			key := rel + "." + tname + "." + fld
			if why, ok := exempt[key]; ok {
				c.R.Info(rule, "exempt|"+key, c.pos(st.Field(i).Pos()), why)
				continue
			}
			if ts := st.Field(i).Type().String(); ts == "sync.Mutex" || ts == "sync.RWMutex" {
				continue // locks are not state
			}
			inS, inD := len(ser[fld]) > 0, len(des[fld]) > 0
			c.R.Check(rule, "coverage|"+key, inS && inD, c.pos(st.Field(i).Pos()), fmt.Sprintf("field %s of %s: written by Serialize: %v, restored by Deserialize: %v", fld, tname, inS, inD))
			if guards && inS && inD {
				gs := guardUnion(ser[fld])
				gd := guardUnion(des[fld])
				if gs != gd {
					c.R.Check(rule, "guards|"+key, false, c.pos(st.Field(i).Pos()), fmt.Sprintf("field %s of %s is encoded under version conditions [%s] but decoded under [%s]", fld, tname, gs, gd))
				} else if gs != "" {
					c.R.Check(rule, "guards|"+key, true, c.pos(st.Field(i).Pos()), "same version conditions on both sides: "+gs)
				}
			}
		}
	}
	c.R.FloorCheck(rule+" codec types", n, floor)
}

// guardUnion renders the version-guard alternatives under which a field is touched.
func guardUnion(ts []fieldTouch) string {
	set := map[string]bool{}
	for _, t := range ts {
		set[strings.Join(versionGuards(t.in), "&")] = true
	}
	// a field touched unconditionally somewhere is unconditional
	if set[""] {
		return ""
	}
	var out []string
	for k := range set {
		out = append(out, k)
	}
	sort.Strings(out)
	return strings.Join(out, " | ")
}

// sFill: decode helpers that return a map (or named map result) must insert into it.
func (c *Ctx) sFill(rule string, rels []string, floor int) {
	n := 0
	for f := range c.P.AllFuncs() {
		if f.Pkg == nil || f.Parent() != nil || len(f.Blocks) == 0 {
			continue
		}
		rel := strings.TrimPrefix(f.Pkg.Pkg.Path(), "github.com/elastos/Elastos.ELA/")
		okPkg := false
		for _, r := range rels {
			if r == rel {
				okPkg = true
			}
		}
		if !okPkg || !strings.HasPrefix(strings.ToLower(f.Name()), "deserialize") {
			continue
		}
		res := f.Signature.Results()
		for i := 0; i < res.Len(); i++ {
			if _, isMap := res.At(i).Type().Underlying().(*types.Map); !isMap {
				continue
			}
			n++
			// loops in f must contain a MapUpdate on a map of that type
			ins := 0
			loops := 0
			for _, b := range f.Blocks {
				if strings.HasSuffix(b.Comment, ".loop") {
					loops++
				}
				for _, in := range b.Instrs {
					if up, ok := in.(*ssa.MapUpdate); ok && types.Identical(up.Map.Type(), res.At(i).Type()) && ssau.EnclosingLoopHeader(b) != nil {
						ins++
					}
				}
			}
			c.R.Check(rule, "fill|"+fname(f), loops == 0 || ins > 0, c.pos(f.Pos()), fmt.Sprintf("%s reads entries in a loop and must store them in the returned map (%d insertion(s), %d loop(s))", fname(f), ins, loops))
		}
	}
	c.R.FloorCheck(rule+" map decoders", n, floor)
}

// sAppend: in decode functions, a slice created with make([]T, n) with non-zero length must not be filled by append.
func (c *Ctx) sAppend(rule string, rels []string) {
	n := 0
	for f := range c.P.AllFuncs() {
		if f.Pkg == nil || len(f.Blocks) == 0 {
			continue
		}
		root := f
		for root.Parent() != nil {
			root = root.Parent()
		}
		rel := strings.TrimPrefix(root.Pkg.Pkg.Path(), "github.com/elastos/Elastos.ELA/")
		okPkg := false
		for _, r := range rels {
			if r == rel {
				okPkg = true
			}
		}
		if !okPkg || !strings.Contains(strings.ToLower(root.Name()), "deserialize") {
			continue
		}
		for _, b := range f.Blocks {
			for _, in := range b.Instrs {
				ms, ok := in.(*ssa.MakeSlice)
				if !ok {
					continue
				}
				if isConstInt(0)(ms.Len) {
					continue
				}
				n++
				// does an append take this slice (possibly through a phi) as its first argument?
				bad := false
				seen := map[ssa.Value]bool{}
				var walk func(v ssa.Value)
				walk = func(v ssa.Value) {
					if seen[v] || bad {
						return
					}
					seen[v] = true
					refs := v.Referrers()
					if refs == nil {
						return
					}
					for _, r := range *refs {
						switch y := r.(type) {
						case *ssa.Phi:
							walk(y)
						case *ssa.Call:
							if bi, ok := y.Call.Value.(*ssa.Builtin); ok && bi.Name() == "append" && y.Call.Args[0] == v {
								bad = true
							}
						}
					}
				}
				walk(ms)
				c.R.Check(rule, "make-then-append|"+fname(root), !bad, c.posOf(ms), "a slice allocated with a non-zero length must be filled by index, not by append (append would keep the zero-valued prefix)")
			}
		}
	}
	c.R.Note("%s: %d sized allocations in decode functions examined", rule, n)
}

// sCopy: function fn must assign every field of struct T (except exempt ones).
func (c *Ctx) sCopy(rule string, fn *ssa.Function, T *types.Named, write bool, exempt map[string]string) {
	if fn == nil || T == nil {
		return
	}
	st := T.Underlying().(*types.Struct)
	touched := map[string]bool{}
	for _, b := range fn.Blocks {
		for _, in := range b.Instrs {
			fa, ok := in.(*ssa.FieldAddr)
			if !ok {
				continue
			}
			pt, ok := fa.X.Type().Underlying().(*types.Pointer)
			if !ok {
				continue
			}
			nt, ok := pt.Elem().(*types.Named)
			if !ok || nt.Obj() != T.Obj() {
				continue
			}
			name := st.Field(fa.Field).Name()
			isStore := false
			if refs := fa.Referrers(); refs != nil {
				for _, r := range *refs {
					if s, ok := r.(*ssa.Store); ok && s.Addr == ssa.Value(fa) {
						isStore = true
					}
				}
			}
			if write == isStore || !write {
				touched[name] = true
			}
		}
	}
	for i := 0; i < st.NumFields(); i++ {
		name := st.Field(i).Name()
		key := T.Obj().Name() + "." + name
		verb := "assign"
		if !write {
			verb = "read"
		}
		if why, ok := exempt[key]; ok {
			c.R.Info(rule, "exempt|"+fn.Name()+"|"+key, c.pos(fn.Pos()), why)
			continue
		}
		c.R.Check(rule, fn.Name()+"|"+key, touched[name], c.pos(fn.Pos()), fmt.Sprintf("%s must %s field %s", fname(fn), verb, key))
	}
	_ = token.ADD
}

// fieldOrder lists the fields of T in the order in which fns first touch them in the source, expanding calls of
// same-package functions (and closures passed to calls) at the position of the call.
func fieldOrder(fns []*ssa.Function, T *types.Named) []string {
	st, ok := T.Underlying().(*types.Struct)
	if !ok {
		return nil
	}
	isT := func(t types.Type) bool {
		if p, ok := t.(*types.Pointer); ok {
			t = p.Elem()
		}
		n, ok := t.(*types.Named)
		return ok && n.Obj() == T.Obj()
	}
	var out []string
	have := map[string]bool{}
	seen := map[*ssa.Function]bool{}
	var walk func(fn *ssa.Function, depth int)
	walk = func(fn *ssa.Function, depth int) {
		if fn == nil || seen[fn] || depth > 4 || len(fn.Blocks) == 0 {
			return
		}
		seen[fn] = true
		type item struct {
			pos   token.Pos
			field string
			calls []*ssa.Function
		}
		var items []item
		for _, b := range fn.Blocks {
			for _, in := range b.Instrs {
				switch x := in.(type) {
				case *ssa.FieldAddr:
					if isT(x.X.Type()) && x.Pos().IsValid() {
						items = append(items, item{pos: x.Pos(), field: st.Field(x.Field).Name()})
					}
				case *ssa.Field:
					if isT(x.X.Type()) && x.Pos().IsValid() {
						items = append(items, item{pos: x.Pos(), field: st.Field(x.Field).Name()})
					}
				case ssa.CallInstruction:
					var cs []*ssa.Function
					if g := x.Common().StaticCallee(); g != nil && g.Pkg == fn.Pkg {
						cs = append(cs, g)
					}
					for _, a := range x.Common().Args {
						if mc, ok := a.(*ssa.MakeClosure); ok {
							if cf, ok := mc.Fn.(*ssa.Function); ok {
								cs = append(cs, cf)
							}
						}
					}
					if len(cs) > 0 && x.Pos().IsValid() {
						items = append(items, item{pos: x.Pos(), calls: cs})
					}
				}
			}
		}
		sort.SliceStable(items, func(i, j int) bool { return items[i].pos < items[j].pos })
		for _, it := range items {
			if it.field != "" {
				if !have[it.field] {
					have[it.field] = true
					out = append(out, it.field)
				}
				continue
			}
			for _, g := range it.calls {
				walk(g, depth+1)
			}
		}
	}
	for _, f := range fns {
		walk(f, 0)
	}
	return out
}

// sOrder: the encoder and the decoder of a struct touch its fields in the same order (same wire position).
func (c *Ctx) sOrder(rule string, rels []string, tabled map[string]string) {
	n := 0
	for _, cp := range c.codecTypes(rels) {
		tname := cp.T.Obj().Name()
		rel := strings.TrimPrefix(cp.T.Obj().Pkg().Path(), "github.com/elastos/Elastos.ELA/")
		s, d := fieldOrder(cp.ser, cp.T), fieldOrder(cp.des, cp.T)
		inS, inD := map[string]bool{}, map[string]bool{}
		for _, f := range s {
			inS[f] = true
		}
		for _, f := range d {
			inD[f] = true
		}
		var s2, d2 []string
		for _, f := range s {
			if inD[f] {
				s2 = append(s2, f)
			}
		}
		for _, f := range d {
			if inS[f] {
				d2 = append(d2, f)
			}
		}
		key := "order|" + rel + "." + tname
		if why, ok := tabled[rel+"."+tname]; ok {
			c.R.Info(rule, key, c.pos(cp.T.Obj().Pos()), why)
			continue
		}
		n++
		// two fields of the same static type must keep their relative order (a swap of equally typed fields
		// decodes without error; fields of different types are kept apart by the decoder itself or decoded
		// through temporaries, which moves their first touch)
		st := cp.T.Underlying().(*types.Struct)
		ftype := map[string]string{}
		for i := 0; i < st.NumFields(); i++ {
			ftype[st.Field(i).Name()] = st.Field(i).Type().String()
		}
		posS, posD := map[string]int{}, map[string]int{}
		for i, f := range s2 {
			posS[f] = i
		}
		for i, f := range d2 {
			posD[f] = i
		}
		diff := ""
		for i := 0; i < len(s2) && diff == ""; i++ {
			for j := i + 1; j < len(s2); j++ {
				a, b := s2[i], s2[j]
				if ftype[a] == ftype[b] && posD[a] > posD[b] {
					diff = fmt.Sprintf("Serialize writes %s before %s, Deserialize reads %s before %s (both %s)", a, b, b, a, ftype[a])
					break
				}
			}
		}
		c.R.Check(rule, key, diff == "", c.pos(cp.T.Obj().Pos()), fmt.Sprintf("%s: %s (encoder order %v, decoder order %v)", tname, diff, s2, d2))
	}
	c.R.FloorCheck(rule+" codec types", n, 10)
}
