package props

import (
	"fmt"
	"go/token"
	"go/types"
	"strings"

	"elaverif/ssau"

	"golang.org/x/tools/go/ssa"
)

func init() {
	register(&Check{ID: "C03", Title: "Validating any decoded block or transaction never crashes the node", Run: runC03})
}

// lenLowerBound: the largest L such that `at` is reachable only when len(base) >= L, derived from dominating comparisons of len(base) with constants.
type gfact struct {
	i   *ssa.If
	arm bool
	L   int64
}

func lenLowerBound(fn *ssa.Function, base ssa.Value, at ssa.Instruction) int64 {
	best := int64(0)
	var all []gfact
	baseStr := ssau.CondString(ssau.Unwrap(base))
	isLenOfBase := func(v ssa.Value) bool {
		v = ssau.Unwrap(v)
		c, ok := v.(*ssa.Call)
		if !ok {
			return false
		}
		b, ok := c.Call.Value.(*ssa.Builtin)
		if !ok || b.Name() != "len" {
			return false
		}
		x := ssau.Unwrap(c.Call.Args[0])
		if x == ssau.Unwrap(base) {
			return true
		}
		s := ssau.CondString(x)
		return s == baseStr && !strings.Contains(s, "_") && !strings.Contains(s, "phi")
	}
	for _, i := range ssau.Ifs(fn) {
		cnd, neg := ssau.StripNot(i.Cond)
		b, ok := cnd.(*ssa.BinOp)
		if !ok {
			continue
		}
		var k int64
		var op token.Token
		if isLenOfBase(b.X) {
			c, ok := b.Y.(*ssa.Const)
			if !ok {
				continue
			}
			k, ok = constInt(c)
			if !ok {
				continue
			}
			op = b.Op
		} else if isLenOfBase(b.Y) {
			c, ok := b.X.(*ssa.Const)
			if !ok {
				continue
			}
			k, ok = constInt(c)
			if !ok {
				continue
			}
			op = mirror(b.Op)
		} else {
			continue
		}
		// which arm gives a lower bound, and which one
		type fact struct {
			arm bool
			L   int64
		}
		var facts []fact
		switch op {
		case token.EQL:
			facts = append(facts, fact{true, k})
			if k == 0 {
				facts = append(facts, fact{false, 1})
			}
		case token.NEQ:
			facts = append(facts, fact{false, k})
			if k == 0 {
				facts = append(facts, fact{true, 1})
			}
		case token.LSS:
			facts = append(facts, fact{false, k})
		case token.LEQ:
			facts = append(facts, fact{false, k + 1})
		case token.GEQ:
			facts = append(facts, fact{true, k})
		case token.GTR:
			facts = append(facts, fact{true, k + 1})
		}
		for _, f := range facts {
			all = append(all, gfact{i, f.arm != neg, f.L})
			if f.L <= best {
				continue
			}
			cut := ssau.NewCut()
			cut.AddEdge(i.Block(), ssau.Arm(i, f.arm != neg))
			if !ssau.ReachFromEntry(fn, cut).Instr(at) {
				best = f.L
			}
		}
	}
	// disjunction of two facts: `at` is reachable only through one of two arms, each giving a bound
	for a := 0; a < len(all); a++ {
		for b := a + 1; b < len(all); b++ {
			m := all[a].L
			if all[b].L < m {
				m = all[b].L
			}
			if m <= best || all[a].i == all[b].i {
				continue
			}
			cut := ssau.NewCut()
			cut.AddEdge(all[a].i.Block(), ssau.Arm(all[a].i, all[a].arm))
			cut.AddEdge(all[b].i.Block(), ssau.Arm(all[b].i, all[b].arm))
			if !ssau.ReachFromEntry(fn, cut).Instr(at) {
				best = m
			}
		}
	}
	return best
}

// idxGuarded: `at` is reachable only when idx < len(base) (a dominating comparison of the same idx with len(base)).
func idxGuarded(fn *ssa.Function, base, idx ssa.Value, at ssa.Instruction) bool {
	isLen := func(v ssa.Value) bool {
		return isLenOf(func(x ssa.Value) bool {
			return ssau.Unwrap(x) == ssau.Unwrap(base) || (ssau.CondString(ssau.Unwrap(x)) == ssau.CondString(ssau.Unwrap(base)) && !strings.Contains(ssau.CondString(ssau.Unwrap(x)), "_"))
		})(v)
	}
	same := func(v ssa.Value) bool { return stripConv(v, false) == stripConv(idx, false) }
	for _, i := range ssau.Ifs(fn) {
		for _, try := range []struct {
			op  token.Token
			val bool
		}{{token.LSS, true}} {
			if m, arm := condCmp(same, isLen, try.op, try.val)(i); m {
				cut := ssau.NewCut()
				cut.AddEdge(i.Block(), ssau.Arm(i, arm))
				if !ssau.ReachFromEntry(fn, cut).Instr(at) {
					return true
				}
			}
		}
	}
	return false
}

func isRangeIndex(idx ssa.Value, base ssa.Value) bool {
	idx = ssau.Unwrap(idx)
	b, ok := idx.(*ssa.BinOp)
	if !ok || b.Op != token.ADD || !isConstInt(1)(b.Y) {
		return false
	}
	ph, ok := b.X.(*ssa.Phi)
	if !ok || ph.Comment != "rangeindex" {
		return false
	}
	return true
}

// indexSites lists slice/string index and slice expressions of fn (including anonymous functions).
type indexSite struct {
	in   ssa.Instruction
	base ssa.Value
	idx  ssa.Value // nil for slice expressions handled through lo/hi
	lo   ssa.Value
	hi   ssa.Value
	kind string
}

func indexSites(fn *ssa.Function) []indexSite {
	var out []indexSite
	for _, b := range fn.Blocks {
		for _, in := range b.Instrs {
			switch x := in.(type) {
			case *ssa.IndexAddr:
				if _, isSlice := x.X.Type().Underlying().(*types.Slice); isSlice {
					out = append(out, indexSite{in: x, base: x.X, idx: x.Index, kind: "index"})
				}
			case *ssa.Index:
				if bt, ok := x.X.Type().Underlying().(*types.Basic); ok && bt.Info()&types.IsString != 0 {
					out = append(out, indexSite{in: x, base: x.X, idx: x.Index, kind: "index"})
				}
			case *ssa.Slice:
				if _, isPtr := x.X.Type().Underlying().(*types.Pointer); isPtr {
					continue // slicing a fixed-size array
				}
				if x.Low == nil && x.High == nil {
					continue
				}
				out = append(out, indexSite{in: x, base: x.X, lo: x.Low, hi: x.High, kind: "slice"})
			}
		}
	}
	return out
}

// prover carries the context needed for interprocedural length bounds.
type prover struct {
	c     *Ctx
	depth int
}

func constFold(v ssa.Value) (int64, bool) {
	v = stripConv(v, false)
	if c, ok := v.(*ssa.Const); ok {
		return constInt(c)
	}
	if b, ok := v.(*ssa.BinOp); ok {
		x, okx := constFold(b.X)
		y, oky := constFold(b.Y)
		if okx && oky {
			switch b.Op {
			case token.ADD:
				return x + y, true
			case token.SUB:
				return x - y, true
			}
		}
	}
	return 0, false
}

func sameBase(a, b ssa.Value) bool {
	a, b = ssau.Unwrap(a), ssau.Unwrap(b)
	if a == b {
		return true
	}
	sa, sb := ssau.CondString(a), ssau.CondString(b)
	return sa == sb && !strings.Contains(sa, "_") && !strings.Contains(sa, "phi") && sa != ""
}

// lenBound: a lower bound on len(base) that holds whenever `at` executes.
func (p *prover) lenBound(fn *ssa.Function, base ssa.Value, at ssa.Instruction) int64 {
	base = ssau.Unwrap(base)
	best := lenLowerBound(fn, base, at)
	switch x := base.(type) {
	case *ssa.Slice:
		lx := p.lenBound(fn, x.X, at)
		lo := int64(0)
		loConst := true
		if x.Low != nil {
			lo, loConst = constFold(x.Low)
		}
		switch {
		case x.High == nil && loConst:
			if lx-lo > best {
				best = lx - lo
			}
		case x.High != nil:
			if hk, ok := constFold(x.High); ok && loConst {
				if hk-lo > best {
					best = hk - lo
				}
			} else if hb, ok := stripConv(x.High, false).(*ssa.BinOp); ok {
				// len(X) - c
				if hb.Op == token.SUB && loConst && isLenOf(func(v ssa.Value) bool { return sameBase(v, x.X) })(hb.X) {
					if c, ok := constFold(hb.Y); ok && lx-c-lo > best {
						best = lx - c - lo
					}
				}
				// low + c  (possibly written (low + c1) - c2)
				if c, ok := offsetFrom(x.High, x.Low); ok && c > best {
					best = c
				}
			}
		}
	case *ssa.MakeSlice:
		if k, ok := constFold(x.Len); ok && k > best {
			best = k
		}
	case *ssa.Parameter:
		if p.depth < 3 {
			if b := p.paramBound(fn, x); b > best {
				best = b
			}
		}
	}
	return best
}

// offsetFrom: hi == lo + c for a constant c.
func offsetFrom(hi, lo ssa.Value) (int64, bool) {
	hi = stripConv(hi, false)
	if lo == nil {
		return 0, false
	}
	lo = stripConv(lo, false)
	if hi == lo {
		return 0, true
	}
	if b, ok := hi.(*ssa.BinOp); ok {
		if c, okc := constFold(b.Y); okc {
			if inner, ok2 := offsetFrom(b.X, lo); ok2 {
				if b.Op == token.ADD {
					return inner + c, true
				}
				if b.Op == token.SUB {
					return inner - c, true
				}
			}
		}
	}
	return 0, false
}

// paramBound: min over the node's static call sites of the bound on the actual argument.
func (p *prover) paramBound(fn *ssa.Function, par *ssa.Parameter) int64 {
	idx := -1
	for i, q := range fn.Params {
		if q == par {
			idx = i
		}
	}
	if idx < 0 {
		return 0
	}
	callers := p.c.staticCallers(fn)
	if len(callers) == 0 {
		return 0
	}
	best := int64(-1)
	sub := &prover{c: p.c, depth: p.depth + 1}
	for g, calls := range callers {
		for _, call := range calls {
			if call.Common().StaticCallee() != fn || idx >= len(call.Common().Args) {
				return 0 // used as a function value: unknown callers
			}
			in, ok := call.(ssa.Instruction)
			if !ok {
				return 0
			}
			b := sub.lenBound(g, call.Common().Args[idx], in)
			if best < 0 || b < best {
				best = b
			}
		}
	}
	if best < 0 {
		return 0
	}
	return best
}

// inRange proves v < len(base) (strict) or v <= len(base) at instruction `at`.
func (p *prover) inRange(fn *ssa.Function, base, v ssa.Value, strict bool, at ssa.Instruction, seen map[ssa.Value]bool) (bool, string) {
	if v == nil {
		return true, ""
	}
	v = stripConv(v, false)
	if seen[v] {
		return true, "loop-carried"
	}
	seen[v] = true
	L := p.lenBound(fn, base, at)
	if k, ok := constFold(v); ok {
		if k >= 0 && (strict && k < L || !strict && k <= L) {
			return true, fmt.Sprintf("constant %d with len >= %d", k, L)
		}
		return false, fmt.Sprintf("constant %d but only len >= %d is known", k, L)
	}
	if isRangeIndex(v, base) {
		return true, "range index"
	}
	if b, ok := v.(*ssa.BinOp); ok && b.Op == token.SUB {
		if isLenOf(func(x ssa.Value) bool { return sameBase(x, base) })(b.X) {
			if k, ok := constFold(b.Y); ok {
				if (strict && k >= 1 && k <= L) || (!strict && k >= 0 && k <= L) {
					return true, fmt.Sprintf("len-%d with len >= %d", k, L)
				}
				return false, fmt.Sprintf("len-%d but only len >= %d is known", k, L)
			}
		}
	}
	if idxGuardedAt(fn, base, v, at, strict) {
		return true, "guarded by a comparison with len"
	}
	if ph, ok := v.(*ssa.Phi); ok {
		for i, e := range ph.Edges {
			pred := ph.Block().Preds[i]
			ok, why := p.inRange(fn, base, e, strict, pred.Instrs[len(pred.Instrs)-1], seen)
			if !ok {
				return false, fmt.Sprintf("phi edge from b%d: %s", pred.Index, why)
			}
		}
		return true, "every incoming value is in range"
	}
	return false, "index not provably within bounds"
}

// idxGuardedAt: `at` is reachable only when idx < len(base) (or <= when !strict) by a comparison of this idx value with len(base).
func idxGuardedAt(fn *ssa.Function, base, idx ssa.Value, at ssa.Instruction, strict bool) bool {
	isLen := isLenOf(func(x ssa.Value) bool { return sameBase(x, base) })
	same := func(v ssa.Value) bool {
		if stripConv(v, false) == stripConv(idx, false) {
			return true
		}
		// idx + c compared with len: implies the bound for idx when c >= 1 (strict) / c >= 0
		if c, ok := offsetFrom(v, idx); ok && (c >= 1 || (!strict && c >= 0)) {
			return true
		}
		return false
	}
	ops := []token.Token{token.LSS, token.LEQ}
	for _, i := range ssau.Ifs(fn) {
		for _, op := range ops {
			if m, arm := condCmp(same, isLen, op, true)(i); m {
				// a non-strict comparison of idx itself only gives idx <= len
				if op == token.LEQ && strict {
					x, _ := ssau.StripNot(i.Cond)
					b := x.(*ssa.BinOp)
					lhs := b.X
					if isLen(b.X) {
						lhs = b.Y
					}
					if c, ok := offsetFrom(lhs, idx); !ok || c < 1 {
						continue
					}
				}
				cut := ssau.NewCut()
				cut.AddEdge(i.Block(), ssau.Arm(i, arm))
				if !ssau.ReachFromEntry(fn, cut).Instr(at) {
					return true
				}
			}
		}
	}
	return false
}

func (p *prover) proveIndex(fn *ssa.Function, s indexSite) (bool, string) {
	if s.kind == "index" {
		return p.inRange(fn, s.base, s.idx, true, s.in, map[ssa.Value]bool{})
	}
	okLo, whyLo := p.inRange(fn, s.base, s.lo, false, s.in, map[ssa.Value]bool{})
	okHi, whyHi := p.inRange(fn, s.base, s.hi, false, s.in, map[ssa.Value]bool{})
	if okLo && okHi {
		return true, strings.TrimSpace(whyLo + " " + whyHi)
	}
	if !okLo {
		return false, "low bound: " + whyLo
	}
	return false, "high bound: " + whyHi
}

type c03anchor struct{ rel, recv, name string }

var c03Anchors = []c03anchor{
	{"core/contract", "", "IsStandard"}, {"core/contract", "", "IsSchnorr"}, {"core/contract", "", "IsMultiSig"},
	{"blockchain", "", "RunPrograms"}, {"blockchain", "", "CheckStandardSignature"}, {"blockchain", "", "checkSchnorrSignatures"}, {"blockchain", "", "checkCrossChainSignatures"},
	{"crypto", "", "CheckMultiSigSignatures"}, {"crypto", "", "ParseMultisigScript"}, {"crypto", "", "ParseCrossChainScript"}, {"crypto", "", "ParseCrossChainScriptV1"}, {"crypto", "", "parsePublicKeys"}, {"crypto", "", "VerifyMultisigSignatures"},
	{"auxpow", "AuxPow", "Check"}, {"auxpow", "", "GetMerkleRoot"}, {"auxpow", "", "GetExpectedIndex"},
	{"blockchain", "BlockChain", "checkCoinbaseTransactionContext"},
	{txpkg, "", "checkSchnorrWithdrawFromSidechain"},
}

// c03Idioms: sites that the local recogniser cannot prove, with the interprocedural reason they are safe.
// Each reason that rests on another function is backed by a T-side obligation below.
var c03Idioms = map[string]string{
	"blockchain.CheckStandardSignature|slice .Code[1:(len(.Code)-1)]":                                                                "only called from RunPrograms behind contract.IsStandard(code) == true, which returns true only for len(code) == 35 (T-side)",
	"blockchain.checkSchnorrSignatures|slice .Code[2:]":                                                                              "only called from RunPrograms behind contract.IsSchnorr(code) == true, which returns true only for len(code) == 35 (T-side)",
	"crypto.parsePublicKeys|slice code[:][:][:][phi:i:((phi:i+35)-1)]":                                                               "the loop runs while i < len(code) and len(code) is a multiple of 34 (tested just above), so i+34 <= len(code) (T-side: modulus test present)",
	"crypto.VerifyMultisigSignatures|slice signatures[phi:i:(phi:i+65)]":                                                             "the loop runs while i < len(signatures) and len(signatures) is a multiple of 65 (tested at entry), so i+65 <= len (T-side: modulus test present)",
	"crypto.VerifyMultisigSignatures|slice *publicKeys[i][1:]":                                                                       "every caller passes the result of parsePublicKeys, whose elements are make([]byte, 34) (T-side: callers)",
	"(*auxpow.AuxPow).Check|slice EncodeToString()[(Index()+2):]":                                                                    "headerIndex is a match position of the 8-character marker inside scriptStr (the not-found case returned), so headerIndex+2 <= len(scriptStr)",
	"(*auxpow.AuxPow).Check|slice .SignatureScript[((Index()+len(EncodeToString()))/2):(((Index()+len(EncodeToString()))/2)+4)]":     "guarded by len(scriptStr)-rootHashIndex >= 16 hex characters, i.e. rootHashIndex/2+8 <= len(script) (T-side: guard constant)",
	"(*auxpow.AuxPow).Check|slice .SignatureScript[(((Index()+len(EncodeToString()))/2)+4):(((Index()+len(EncodeToString()))/2)+8)]": "same guard: rootHashIndex/2+8 <= len(script) (T-side: guard constant)",
	"(*blockchain.BlockChain).checkCoinbaseTransactionContext|index Outputs()[0]":                                                    "a coinbase reaching the context check passed CoinBaseTransaction.CheckTransactionOutput, which rejects len(Outputs()) < 2 (T-side); sanity precedes context (C12 G1-valid)",
	"(*blockchain.BlockChain).checkCoinbaseTransactionContext|index Outputs()[1]":                                                    "same: at least two coinbase outputs (T-side)",
	"(*blockchain.BlockChain).checkCoinbaseTransactionContext|index Outputs()[0]#4":                                                  "same: at least two coinbase outputs (T-side)",
	"(*blockchain.BlockChain).checkCoinbaseTransactionContext|index Outputs()[1]#2":                                                  "same: at least two coinbase outputs (T-side)",
	"core/transaction.checkSchnorrWithdrawFromSidechain|index phi:pyArr[phi:i]":                                                      "pyArr is appended in lockstep with pxArr, whose length bounds the loop",
}

// classifierBound: the smallest len(code) for which a bool classifier can return true.
func (c *Ctx) classifierBound(fn *ssa.Function) int64 {
	if fn == nil || len(fn.Params) == 0 {
		return 0
	}
	best := int64(-1)
	ec := &ssau.ExitClassifier{Fn: fn, Idx: 0, BoolSuccess: true}
	for _, ret := range ec.SuccessExits(ssau.NewCut()) {
		// a verdict joined from several paths (a && b && c): only the paths that can deliver true count
		ats := []ssa.Instruction{ret}
		if phi, ok := ret.Results[0].(*ssa.Phi); ok && phi.Block() == ret.Block() {
			ats = nil
			for k, e := range phi.Edges {
				if kc, ok := e.(*ssa.Const); ok && kc.Value != nil && kc.Value.String() == "false" {
					continue
				}
				pb := phi.Block().Preds[k]
				ats = append(ats, pb.Instrs[len(pb.Instrs)-1])
			}
		}
		for _, at := range ats {
			b := lenLowerBound(fn, fn.Params[0], at)
			if best < 0 || b < best {
				best = b
			}
		}
	}
	if best < 0 {
		return 0
	}
	return best
}

func (c *Ctx) c03SideConditions() {
	rp := c.fn("blockchain", "", "RunPrograms")
	for _, pair := range [][2]string{{"CheckStandardSignature", "IsStandard"}, {"checkSchnorrSignatures", "IsSchnorr"}} {
		callee := c.fn("blockchain", "", pair[0])
		cls := c.fn("core/contract", "", pair[1])
		if callee == nil || cls == nil || rp == nil {
			continue
		}
		cs := c.staticCallers(callee)
		gst := c.fn("crypto", "", "GetScriptType")
		for g, calls := range cs {
			for _, call := range calls {
				in := call.(ssa.Instruction)
				key := pair[0] + "|call in " + fname(g) + " is behind a length-establishing classifier"
				// behind IsStandard/IsSchnorr(code) == true, or behind GetScriptType(code) succeeding
				cut := ssau.NewCut()
				n := 0
				for _, i := range ssau.Ifs(in.Parent()) {
					x, neg := ssau.StripNot(i.Cond)
					if cl, ok := x.(*ssa.Call); ok && cl.Call.StaticCallee() == cls {
						n++
						cut.AddEdge(i.Block(), ssau.Arm(i, !neg))
					}
					if v, trueIsNil, ok := ssau.NilTest(i.Cond); ok && gst != nil && ssau.IsCallTo(ssau.Unwrap(v), func(cm *ssa.CallCommon) bool { return cm.StaticCallee() == gst }) {
						n++
						cut.AddEdge(i.Block(), ssau.Arm(i, trueIsNil))
					}
				}
				ok := n > 0 && !ssau.ReachFromEntry(in.Parent(), cut).Instr(in)
				if !ok && n == 0 {
					// the call sits in a small wrapper: then every call of the wrapper must be behind the classifier
					wcs := c.staticCallers(in.Parent())
					all := len(wcs) > 0
					for wg, wcalls := range wcs {
						for _, wcall := range wcalls {
							win := wcall.(ssa.Instruction)
							wcut := ssau.NewCut()
							wn := 0
							for _, i := range ssau.Ifs(wg) {
								x, neg := ssau.StripNot(i.Cond)
								if cl, ok := x.(*ssa.Call); ok && cl.Call.StaticCallee() == cls {
									wn++
									wcut.AddEdge(i.Block(), ssau.Arm(i, !neg))
								}
								if v, trueIsNil, ok := ssau.NilTest(i.Cond); ok && gst != nil && ssau.IsCallTo(ssau.Unwrap(v), func(cm *ssa.CallCommon) bool { return cm.StaticCallee() == gst }) {
									wn++
									wcut.AddEdge(i.Block(), ssau.Arm(i, trueIsNil))
								}
							}
							if wn == 0 || ssau.ReachFromEntry(wg, wcut).Instr(win) {
								all = false
							}
						}
					}
					ok = all
				}
				c.R.Check("T-side", key, ok, c.posOf(in), fmt.Sprintf("%s is reached only after %s(code)==true or GetScriptType(code) succeeded", pair[0], pair[1]))
			}
		}
		if gst != nil && pair[0] == "CheckStandardSignature" {
			// GetScriptType succeeds only for len >= 35
			best := int64(-1)
			ec := &ssau.ExitClassifier{Fn: gst, Idx: 1}
			for _, ret := range ec.SuccessExits(ssau.NewCut()) {
				b := lenLowerBound(gst, gst.Params[0], ret)
				if best < 0 || b < best {
					best = b
				}
			}
			c.R.Check("T-side", "GetScriptType|succeeds only for len(script) >= 35", best >= 35, c.pos(gst.Pos()), fmt.Sprintf("bound %d", best))
		}
		b := c.classifierBound(cls)
		c.R.Check("T-side", pair[1]+"|true only for len(code) >= 35", b >= 35, c.pos(cls.Pos()), fmt.Sprintf("%s returns true only when len(code) >= %d", pair[1], b))
	}
	// modulus tests
	for _, it := range []struct {
		rel, name string
		mod       int64
	}{{"crypto", "parsePublicKeys", 34}, {"crypto", "VerifyMultisigSignatures", 65}} {
		f := c.fn(it.rel, "", it.name)
		if f == nil {
			continue
		}
		found := false
		for _, i := range ssau.Ifs(f) {
			if b, ok := i.Cond.(*ssa.BinOp); ok && (b.Op == token.NEQ || b.Op == token.EQL) && isConstInt(0)(b.Y) {
				if r, ok := b.X.(*ssa.BinOp); ok && r.Op == token.REM {
					if k, ok := constFold(r.Y); ok && k == it.mod {
						found = true
					}
				}
			}
		}
		c.R.Check("T-side", it.name+fmt.Sprintf("|length is a multiple of %d", it.mod), found, c.pos(f.Pos()), "the element loop relies on the length being a whole number of elements")
	}
	// callers of VerifyMultisigSignatures pass parsed keys
	if f := c.fn("crypto", "", "VerifyMultisigSignatures"); f != nil {
		ok := true
		cs := c.staticCallers(f)
		for g, calls := range cs {
			for _, call := range calls {
				if !ssau.DependsOn(call.Common().Args[2], func(x ssa.Value) bool {
					return methodCallNamed(x, "ParseMultisigScript") || methodCallNamed(x, "ParseCrossChainScript") || methodCallNamed(x, "parsePublicKeys")
				}) {
					ok = false
					c.R.Note("VerifyMultisigSignatures caller %s passes keys that are not a parse result", fname(g))
				}
			}
		}
		c.R.Check("T-side", "VerifyMultisigSignatures|keys come from the script parsers", ok && len(cs) > 0, c.pos(f.Pos()), fmt.Sprintf("callers: %v", callerNames(cs)))
	}
	// auxpow guard constant
	if f := c.fn("auxpow", "AuxPow", "Check"); f != nil {
		found := false
		for _, i := range ssau.Ifs(f) {
			if b, ok := i.Cond.(*ssa.BinOp); ok && b.Op == token.LSS {
				if k, ok := constFold(b.Y); ok && k >= 16 {
					if sub, ok := b.X.(*ssa.BinOp); ok && sub.Op == token.SUB {
						found = true
					}
				}
			}
		}
		c.R.Check("T-side", "AuxPow.Check|16 hex characters after the root", found, c.pos(f.Pos()), "len(scriptStr)-rootHashIndex < 16 rejects: 8 bytes (size and nonce) are available")
		// merkle height bound before the shift / GetExpectedIndex
		for _, call := range ssau.CallsIn(f, callPred(R{"auxpow", "", "GetExpectedIndex"})) {
			h := call.Common().Args[2]
			c.G2("T-arith", "AuxPow.Check|merkle height < 32 before GetExpectedIndex", f, call, "merkleHeight >= 32 rejects", condCmp(func(v ssa.Value) bool { return stripConv(v, false) == stripConv(h, false) }, func(v ssa.Value) bool { k, ok := constFold(v); return ok && k <= 32 }, token.GEQ, false))
		}
	}
	if f := c.fn("auxpow", "", "GetExpectedIndex"); f != nil {
		cs := c.staticCallers(f)
		var names []string
		for g := range cs {
			names = append(names, fname(g))
		}
		c.R.Info("T-arith", "GetExpectedIndex|callers", c.pos(f.Pos()), fmt.Sprintf("callers: %v (the validation caller bounds the height; the miner passes its own small height)", names))
	}
	// coinbase has at least two outputs
	if f := c.fn(txpkg, "CoinBaseTransaction", "CheckTransactionOutput"); f != nil {
		cut := ssau.NewCut()
		n := 0
		for _, i := range ssau.Ifs(f) {
			if m, arm := condCmp(lenOfCall("Outputs"), isConstInt(2), token.LSS, false)(i); m {
				n++
				cut.AddEdge(i.Block(), ssau.Arm(i, arm))
			}
		}
		ec := &ssau.ExitClassifier{Fn: f, Idx: 0}
		c.R.Check("T-side", "CoinBaseTransaction.CheckTransactionOutput|at least two outputs", n > 0 && len(ec.SuccessExits(cut)) == 0, c.pos(f.Pos()), "a coinbase with fewer than two outputs is rejected by the sanity check")
	}
	// SchnorrVerify nil test
	if f := c.fn("crypto", "", "SchnorrVerify"); f != nil {
		onCurve := namedCall("IsOnCurve")
		for _, call := range ssau.CallsIn(f, onCurve) {
			a := call.Common().Args
			for k, v := range a[len(a)-2:] {
				v := v
				c.G2("G-nil", fmt.Sprintf("SchnorrVerify|coordinate %d tested for nil before use", k), f, call, "P == nil rejects", func(i *ssa.If) (bool, bool) {
					x, trueIsNil, ok := ssau.NilTest(i.Cond)
					if ok && ssau.Unwrap(x) == ssau.Unwrap(v) {
						return true, !trueIsNil
					}
					return false, false
				})
			}
		}
	}
}

func runC03(c *Ctx) {
	c.R.Rule("T-index", "in the anchored validation functions every slice/string index and slice expression on attacker-shaped data is provably within bounds from dominating length tests in the same function (constant index vs a length lower bound, range indexes, idx < len guards, len-k with len >= k), or is tabled with the interprocedural reason")
	c.R.Rule("T-arith", "shift counts and divisors derived from untrusted lengths are bounded (GetExpectedIndex)")
	c.R.Rule("G-nil", "SchnorrVerify tests the unmarshalled public key coordinates for nil before using them")
	n := 0
	pr := &prover{c: c}
	for _, a := range c03Anchors {
		fn := c.fn(a.rel, a.recv, a.name)
		if fn == nil {
			continue
		}
		fns := append([]*ssa.Function{fn}, fn.AnonFuncs...)
		for _, f := range fns {
			for _, s := range indexSites(f) {
				n++
				key := fmt.Sprintf("%s|%s %s", fname(fn), s.kind, ssau.CondString(ssau.Unwrap(s.base)))
				if s.idx != nil {
					key += "[" + ssau.CondString(stripConv(s.idx, false)) + "]"
				} else {
					lo, hi := "", ""
					if s.lo != nil {
						lo = ssau.CondString(stripConv(s.lo, false))
					}
					if s.hi != nil {
						hi = ssau.CondString(stripConv(s.hi, false))
					}
					key += "[" + lo + ":" + hi + "]"
				}
				ok, why := pr.proveIndex(f, s)
				if !ok {
					if reason, tabled := c03Idioms[key]; tabled {
						c.R.Info("T-index", "idiom|"+key, c.posOf(s.in), reason)
						continue
					}
				}
				c.R.Check("T-index", key, ok, c.posOf(s.in), why)
			}
		}
	}
	c.R.FloorCheck("T-index sites", n, 30)
	c.R.Rule("T-side", "side conditions backing the tabled index sites: caller sets, classifier length bounds, modulus tests, guard constants, the two-output coinbase rule")
	c.c03SideConditions()
}
