package props

import (
	"fmt"
	"go/token"
	"go/types"

	"elaverif/ssau"

	"golang.org/x/tools/go/ssa"
)

func init() {
	register(&Check{ID: "C01", Title: "No transaction creates value: outputs never exceed inputs", Run: runC01})
}

func isOutputValue(v ssa.Value) bool {
	return ssau.IsFieldOf(ssau.Unwrap(v), "Output", "Value")
}

// perElementNonNeg: every iteration of a loop over Outputs() that completes has
// passed the false arm of `output.Value < 0`.
func (c *Ctx) perElementNonNeg(fn *ssa.Function) (bool, string) {
	sel := nonNegArm
	cut := ssau.NewCut()
	var tests []*ssa.If
	for _, i := range ssau.Ifs(fn) {
		if m, arm := sel(i); m {
			tests = append(tests, i)
			cut.AddEdge(i.Block(), ssau.Arm(i, arm))
		}
	}
	if len(tests) == 0 {
		return false, "no test of output.Value < 0"
	}
	H := ssau.EnclosingLoopHeader(tests[0].Block())
	if H == nil {
		return false, "the Value < 0 test is not inside a loop"
	}
	// the loop must range over Outputs()
	if !loopRangesOver(H, func(v ssa.Value) bool { return methodCallNamed(v, "Outputs") }) {
		return false, "loop does not range over Outputs()"
	}
	var body *ssa.BasicBlock
	for _, s := range H.Succs {
		if s == tests[0].Block() || s.Dominates(tests[0].Block()) {
			body = s
		}
	}
	if body == nil {
		return false, "cannot identify loop body"
	}
	cut.AddInstr(H.Instrs[0])
	r := ssau.ReachFromBlock(fn, body, cut)
	for _, p := range H.Preds {
		if r.EdgeReachable(p, H) && (r.Block(p) || p == body) {
			return false, fmt.Sprintf("an iteration completes without the Value<0 test (via b%d)", p.Index)
		}
	}
	// the failing arm must not reach a success exit
	for _, i := range tests {
		_, arm := sel(i)
		bad := ssau.Arm(i, !arm)
		rr := ssau.ReachFromBlock(fn, bad, nil)
		ec := &ssau.ExitClassifier{Fn: fn, Idx: 0}
		if len(ec.SuccessExitsIn(rr, ssau.NewCut())) > 0 && !bad.Dominates(bad) {
			// reaching success from the failing arm
			for _, ret := range ec.SuccessExitsIn(rr, ssau.NewCut()) {
				if rr.Block(ret.Block()) {
					return false, "the negative arm can still reach a success exit"
				}
			}
		}
	}
	return true, "per-element Value<0 rejection"
}

// loopRangesOver: the rangeindex loop with header H is bounded by len(x) with x satisfying pred.
func loopRangesOver(H *ssa.BasicBlock, pred func(ssa.Value) bool) bool {
	i, ok := H.Instrs[len(H.Instrs)-1].(*ssa.If)
	if !ok {
		return false
	}
	b, ok := i.Cond.(*ssa.BinOp)
	if !ok {
		// map range: cond is extract of next
		if n, ok := ssau.RangeNextOk(i.Cond); ok {
			if rg, ok := n.Iter.(*ssa.Range); ok {
				return pred(rg.X)
			}
		}
		return false
	}
	return isLenOf(pred)(b.Y) || isLenOf(pred)(b.X)
}

// nonNegArm recognises a test that separates negative output values: the
// required arm is the one on which Value >= 0 is known.
func nonNegArm(i *ssa.If) (bool, bool) {
	if m, arm := condCmp(isOutputValue, isConstInt(0), token.LSS, false)(i); m {
		return m, arm
	}
	if m, arm := condCmp(isOutputValue, isConstInt(0), token.LEQ, false)(i); m {
		return m, arm
	}
	return false, false
}

// outputsClass classifies a CheckTransactionOutput implementation.
func (c *Ctx) outputsClass(fn *ssa.Function, depth int) (string, string) {
	if ok, why := c.perElementNonNeg(fn); ok {
		return "nonneg", why
	}
	// empty: all success exits behind len(Outputs()) == 0
	cut := ssau.NewCut()
	n := 0
	for _, i := range ssau.Ifs(fn) {
		if m, arm := condCmp(lenOfCall("Outputs"), isConstInt(0), token.EQL, true)(i); m {
			n++
			cut.AddEdge(i.Block(), ssau.Arm(i, arm))
		}
	}
	ec := &ssau.ExitClassifier{Fn: fn, Idx: 0}
	if n > 0 && len(ec.SuccessExits(cut)) == 0 {
		return "empty", "all success exits require len(Outputs()) == 0"
	}
	// delegation: every success exit returns the verdict of a same-package checker that is itself nonneg/empty
	if depth < 2 {
		all := true
		cnt := 0
		for _, ret := range ec.SuccessExits(ssau.NewCut()) {
			call, ok := ret.Results[0].(*ssa.Call)
			if !ok {
				all = false
				break
			}
			g := call.Call.StaticCallee()
			if g == nil || g.Pkg != fn.Pkg || len(g.Blocks) == 0 {
				all = false
				break
			}
			if cl, _ := c.outputsClass(g, depth+1); cl == "" {
				all = false
				break
			}
			cnt++
		}
		if all && cnt > 0 {
			return "delegated", fmt.Sprintf("every success exit delegates to a checker that rejects negative values (%d)", cnt)
		}
	}
	return "", "neither a per-element Value<0 rejection, nor forced-empty outputs, nor a delegation to such a checker"
}

// isCheckedOutputSum: fn loops over Outputs(), accumulates Output.Value in a
// Fixed64 and tests the accumulator against the addend inside the loop with a
// failing arm that cannot continue the loop or succeed.
func (c *Ctx) isCheckedOutputSum(fn *ssa.Function) (bool, string) {
	if fn == nil || len(fn.Blocks) == 0 {
		return false, "no body"
	}
	var acc *ssa.Phi
	var add *ssa.BinOp
	for _, b := range fn.Blocks {
		for _, in := range b.Instrs {
			bo, ok := in.(*ssa.BinOp)
			if !ok || bo.Op != token.ADD || ssau.TypeName(bo.Type()) != "Fixed64" {
				continue
			}
			for _, pair := range [][2]ssa.Value{{bo.X, bo.Y}, {bo.Y, bo.X}} {
				if ph, ok := pair[0].(*ssa.Phi); ok && isOutputValue(pair[1]) {
					// loop-carried: one phi edge is the add itself
					for _, e := range ph.Edges {
						if e == ssa.Value(bo) {
							acc, add = ph, bo
						}
					}
				}
			}
		}
	}
	if acc == nil {
		return false, "no loop-carried Fixed64 accumulation of Output.Value"
	}
	H := ssau.EnclosingLoopHeader(add.Block())
	if H == nil || !loopRangesOver(H, func(v ssa.Value) bool { return methodCallNamed(v, "Outputs") }) {
		return false, "accumulation loop does not range over Outputs()"
	}
	// tests depending on both the accumulator and the addend
	cut := ssau.NewCut()
	n := 0
	for _, i := range ssau.Ifs(fn) {
		if ssau.EnclosingLoopHeader(i.Block()) != H && i.Block() != H {
			continue
		}
		depAcc := ssau.DependsOn(i.Cond, func(x ssa.Value) bool { return x == ssa.Value(acc) || x == ssa.Value(add) })
		depVal := ssau.DependsOn(i.Cond, isOutputValue)
		if !depAcc || !depVal {
			continue
		}
		// which arm fails? the arm from which neither the loop header nor a success exit is reachable
		for _, arm := range []bool{true, false} {
			blk := ssau.Arm(i, arm)
			r := ssau.ReachFromBlock(fn, blk, nil)
			ec := &ssau.ExitClassifier{Fn: fn, Idx: 0}
			if !r.Block(H) && len(ec.SuccessExitsIn(r, ssau.NewCut())) == 0 {
				n++
				// the surviving arm is required
				cut.AddEdge(i.Block(), ssau.Arm(i, !arm))
			}
		}
	}
	if n == 0 {
		return false, "the running total is never tested against the addend inside the loop"
	}
	// the addition must follow a test in the same iteration: reachable from a surviving arm without re-entering the header
	_ = cut
	return true, fmt.Sprintf("checked running total (%d guarded overflow test arm(s))", n)
}

var outputsTable = map[string]string{
	"CoinBaseTransaction": "coinbase: exempt by the property text (its amounts are checked against subsidy+fees by C11)",
}

func runC01(c *Ctx) {
	c.R.Rule("A-outputs", "every CheckTransactionOutput implementation rejects, per element of Outputs(), a negative value (Value<0 / Value<=0 test whose failing arm cannot succeed and which no completed iteration bypasses), or forces len(Outputs())==0, or delegates to such a checker, or is tabled (coinbase)")
	c.R.Rule("O-fee", "DefaultChecker.SanityCheck (the only SanityCheck) reaches success only after a checked call of a function that sums Output.Value over Outputs() with an overflow test inside the loop guarding every addition; the unchecked sums in getTransactionFee/GetTxFeeMap are then exact because sanity precedes context on the mempool path (appendToTxPool) and the block path (CheckBlockSanity per transaction)")
	c.R.Rule("G1-fee", "in DefaultChecker.ContextCheck every success exit other than the SpecialContextCheck early exit passes a checked call of Transaction.CheckTransactionFee(references); every CheckTransactionFee implementation computes the fee with getTransactionFee(tx, references) and its success exits are guarded by a test of that fee")
	c.R.Rule("A-early", "a transaction type whose SpecialContextCheck can return (nil,true) (skipping the fee check) forces len(Inputs())==0 in CheckTransactionInput and len(Outputs())==0 (or one zero-valued output) in CheckTransactionOutput under the same stable guards, or is tabled")

	// A-outputs
	nOut := 0
	for _, t := range c.txTypesDeclaring("CheckTransactionOutput") {
		fn := c.P.Func(txpkg, t, "CheckTransactionOutput")
		nOut++
		if reason, ok := outputsTable[t]; ok {
			c.R.Exists("A-outputs", "outputs|"+t, true, c.pos(fn.Pos()), "tabled: "+reason)
			continue
		}
		cl, why := c.outputsClass(fn, 0)
		c.R.Check("A-outputs", "outputs|"+t, cl != "", c.pos(fn.Pos()), fmt.Sprintf("%s: %s %s", fname(fn), cl, why))
	}
	c.R.FloorCheck("A-outputs", nOut, 20)
	// no other SanityCheck
	sc := c.txTypesDeclaring("SanityCheck")
	c.R.Check("O-fee", "SanityCheck|single implementation", len(sc) == 1 && sc[0] == "DefaultChecker", "", fmt.Sprintf("types declaring SanityCheck: %v", sc))

	// O-fee
	san := c.fn(txpkg, "DefaultChecker", "SanityCheck")
	if san != nil {
		var sumFn *ssa.Function
		pred := func(cm *ssa.CallCommon) bool {
			g := cm.StaticCallee()
			if g == nil || g.Pkg != san.Pkg {
				return false
			}
			if ok, _ := c.isCheckedOutputSum(g); ok {
				sumFn = g
				return true
			}
			return false
		}
		c.G1s("O-fee", "SanityCheck|checked output total", san, "a checked output-total function", pred, G1Opt{})
		if sumFn != nil {
			_, why := c.isCheckedOutputSum(sumFn)
			c.R.Check("O-fee", "checked-sum|"+sumFn.Name(), true, c.pos(sumFn.Pos()), why)
			for _, call := range ssau.CallsIn(san, pred) {
				c.argIsField("O-fee", "SanityCheck|checked total arg=Transaction", call, 0, "TransactionParameters", "Transaction")
			}
		}
		c.G1s("O-fee", "SanityCheck|CheckTransactionOutput", san, "Transaction.CheckTransactionOutput", func(cm *ssa.CallCommon) bool {
			o := ssau.CalleeObj(cm)
			return o != nil && o.Name() == "CheckTransactionOutput"
		}, G1Opt{})
	}
	// unchecked accumulations in fee functions: recorded with their discharge reason
	for _, fr := range [][2]string{{txpkg, "getTransactionFee"}, {"blockchain", "GetTxFeeMap"}} {
		if f := c.fn(fr[0], "", fr[1]); f != nil {
			n := 0
			for _, b := range f.Blocks {
				for _, in := range b.Instrs {
					if bo, ok := in.(*ssa.BinOp); ok && bo.Op == token.ADD && ssau.TypeName(bo.Type()) == "Fixed64" {
						n++
					}
				}
			}
			c.R.Info("O-fee", "unchecked-sum|"+fr[1], c.pos(f.Pos()), fmt.Sprintf("%d unchecked Fixed64 additions; exact because the sanity check bounds the output total and inputs are previously accepted outputs", n))
		}
	}
	// sanity precedes context
	if ap := c.fn("mempool", "TxPool", "appendToTxPool"); ap != nil {
		sanPred := callPred(R{"blockchain", "BlockChain", "CheckTransactionSanity"})
		ctxPred := callPred(R{"blockchain", "BlockChain", "CheckTransactionContext"})
		c.G1s("O-fee", "appendToTxPool|CheckTransactionSanity", ap, "CheckTransactionSanity", sanPred, G1Opt{})
		c.G1s("O-fee", "appendToTxPool|CheckTransactionContext", ap, "CheckTransactionContext", ctxPred, G1Opt{})
		for _, call := range ssau.CallsIn(ap, ctxPred) {
			c.G2("O-fee", "appendToTxPool|sanity before context", ap, call, "CheckTransactionSanity(...) == nil", func(i *ssa.If) (bool, bool) {
				x, trueIsNil, ok := ssau.NilTest(i.Cond)
				if ok && ssau.IsCallTo(ssau.Unwrap(x), sanPred) {
					return true, trueIsNil
				}
				return false, false
			})
		}
	}
	if cbs := c.fn("blockchain", "BlockChain", "CheckBlockSanity"); cbs != nil {
		c.iterMustPass("O-fee", "CheckBlockSanity|per-tx sanity", cbs, "CheckTransactionSanity", callPred(R{"blockchain", "BlockChain", "CheckTransactionSanity"}), true)
	}

	// G1-fee
	cc := c.fn(txpkg, "DefaultChecker", "ContextCheck")
	feePred := func(cm *ssa.CallCommon) bool {
		o := ssau.CalleeObj(cm)
		return o != nil && o.Name() == "CheckTransactionFee"
	}
	if cc != nil {
		c.G1s("G1-fee", "ContextCheck|CheckTransactionFee", cc, "CheckTransactionFee", feePred, G1Opt{IgnoreExit: isSpecialDelegation})
		for _, call := range ssau.CallsIn(cc, feePred) {
			args := call.Common().Args
			ok := len(args) > 0 && ssau.IsCallTo(ssau.Unwrap(args[len(args)-1]), func(cm *ssa.CallCommon) bool {
				o := ssau.CalleeObj(cm)
				return o != nil && o.Name() == "GetTxReference"
			})
			c.R.Check("G1-fee", "ContextCheck|fee arg=references", ok, c.posOf(call), "CheckTransactionFee must receive the references from GetTxReference")
		}
	}
	c.contextCheckOverrides("G1-fee")
	gtf := callPred(R{txpkg, "", "getTransactionFee"})
	nFee := 0
	for _, t := range c.txTypesDeclaring("CheckTransactionFee") {
		fn := c.P.Func(txpkg, t, "CheckTransactionFee")
		nFee++
		calls := ssau.CallsIn(fn, gtf)
		if len(calls) != 1 {
			c.R.Check("G1-fee", "fee|"+t, false, c.pos(fn.Pos()), fmt.Sprintf("%d calls of getTransactionFee", len(calls)))
			continue
		}
		call := calls[0].(*ssa.Call)
		args := call.Call.Args
		okArgs := paramNamed(args[1], "references")
		c.R.Check("G1-fee", "fee|"+t+"|references", okArgs, c.posOf(call), "getTransactionFee must be applied to the references parameter")
		// success exits guarded by a test depending on the fee value
		c.GuardSuccess("G1-fee", "fee|"+t+"|tested", fn, "a test of the computed fee", func(i *ssa.If) (bool, bool) {
			if !ssau.DependsOn(i.Cond, func(x ssa.Value) bool { return x == ssa.Value(call) }) {
				return false, false
			}
			// the required arm is the one that can reach a success exit: identify the failing arm
			for _, arm := range []bool{true, false} {
				r := ssau.ReachFromBlock(fn, ssau.Arm(i, arm), nil)
				ec := &ssau.ExitClassifier{Fn: fn, Idx: 0}
				if len(ec.SuccessExitsIn(r, ssau.NewCut())) == 0 {
					return true, !arm
				}
			}
			return false, false
		}, G1Opt{})
	}
	c.R.FloorCheck("G1-fee", nFee, 2)
	// fee sufficiency atom of the default checker: fee < MinTransactionFee => reject
	if f := c.fn(txpkg, "DefaultChecker", "isSmallThanMinTransactionFee"); f != nil {
		syms := &Symbols{Int: func(v ssa.Value) (string, bool) {
			if paramNamed(v, "fee") {
				return "fee", true
			}
			if ssau.IsFieldOf(ssau.Unwrap(v), "Configuration", "MinTransactionFee") {
				return "min", true
			}
			return "", false
		}}
		c.Decision("G1-fee", "isSmallThanMinTransactionFee|table", f, syms, product(nil, map[string][]int64{"fee": {-1, 0, 1, 2, 3}, "min": {0, 2}}),
			func(e Env) bool { return e.I["fee"] < e.I["min"] }, G1Opt{BoolSuccess: true})
	}
	// getTransactionFee = sum(references) - sum(outputs)
	if f := c.fn(txpkg, "", "getTransactionFee"); f != nil {
		ok := false
		for _, ret := range ssau.Returns(f) {
			if bo, isb := ret.Results[0].(*ssa.BinOp); isb && bo.Op == token.SUB {
				in := ssau.DependsOn(bo.X, func(x ssa.Value) bool {
					n, ok := x.(*ssa.Next)
					if !ok {
						return false
					}
					rg, ok := n.Iter.(*ssa.Range)
					return ok && paramNamed(rg.X, "references")
				})
				out := ssau.DependsOn(bo.Y, func(x ssa.Value) bool { return methodCallNamed(x, "Outputs") })
				inOut := ssau.DependsOn(bo.X, func(x ssa.Value) bool { return methodCallNamed(x, "Outputs") })
				ok = in && out && !inOut
			}
		}
		c.R.Check("G1-fee", "getTransactionFee|inputs-outputs", ok, c.pos(f.Pos()), "returns (sum over references) - (sum over Outputs())")
	}

	// A-early for both collections
	c.earlyAccept("A-early", "Inputs", "CheckTransactionInput", "skips the fee check", 12)
	c.earlyAcceptOutputs()
	_ = types.Typ
}

func (c *Ctx) earlyAcceptOutputs() {
	c.earlyAcceptKeyed("A-early", "Outputs", "CheckTransactionOutput", "skips the fee check", 12, "early-out|")
}
