package props

import (
	"fmt"
	"go/constant"
	"go/token"
	"go/types"

	"elaverif/ssau"

	"golang.org/x/tools/go/ssa"
)

func init() {
	register(&Check{ID: "C11", Title: "Issuance follows the schedule", Run: runC11})
}

// outputField: v is coinbase.Outputs()[k].<field>
func outputField(v ssa.Value, k int64, field string) bool {
	v = ssau.Unwrap(v)
	u, ok := v.(*ssa.UnOp)
	if !ok || u.Op != token.MUL {
		return false
	}
	fa, ok := u.X.(*ssa.FieldAddr)
	if !ok || !ssau.IsFieldOf(fa, "Output", field) {
		return false
	}
	pl, ok := fa.X.(*ssa.UnOp)
	if !ok || pl.Op != token.MUL {
		return false
	}
	ia, ok := pl.X.(*ssa.IndexAddr)
	if !ok || !isConstInt(k)(ia.Index) {
		return false
	}
	return methodCallNamed(ia.X, "Outputs") && ssau.DependsOn(ia.X, func(y ssa.Value) bool { return paramNamed(y, "coinbase") })
}

func floatConstIs(v ssa.Value, f float64) bool {
	k, ok := v.(*ssa.Const)
	if !ok || k.Value == nil {
		return false
	}
	x, _ := constant.Float64Val(constant.ToFloat(k.Value))
	return x == f
}

func runC11(c *Ctx) {
	c.R.Rule("G-exact", "on the DPoS-v2 arm of checkCoinbaseTransactionContext (activeHeight != MaxUint32 && blockHeight > activeHeight+1) nil is returned only through: Outputs()[0].Value == ceil((totalTxFee+GetBlockReward(blockHeight))*0.3), Outputs()[1].Value == total - CR share - ceil(total*0.35), len(Outputs()) == 3, Outputs()[2].Value == dposReward, and the address equalities of outputs 0 and 2 with the configured CR-assets / DPoS-reward (or destroy) program hashes; the other arms are not reachable once v2 is active")
	c.R.Rule("G1-coinbase", "checkTxsContext returns nil only through a passed checkCoinbaseTransactionContext(block.Height, Transactions[0], sum of GetTxFee over every transaction from index 1, GetBlockDPOSReward(block)) or the historical Height < CheckRewardHeight tolerance arm; GetBlockDPOSReward is ceil((sum of fees + GetBlockReward(block.Height)) * 0.35)")
	c.R.Rule("T-schedule", "GetBlockReward selects the new schedule by height >= NewELAIssuanceHeight; in newRewardPerBlock the subtraction height-HalvingRewardHeight is guarded by height >= HalvingRewardHeight (no unsigned wrap, so the halving exponent is non-decreasing in height), the result is a quotient of non-negative constants by divisors that cannot be zero or negative (non-zero constants, math.Pow with a positive constant base), and the exponent grows with the halving count")

	cb := c.fn("blockchain", "BlockChain", "checkCoinbaseTransactionContext")
	if cb != nil {
		// region: the v2 arm
		base := ssau.NewCut()
		nsel := 0
		var v2If *ssa.If
		for _, i := range ssau.Ifs(cb) {
			b, ok := i.Cond.(*ssa.BinOp)
			if !ok {
				continue
			}
			isActive := func(v ssa.Value) bool { return methodCallNamed(ssau.Unwrap(v), "GetDPoSV2ActiveHeight") }
			if b.Op == token.NEQ && isActive(b.X) {
				if k, ok := b.Y.(*ssa.Const); ok && k.Uint64() == 4294967295 {
					base.AddEdge(i.Block(), ssau.Arm(i, false))
					nsel++
				}
			}
			if b.Op == token.GTR && paramNamed(b.X, "blockHeight") {
				if add, ok := b.Y.(*ssa.BinOp); ok && add.Op == token.ADD && isActive(add.X) && isConstInt(1)(add.Y) {
					base.AddEdge(i.Block(), ssau.Arm(i, false))
					v2If = i
					nsel++
				}
			}
		}
		c.R.Check("G-exact", "v2 arm selector", nsel == 2 && v2If != nil, c.pos(cb.Pos()), "the v2 arm is selected by activeHeight != MaxUint32 && blockHeight > activeHeight+1")
		if nsel == 2 {
			opt := G1Opt{Base: base}
			isTotal := func(v ssa.Value) bool {
				b, ok := ssau.Unwrap(v).(*ssa.BinOp)
				if !ok || b.Op != token.ADD {
					return false
				}
				rew := func(x ssa.Value) bool {
					cl, ok := ssau.Unwrap(x).(*ssa.Call)
					return ok && methodCallNamed(cl, "GetBlockReward") && paramNamed(cl.Call.Args[len(cl.Call.Args)-1], "blockHeight")
				}
				fee := func(x ssa.Value) bool { return paramNamed(x, "totalTxFee") }
				return (rew(b.X) && fee(b.Y)) || (rew(b.Y) && fee(b.X))
			}
			share := func(frac float64) func(ssa.Value) bool {
				return func(v ssa.Value) bool {
					cv, ok := v.(*ssa.Convert)
					if !ok {
						return false
					}
					cl := staticCalleeNamed(cv.X, "math.Ceil")
					if cl == nil {
						return false
					}
					m, ok := cl.Call.Args[0].(*ssa.BinOp)
					if !ok || m.Op != token.MUL {
						return false
					}
					tot := func(x ssa.Value) bool {
						cx, ok := x.(*ssa.Convert)
						return ok && isTotal(cx.X)
					}
					return (tot(m.X) && floatConstIs(m.Y, frac)) || (tot(m.Y) && floatConstIs(m.X, frac))
				}
			}
			isMiner := func(v ssa.Value) bool {
				// total - cr - dpos (either order of the two subtractions)
				s2, ok := ssau.Unwrap(v).(*ssa.BinOp)
				if !ok || s2.Op != token.SUB {
					return false
				}
				s1, ok := ssau.Unwrap(s2.X).(*ssa.BinOp)
				if !ok || s1.Op != token.SUB || !isTotal(s1.X) {
					return false
				}
				a, b := s1.Y, s2.Y
				return (share(0.3)(a) && share(0.35)(b)) || (share(0.35)(a) && share(0.3)(b))
			}
			val := func(k int64) func(ssa.Value) bool {
				return func(v ssa.Value) bool { return outputField(v, k, "Value") }
			}
			c.GuardSuccess("G-exact", "v2|CR share", cb, "Outputs()[0].Value == ceil(total*0.3)", condCmp(val(0), viaHelperResult(share(0.3)), token.EQL, true), opt)
			c.GuardSuccess("G-exact", "v2|miner share", cb, "Outputs()[1].Value == total - ceil(total*0.3) - ceil(total*0.35)", condCmp(val(1), viaHelperResult(isMiner), token.EQL, true), opt)
			c.GuardSuccess("G-exact", "v2|exactly three outputs", cb, "len(Outputs()) == 3", condCmp(func(v ssa.Value) bool {
				return isLenOf(func(x ssa.Value) bool {
					return methodCallNamed(x, "Outputs") && ssau.DependsOn(x, func(y ssa.Value) bool { return paramNamed(y, "coinbase") })
				})(ssau.Unwrap(v))
			}, isConstInt(3), token.EQL, true), opt)
			c.GuardSuccess("G-exact", "v2|DPoS share", cb, "Outputs()[2].Value == dposReward", condCmp(val(2), func(v ssa.Value) bool { return paramNamed(v, "dposReward") }, token.EQL, true), opt)
			addr := func(k int64, fields ...string) IfArm {
				return func(i *ssa.If) (bool, bool) {
					x, neg := ssau.StripNot(i.Cond)
					cl, ok := x.(*ssa.Call)
					if !ok || !methodCallNamed(cl, "IsEqual") || len(cl.Call.Args) != 2 {
						return false, false
					}
					a, b := cl.Call.Args[0], cl.Call.Args[1]
					cfg := func(v ssa.Value) bool {
						for _, f := range fields {
							if ssau.DependsOn(v, func(y ssa.Value) bool { return ssau.IsFieldOf(y, "", f) }) {
								return true
							}
						}
						return false
					}
					if (outputField(a, k, "ProgramHash") && cfg(b)) || (outputField(b, k, "ProgramHash") && cfg(a)) {
						return true, !neg
					}
					return false, false
				}
			}
			c.GuardSuccess("G-exact", "v2|CR address", cb, "Outputs()[0].ProgramHash == CRAssetsProgramHash (DestroyELAProgramHash under POW)", addr(0, "CRAssetsProgramHash", "DestroyELAProgramHash"), opt)
			c.GuardSuccess("G-exact", "v2|DPoS address", cb, "Outputs()[2].ProgramHash == DPoSV2RewardAccumulateProgramHash (DestroyELAProgramHash under POW)", addr(2, "DPoSV2RewardAccumulateProgramHash", "DestroyELAProgramHash"), opt)
			// which configured hash applies is selected by the consensus algorithm only
			// the CR-assets address is required on the non-POW arm: cutting the POW arm too, success still needs the CRAssets equality
			powCut := base.Clone()
			np := 0
			for _, i := range ssau.Ifs(cb) {
				if b, ok := i.Cond.(*ssa.BinOp); ok && b.Op == token.EQL && methodCallNamed(ssau.Unwrap(b.X), "GetConsensusAlgorithm") {
					if k, ok := constVal64(b.Y); ok {
						if pv, ok2 := c.constVal("dpos/state", "POW"); ok2 && pv == k {
							powCut.AddEdge(i.Block(), ssau.Arm(i, true))
							np++
						}
					}
				}
			}
			if np == 1 {
				c.GuardSuccess("G-exact", "v2|DPoS consensus pays the CR assets address", cb, "Outputs()[0].ProgramHash == CRAssetsProgramHash", addr(0, "CRAssetsProgramHash"), G1Opt{Base: powCut})
				c.GuardSuccess("G-exact", "v2|DPoS consensus pays the reward accumulate address", cb, "Outputs()[2].ProgramHash == DPoSV2RewardAccumulateProgramHash", addr(2, "DPoSV2RewardAccumulateProgramHash"), G1Opt{Base: powCut})
			} else {
				c.R.Check("G-exact", "v2|consensus selector", false, c.pos(cb.Pos()), "no GetConsensusAlgorithm() == POW branch found on the v2 arm")
			}
			// the v2 arm never falls through to the legacy checks
			cutTrue := ssau.NewCut()
			cutTrue.AddEdge(v2If.Block(), ssau.Arm(v2If, false))
			for _, i := range ssau.Ifs(cb) {
				if b, ok := i.Cond.(*ssa.BinOp); ok && b.Op == token.NEQ && methodCallNamed(ssau.Unwrap(b.X), "GetDPoSV2ActiveHeight") {
					cutTrue.AddEdge(i.Block(), ssau.Arm(i, false))
				}
			}
			r := ssau.ReachFromEntry(cb, cutTrue)
			legacy := false
			for _, i := range ssau.Ifs(cb) {
				if b, ok := i.Cond.(*ssa.BinOp); ok && b.Op == token.GEQ && paramNamed(b.X, "blockHeight") && fieldIs("Configuration", "PublicDPOSHeight")(b.Y) && r.Instr(i) {
					legacy = true
				}
			}
			c.R.Check("G-exact", "v2|no fall-through to the legacy reward checks", !legacy, c.pos(cb.Pos()), "every path of the v2 arm returns before the pre-v2 checks")
		}
	}

	// G1-coinbase
	tc := c.fn("blockchain", "BlockChain", "checkTxsContext")
	cbP := callPred(R{"blockchain", "BlockChain", "checkCoinbaseTransactionContext"})
	if tc != nil {
		calls := ssau.CallsIn(tc, cbP)
		c.R.Check("G1-coinbase", "checkTxsContext|calls the coinbase check", len(calls) == 1, c.pos(tc.Pos()), fmt.Sprintf("%d call(s)", len(calls)))
		if len(calls) == 1 {
			c.GuardSuccess("G1-coinbase", "checkTxsContext|success needs a passed coinbase check", tc, "checkCoinbaseTransactionContext == nil or Height < CheckRewardHeight", func(i *ssa.If) (bool, bool) {
				if m, arm := nilArm(cbP)(i); m {
					return m, arm
				}
				return condCmp(fieldIs("Header", "Height"), fieldIs("Configuration", "CheckRewardHeight"), token.LSS, true)(i)
			}, G1Opt{})
			a := calls[0].Common().Args
			// receiver, height, coinbase, totalTxFee, dposReward
			c.R.Check("G1-coinbase", "checkTxsContext|height argument", fieldIs("Header", "Height")(a[1]), c.posOf(calls[0]), "blockHeight = block.Height")
			tx0 := false
			if u, ok := ssau.Unwrap(a[2]).(*ssa.UnOp); ok {
				if ia, ok := u.X.(*ssa.IndexAddr); ok && isConstInt(0)(ia.Index) && fieldIs("Block", "Transactions")(ia.X) {
					tx0 = true
				}
			}
			c.R.Check("G1-coinbase", "checkTxsContext|coinbase argument", tx0, c.posOf(calls[0]), "coinbase = block.Transactions[0]")
			feeOK := ssau.DependsOn(a[3], func(y ssa.Value) bool {
				return ssau.IsCallTo(y, callPred(R{"blockchain", "", "GetTxFee"}))
			})
			// the fee loop starts at 1 and steps by 1 to len(Transactions)
			loopOK := false
			for _, i := range ssau.Ifs(tc) {
				b, ok := i.Cond.(*ssa.BinOp)
				if !ok || b.Op != token.LSS || !isLenOf(fieldIs("Block", "Transactions"))(b.Y) {
					continue
				}
				if phi, ok := b.X.(*ssa.Phi); ok {
					s1, st := false, false
					for _, e := range phi.Edges {
						if isConstInt(1)(e) {
							s1 = true
						}
						if add, ok := e.(*ssa.BinOp); ok && add.Op == token.ADD && add.X == ssa.Value(phi) && isConstInt(1)(add.Y) {
							st = true
						}
					}
					loopOK = s1 && st
				}
			}
			// no iteration skips the accumulation: GetTxFee call is reached on every completed iteration
			c.R.Check("G1-coinbase", "checkTxsContext|fee total covers every non-coinbase transaction", feeOK && loopOK, c.posOf(calls[0]), "totalTxFee accumulates GetTxFee in a loop from index 1 to len(Transactions)")
			c.iterMustPass("G1-coinbase", "checkTxsContext|fee accumulated on every iteration", tc, "GetTxFee", callPred(R{"blockchain", "", "GetTxFee"}), true)
			c.R.Check("G1-coinbase", "checkTxsContext|dposReward argument", ssau.IsCallTo(ssau.Unwrap(a[4]), callPred(R{"blockchain", "BlockChain", "GetBlockDPOSReward"})), c.posOf(calls[0]), "dposReward = GetBlockDPOSReward(block)")
		}
	}
	if g := c.fn("blockchain", "BlockChain", "GetBlockDPOSReward"); g != nil {
		ok := false
		for _, ret := range ssau.Returns(g) {
			cv, isC := ret.Results[0].(*ssa.Convert)
			if !isC {
				continue
			}
			cl := staticCalleeNamed(cv.X, "math.Ceil")
			if cl == nil {
				continue
			}
			m, isM := cl.Call.Args[0].(*ssa.BinOp)
			if !isM || m.Op != token.MUL || !(floatConstIs(m.Y, 0.35) || floatConstIs(m.X, 0.35)) {
				continue
			}
			dep := func(p func(ssa.Value) bool) bool { return ssau.DependsOn(m, p) }
			ok = dep(func(y ssa.Value) bool { return methodCallNamed(y, "Fee") }) &&
				dep(func(y ssa.Value) bool {
					cl, isCall := y.(*ssa.Call)
					return isCall && methodCallNamed(cl, "GetBlockReward") && fieldIs("Header", "Height")(cl.Call.Args[len(cl.Call.Args)-1])
				}) && rangesWholeField(g, "Transactions")
		}
		c.R.Check("G1-coinbase", "GetBlockDPOSReward|ceil((fees + subsidy(block.Height)) * 0.35)", ok, c.pos(g.Pos()), "the DPoS share is 35% (rounded up) of all fees of the block plus the subsidy at the block's height")
	}

	// T-schedule
	if g := c.fn("common/config", "Configuration", "GetBlockReward"); g != nil {
		newP := callPred(R{"common/config", "Configuration", "newRewardPerBlock"})
		calls := ssau.CallsIn(g, newP)
		ok := len(calls) == 1
		if ok {
			ok = c.G2("T-schedule", "GetBlockReward|new schedule from NewELAIssuanceHeight", g, calls[0], "height >= NewELAIssuanceHeight", condCmp(func(v ssa.Value) bool { return paramNamed(v, "height") }, fieldIs("Configuration", "NewELAIssuanceHeight"), token.GEQ, true))
			c.R.Check("T-schedule", "GetBlockReward|height passed on", paramNamed(calls[0].Common().Args[len(calls[0].Common().Args)-1], "height"), c.posOf(calls[0]), "newRewardPerBlock receives the queried height")
			// the old schedule is not reachable at or above the switch height
			var old ssa.Instruction
			for _, b := range g.Blocks {
				for _, in := range b.Instrs {
					if u, ok := in.(*ssa.UnOp); ok && u.Op == token.MUL && ssau.IsFieldOf(u, "PowConfiguration", "RewardPerBlock") {
						old = in
					}
				}
			}
			if old != nil {
				c.G2("T-schedule", "GetBlockReward|old schedule only below NewELAIssuanceHeight", g, old, "height < NewELAIssuanceHeight", condCmp(func(v ssa.Value) bool { return paramNamed(v, "height") }, fieldIs("Configuration", "NewELAIssuanceHeight"), token.LSS, true))
			}
		} else {
			c.R.Check("T-schedule", "GetBlockReward|new schedule call", false, c.pos(g.Pos()), "no call of newRewardPerBlock")
		}
	}
	if g := c.fn("common/config", "Configuration", "newRewardPerBlock"); g != nil {
		isH := func(v ssa.Value) bool { return paramNamed(v, "height") }
		n := 0
		// the halving count may be computed in a small helper of the same package (its parameters stand for the arguments)
		type scoped struct {
			f   *ssa.Function
			via *ssa.Call
		}
		scope := []scoped{{g, nil}}
		for _, b := range g.Blocks {
			for _, in := range b.Instrs {
				if cl, ok := in.(*ssa.Call); ok {
					if h := cl.Call.StaticCallee(); h != nil && h.Pkg == g.Pkg && h != g && len(h.Blocks) > 0 && len(h.Blocks) <= 12 {
						scope = append(scope, scoped{h, cl})
					}
				}
			}
		}
		inScope := func(sc scoped, f func()) {
			if sc.via != nil {
				ssau.WithParamSubst(sc.via, f)
				return
			}
			f()
		}
		for _, sc := range scope {
			sc := sc
			inScope(sc, func() {
				for _, b := range sc.f.Blocks {
					for _, in := range b.Instrs {
						bo, ok := in.(*ssa.BinOp)
						if !ok || bo.Op != token.SUB {
							continue
						}
						if isH(bo.X) && fieldIs("Configuration", "HalvingRewardHeight")(bo.Y) {
							n++
							c.G2("T-schedule", "newRewardPerBlock|height-HalvingRewardHeight cannot wrap", sc.f, in, "height >= HalvingRewardHeight", condCmp(isH, fieldIs("Configuration", "HalvingRewardHeight"), token.GEQ, true))
						}
					}
				}
			})
		}
		c.R.FloorCheck("T-schedule halving subtraction sites", n, 1)
		// result: Convert(float) of a quotient chain with positive divisors
		for k, ret := range ssau.Returns(g) {
			key := fmt.Sprintf("newRewardPerBlock|return#%d non-negative quotient", k+1)
			cv, ok := ret.Results[0].(*ssa.Convert)
			if !ok {
				c.R.Check("T-schedule", key, false, c.posOf(ret), "the result is not a conversion of a float quotient")
				continue
			}
			ok, why := c.positiveQuotient(cv.X, g, 0)
			c.R.Check("T-schedule", key, ok, c.posOf(ret), why)
			// exponent depends on height through the halving factor
			expDep := ssau.DependsOn(cv.X, isH) && ssau.DependsOn(cv.X, fieldIs("Configuration", "HalvingRewardInterval")) && ssau.DependsOn(cv.X, fieldIs("Configuration", "HalvingRewardHeight"))
			c.R.Check("T-schedule", fmt.Sprintf("newRewardPerBlock|return#%d halving divisor follows height", k+1), expDep, c.posOf(ret), "the divisor depends on (height-HalvingRewardHeight)/HalvingRewardInterval")
		}
		// the exponent is factor-1 where factor is a phi of 1 and 2 + quotient: non-decreasing pieces
		okPhi := false
		pieces := func(vals []ssa.Value) {
			one, grow := false, false
			for _, e := range vals {
				if isConstInt(1)(e) {
					one = true
				}
				if add, ok := e.(*ssa.BinOp); ok && add.Op == token.ADD {
					var q ssa.Value
					if isConstInt(2)(add.X) {
						q = add.Y
					} else if isConstInt(2)(add.Y) {
						q = add.X
					}
					if quo, ok := q.(*ssa.BinOp); ok && quo.Op == token.QUO && fieldIs("Configuration", "HalvingRewardInterval")(quo.Y) {
						if sub, ok := quo.X.(*ssa.BinOp); ok && sub.Op == token.SUB && isH(sub.X) {
							grow = true
						}
					}
				}
			}
			if one && grow {
				okPhi = true
			}
		}
		for _, sc := range scope {
			sc := sc
			inScope(sc, func() {
				for _, b := range sc.f.Blocks {
					for _, in := range b.Instrs {
						if phi, ok := in.(*ssa.Phi); ok {
							pieces(phi.Edges)
						}
					}
				}
				if sc.via != nil {
					// the helper's returns are the pieces
					var vals []ssa.Value
					for _, ret := range ssau.Returns(sc.f) {
						if len(ret.Results) == 1 {
							vals = append(vals, ret.Results[0])
						}
					}
					pieces(vals)
				}
			})
		}
		c.R.Check("T-schedule", "newRewardPerBlock|halving count is 1 below the halving height and 2+(height-H)/I from it", okPhi, c.pos(g.Pos()), "factor is non-decreasing in height: constant 1, then 2 plus a floor quotient of a non-wrapping difference")
	}
}

func constVal64(v ssa.Value) (int64, bool) {
	k, ok := v.(*ssa.Const)
	if !ok {
		return 0, false
	}
	return constInt(k)
}

// constIntOf evaluates an integer expression built from constants, arithmetic, conversions and parameters that
// every node caller binds to the same constant.
func (c *Ctx) constIntOf(v ssa.Value, fn *ssa.Function, depth int) (int64, bool) {
	if depth > 8 {
		return 0, false
	}
	switch x := v.(type) {
	case *ssa.Const:
		return constInt(x)
	case *ssa.ChangeType:
		return c.constIntOf(x.X, fn, depth+1)
	case *ssa.Convert:
		if bt, ok := x.Type().Underlying().(*types.Basic); ok && bt.Info()&types.IsInteger != 0 {
			return c.constIntOf(x.X, fn, depth+1)
		}
	case *ssa.BinOp:
		a, ok1 := c.constIntOf(x.X, fn, depth+1)
		b, ok2 := c.constIntOf(x.Y, fn, depth+1)
		if !ok1 || !ok2 {
			return 0, false
		}
		switch x.Op {
		case token.ADD:
			return a + b, true
		case token.SUB:
			return a - b, true
		case token.MUL:
			return a * b, true
		case token.QUO:
			if b == 0 {
				return 0, false
			}
			return a / b, true
		}
	case *ssa.UnOp:
		// package variable assigned exactly once, in the package initialiser, to a constant expression
		g, ok := x.X.(*ssa.Global)
		if !ok || x.Op != token.MUL {
			return 0, false
		}
		var st *ssa.Store
		var in *ssa.Function
		n := 0
		for f := range c.P.AllFuncs() {
			for _, b := range f.Blocks {
				for _, ins := range b.Instrs {
					if s, ok := ins.(*ssa.Store); ok && s.Addr == ssa.Value(g) {
						st, in = s, f
						n++
					}
				}
			}
		}
		if n != 1 || in.Name() != "init" {
			return 0, false
		}
		return c.constIntOf(st.Val, in, depth+1)
	case *ssa.Parameter:
		idx := -1
		for k, p := range fn.Params {
			if p == x {
				idx = k
			}
		}
		var val int64
		n := 0
		for caller, sites := range c.staticCallers(fn) {
			if c.isTestFn(caller) {
				continue
			}
			for _, s := range sites {
				k, ok := c.constIntOf(s.Common().Args[idx], caller, depth+1)
				if !ok || (n > 0 && k != val) {
					return 0, false
				}
				val = k
				n++
			}
		}
		return val, n > 0
	}
	return 0, false
}

// positiveQuotient: v is built only from positive constants, conversions and divisions whose divisors are
// provably > 0 (positive constant expression, math.Pow(positive constant, x), a package variable only ever
// initialised to a positive constant).
func (c *Ctx) positiveQuotient(v ssa.Value, fn *ssa.Function, depth int) (bool, string) {
	if depth > 8 {
		return false, "expression too deep"
	}
	if bt, ok := v.Type().Underlying().(*types.Basic); ok && bt.Info()&types.IsInteger != 0 {
		if k, ok := c.constIntOf(v, fn, 0); ok {
			if k > 0 {
				return true, fmt.Sprintf("integer constant expression = %d", k)
			}
			return false, fmt.Sprintf("integer expression evaluates to %d", k)
		}
	}
	switch x := v.(type) {
	case *ssa.Const:
		if x.Value != nil && constant.Sign(constant.ToFloat(x.Value)) > 0 {
			return true, "positive constant"
		}
		return false, "non-positive constant " + x.String()
	case *ssa.Convert:
		if bt, ok := x.Type().Underlying().(*types.Basic); ok && bt.Info()&types.IsFloat != 0 {
			return c.positiveQuotient(x.X, fn, depth+1)
		}
		return false, "conversion to " + x.Type().String() + " inside the quotient"
	case *ssa.UnOp:
		return false, "load of a location that is not a once-initialised package constant"
	case *ssa.BinOp:
		switch x.Op {
		case token.QUO, token.MUL:
			if bt, ok := x.Type().Underlying().(*types.Basic); ok && bt.Info()&types.IsFloat != 0 {
				if ok, why := c.positiveQuotient(x.X, fn, depth+1); !ok {
					return false, why
				}
				return c.positiveQuotient(x.Y, fn, depth+1)
			}
		}
		if x.Op == token.SHL {
			// a positive constant shifted by an amount that a dominating comparison bounds below the word size
			if ok, _ := c.positiveQuotient(x.X, fn, depth+1); ok {
				amt := x.Y
				if cv, isC := amt.(*ssa.Convert); isC {
					amt = cv.X
				}
				cut := ssau.NewCut()
				n := 0
				for _, i := range ssau.Ifs(fn) {
					if m, arm := condCmp(func(v ssa.Value) bool { return v == amt || v == x.Y }, func(v ssa.Value) bool {
						k, ok := constVal64(v)
						return ok && k >= 1 && k <= 63
					}, token.LSS, true)(i); m {
						cut.AddEdge(i.Block(), ssau.Arm(i, arm))
						n++
					}
				}
				if n > 0 && !ssau.ReachFromEntry(fn, cut).Instr(x) {
					return true, "positive constant shifted by an amount bounded below 64"
				}
			}
		}
		return false, "operator " + x.Op.String() + " on " + x.Type().String() + " may yield zero or a negative divisor (e.g. an integer shift or quotient of unbounded operands)"
	case *ssa.Call:
		if cl := staticCalleeNamed(x, "math.Pow"); cl != nil {
			if k, ok := cl.Call.Args[0].(*ssa.Const); ok && k.Value != nil && constant.Sign(constant.ToFloat(k.Value)) > 0 {
				return true, "math.Pow with positive constant base"
			}
		}
		return false, "call " + x.Call.Value.String() + " is not known to be positive"
	}
	return false, fmt.Sprintf("%T is not known to be positive", v)
}
