package props

import (
	"fmt"
	"go/token"
	"go/types"
	"sort"
	"strings"

	"elaverif/core"
	"elaverif/ssau"

	"golang.org/x/tools/go/ssa"
)

func init() {
	register(&Check{ID: "C34", Title: "The mempool stays consistent and conflict-free", Run: runC34})
}

// nilArm matches `if <call matched by pred> != nil` (any result of the call) and requires the nil arm.
func nilArm(pred func(*ssa.CallCommon) bool) IfArm {
	return func(i *ssa.If) (bool, bool) {
		x, trueIsNil, ok := ssau.NilTest(i.Cond)
		if ok && ssau.IsCallTo(ssau.Unwrap(x), pred) {
			return true, trueIsNil
		}
		return false, false
	}
}

// mapWrites lists the inserts (MapUpdate) and deletes (builtin delete) on maps that satisfy isMap in fn.
func mapWrites(fn *ssa.Function, isMap func(ssa.Value) bool) (ins []ssa.Instruction, del []ssa.Instruction) {
	for _, b := range fn.Blocks {
		for _, in := range b.Instrs {
			switch x := in.(type) {
			case *ssa.MapUpdate:
				if isMap(x.Map) {
					ins = append(ins, in)
				}
			case *ssa.Call:
				if bi, ok := x.Call.Value.(*ssa.Builtin); ok && bi.Name() == "delete" && isMap(x.Call.Args[0]) {
					del = append(del, in)
				}
			}
		}
	}
	return
}

// throughWithout: is there an entry->exit path of fn that executes `at` and none of the calls matched by pred
// (optionally also avoiding the edges in base)?
func throughWithout(fn *ssa.Function, at ssa.Instruction, pred func(*ssa.CallCommon) bool, base *ssau.Cut) bool {
	cut := ssau.NewCut()
	if base != nil {
		cut = base.Clone()
	}
	for _, ci := range ssau.CallsIn(fn, pred) {
		cut.AddInstr(ci)
	}
	if !ssau.ReachFromEntry(fn, cut).Instr(at) {
		return false
	}
	after := ssau.ReachAfter(fn, at, cut)
	for _, ret := range ssau.Returns(fn) {
		if after.Instr(ret) {
			return true
		}
	}
	return false
}

func runC34(c *Ctx) {
	const mp = "mempool"
	c.R.Rule("G2-admit", "TxPool.appendToTxPool reaches the insertion (doAddTransaction) only through: pool lookup of the hash absent, CheckTransactionSanity == nil, CheckTransactionContext == nil, verifyTransactionWithTxnPool == nil (whose success exits pass conflictManager.VerifyTx), OverSize == false and conflictManager.AppendTx == nil; VerifyTx/AppendTx/removeTx visit every conflict slot")
	c.R.Rule("G3-undo", "after conflictManager.AppendTx succeeded in appendToTxPool, every return that is not preceded by a successful doAddTransaction passes removeTx (no slot entry without a pooled transaction)")
	c.R.Rule("U-coupdate", "every function that inserts into TxPool.txnList also (on every path through the insert) performed a checked txFees.AddTx and the proposal-budget increment (except on the !IsCRCProposalTx arm), and all its callers registered the conflict keys first; every function that deletes from txnList also (on every path through the delete) calls removeTx, the proposal-budget decrement (same exception) and txFees.RemoveTx unless it is the fee list's own pop-back callback; budget increment and decrement are mirror images")
	c.R.Rule("U-size", "every function that changes txFeeOrderedList.list also adjusts totalSize, or every caller does right after the call; AddTx returns success only with the list within maxSize (loop exit tests OverSize) ")
	c.R.Rule("A-slot", "conflictSlot.VerifyTx, appendKey, removeKey, Contains and GetTx use the same set per key kind; VerifyTx/AppendTx/RemoveTx select the key function through getKeyFromTx and dispatch on the slot's keyType; VerifyTx's per-key callbacks fail when the key is present")
	c.R.Rule("A-key", "a conflict key function that derives a stake address agrees with the state processor of the same payload on where the identifying code comes from (payload.Code under the V0 payload version vs. the transaction program)")
	c.R.Rule("L-lock", "every exported *TxPool method that touches the pool's maps/indexes (directly or through unexported helpers) takes the pool lock first; no other package calls the promoted, lock-free conflictManager methods on a TxPool except under the rule's table")

	isTxnList := fieldIs("txPoolCheckpoint", "txnList")
	ap := c.fn(mp, "TxPool", "appendToTxPool")
	doAdd := c.fn(mp, "TxPool", "doAddTransaction")
	addP := callPred(R{mp, "TxPool", "doAddTransaction"})
	appendP := callPred(R{mp, "conflictManager", "AppendTx"})
	removeP := callPred(R{mp, "conflictManager", "removeTx"})
	if ap != nil {
		add := firstCall(ap, addP)
		if add == nil {
			c.R.Check("G2-admit", "appendToTxPool|insert site", false, c.pos(ap.Pos()), "no call of doAddTransaction")
		} else {
			c.G2("G2-admit", "appendToTxPool|duplicate hash rejected", ap, add, "txnList[hash] absent", lookupAbsent(isTxnList))
			for _, need := range []struct {
				name string
				p    func(*ssa.CallCommon) bool
			}{
				{"CheckTransactionSanity", callPred(R{"blockchain", "BlockChain", "CheckTransactionSanity"})},
				{"CheckTransactionContext", callPred(R{"blockchain", "BlockChain", "CheckTransactionContext"})},
				{"verifyTransactionWithTxnPool", callPred(R{mp, "TxPool", "verifyTransactionWithTxnPool"})},
				{"AppendTx", appendP},
			} {
				c.G2("G2-admit", "appendToTxPool|"+need.name+" == nil", ap, add, need.name+" == nil", nilArm(need.p))
			}
			c.G2("G2-admit", "appendToTxPool|OverSize == false", ap, add, "txFees.OverSize(size) == false", condCall(callPred(R{mp, "txFeeOrderedList", "OverSize"}), false))
			// the size tested is the transaction's size
			okSize := false
			for _, ci := range ssau.CallsIn(ap, callPred(R{mp, "txFeeOrderedList", "OverSize"})) {
				okSize = ssau.DependsOn(ci.Common().Args[len(ci.Common().Args)-1], func(v ssa.Value) bool { return methodCallNamed(v, "GetSize") })
			}
			c.R.Check("G2-admit", "appendToTxPool|OverSize(tx.GetSize())", okSize, c.posOf(add), "the capacity test is made with the candidate's own size")

			// G3: after AppendTx success, a return without doAddTransaction success passes removeTx
			apps := ssau.CallsIn(ap, appendP)
			for k, a := range apps {
				cut := ssau.NewCut()
				// leave through the nil arm of AppendTx only
				for _, i := range ssau.Ifs(ap) {
					if m, arm := nilArm(appendP)(i); m {
						cut.AddEdge(i.Block(), ssau.Arm(i, !arm))
					}
					// success of doAddTransaction ends the obligation
					if m, arm := nilArm(addP)(i); m {
						cut.AddEdge(i.Block(), ssau.Arm(i, arm))
					}
				}
				for _, ci := range ssau.CallsIn(ap, removeP) {
					cut.AddInstr(ci)
				}
				r := ssau.ReachAfter(ap, a, cut)
				bad := ""
				for _, ret := range ssau.Returns(ap) {
					if r.Instr(ret) {
						bad = c.posOf(ret)
					}
				}
				det := "every exit between a successful AppendTx and a successful doAddTransaction passes removeTx"
				if bad != "" {
					det = fmt.Sprintf("return at %s leaves the conflict keys of a transaction that was not pooled", bad)
				}
				c.R.Check("G3-undo", fmt.Sprintf("appendToTxPool|AppendTx#%d", k+1), bad == "", c.posOf(a), det)
			}
			c.R.FloorCheck("G3 AppendTx sites in appendToTxPool", len(apps), 1)
		}
	}
	if v := c.fn(mp, "TxPool", "verifyTransactionWithTxnPool"); v != nil {
		c.G1s("G2-admit", "verifyTransactionWithTxnPool|VerifyTx", v, "conflictManager.VerifyTx", callPred(R{mp, "conflictManager", "VerifyTx"}), G1Opt{})
	}
	for _, m := range []struct{ name, slot string }{{"VerifyTx", "VerifyTx"}, {"AppendTx", "AppendTx"}, {"removeTx", "RemoveTx"}} {
		f := c.fn(mp, "conflictManager", m.name)
		if f == nil {
			continue
		}
		c.iterMustPass("G2-admit", "conflictManager."+m.name+"|every slot", f, "slot."+m.slot, callPred(R{mp, "conflictSlot", m.slot}), true)
		c.R.Check("G2-admit", "conflictManager."+m.name+"|ranges over conflictSlots", rangesWholeField(f, "conflictSlots"), c.pos(f.Pos()), "the loop ranges over the whole conflictSlots slice")
	}

	// ---- U-coupdate
	var inserters, deleters []*ssa.Function
	insAt := map[*ssa.Function][]ssa.Instruction{}
	delAt := map[*ssa.Function][]ssa.Instruction{}
	for _, f := range c.pkgFuncs("mempool") {
		ins, del := mapWrites(f, isTxnList)
		if len(ins) > 0 {
			inserters = append(inserters, f)
			insAt[f] = ins
		}
		if len(del) > 0 {
			deleters = append(deleters, f)
			delAt[f] = del
		}
	}
	sort.Slice(inserters, func(i, j int) bool { return fname(inserters[i]) < fname(inserters[j]) })
	sort.Slice(deleters, func(i, j int) bool { return fname(deleters[i]) < fname(deleters[j]) })
	c.R.FloorCheck("U txnList inserters", len(inserters), 1)
	c.R.FloorCheck("U txnList deleters", len(deleters), 2)
	notProposalArm := func(fn *ssa.Function) *ssau.Cut {
		cut := ssau.NewCut()
		for _, i := range ssau.Ifs(fn) {
			x, neg := ssau.StripNot(i.Cond)
			if methodCallNamed(x, "IsCRCProposalTx") {
				// paths through the "not a proposal" arm owe nothing
				cut.AddEdge(i.Block(), ssau.Arm(i, neg))
			}
		}
		return cut
	}
	feeAdd := callPred(R{mp, "txFeeOrderedList", "AddTx"})
	feeRemove := callPred(R{mp, "txFeeOrderedList", "RemoveTx"})
	budgetAdd := callPred(R{mp, "TxPool", "dealAddProposalTx"})
	budgetDel := callPred(R{mp, "TxPool", "dealDelProposalTx"})
	for _, f := range inserters {
		for k, in := range insAt[f] {
			key := fmt.Sprintf("%s|insert#%d", short(fname(f)), k+1)
			c.G2("U-coupdate", key+"|txFees.AddTx == nil", f, in, "txFees.AddTx(tx) == nil", nilArm(feeAdd))
			c.R.Check("U-coupdate", key+"|budget increment", !throughWithout(f, in, budgetAdd, notProposalArm(f)), c.posOf(in), "every path through the insert calls dealAddProposalTx unless the transaction is not a CRC proposal")
		}
		callers := c.staticCallers(f)
		n := 0
		for caller, sites := range callers {
			if c.isTestFn(caller) {
				continue
			}
			for _, s := range sites {
				n++
				c.G2("U-coupdate", fmt.Sprintf("%s|caller %s registers conflict keys first", short(fname(f)), short(fname(caller))), caller, s, "conflictManager.AppendTx(tx) == nil", nilArm(appendP))
			}
		}
		c.R.Check("U-coupdate", short(fname(f))+"|has callers", n >= 1, c.pos(f.Pos()), fmt.Sprintf("%d static call site(s) of the inserting function", n))
	}
	// the pop-back callback of the fee list
	popBackFns := map[*ssa.Function]bool{}
	for _, f := range c.pkgFuncs("mempool") {
		for _, ci := range ssau.CallsIn(f, callPred(R{mp, "", "newTxFeeOrderedList"})) {
			a := ssau.Unwrap(ci.Common().Args[0])
			if mc, ok := a.(*ssa.MakeClosure); ok {
				if bound, ok := mc.Fn.(*ssa.Function); ok {
					// bound method closure: TxPool.onPopBack$bound
					name := strings.TrimSuffix(bound.Name(), "$bound")
					if g := c.fn(mp, "TxPool", name); g != nil {
						popBackFns[g] = true
					}
				}
			}
		}
	}
	c.R.Check("U-coupdate", "pop-back callback wired", len(popBackFns) == 1, "mempool/txpoolcheckpoint.go", fmt.Sprintf("every newTxFeeOrderedList call passes the same TxPool method as pop-back callback (%d distinct)", len(popBackFns)))
	for _, f := range deleters {
		for k, in := range delAt[f] {
			key := fmt.Sprintf("%s|delete#%d", short(fname(f)), k+1)
			c.R.Check("U-coupdate", key+"|removeTx", !throughWithout(f, in, removeP, nil), c.posOf(in), "every path through the delete also removes the transaction's conflict keys")
			c.R.Check("U-coupdate", key+"|budget decrement", !throughWithout(f, in, budgetDel, notProposalArm(f)), c.posOf(in), "every path through the delete calls dealDelProposalTx unless the transaction is not a CRC proposal")
			if popBackFns[f] {
				c.R.Info("U-coupdate", key+"|txFees.RemoveTx", c.posOf(in), "pop-back callback: the fee list already dropped the item and its size")
			} else {
				c.R.Check("U-coupdate", key+"|txFees.RemoveTx", !throughWithout(f, in, feeRemove, nil), c.posOf(in), "every path through the delete also removes the item from the fee-ordered list")
			}
		}
	}
	// pop-back: AddTx's eviction loop calls the callback for each popped item and subtracts its size
	if a := c.fn(mp, "txFeeOrderedList", "AddTx"); a != nil {
		// eviction sites: calls of popBack, or a direct cut of the list's tail, in AddTx or in a method of the list
		// that AddTx calls (the eviction step may be a helper)
		type site struct {
			g  *ssa.Function
			in ssa.Instruction
		}
		var pops []site
		scope := []*ssa.Function{a}
		for _, b := range a.Blocks {
			for _, in := range b.Instrs {
				if cl, ok := in.(*ssa.Call); ok {
					if h := cl.Call.StaticCallee(); h != nil && h.Pkg == a.Pkg && h != a && h.Signature.Recv() != nil && ssau.TypeName(h.Signature.Recv().Type()) == "txFeeOrderedList" && h.Name() != "popBack" && len(h.Blocks) > 0 {
						scope = append(scope, h)
					}
				}
			}
		}
		for _, g := range scope {
			for _, p := range ssau.CallsIn(g, callPred(R{mp, "txFeeOrderedList", "popBack"})) {
				pops = append(pops, site{g, p})
			}
			for _, b := range g.Blocks {
				for _, in := range b.Instrs {
					if st, ok := in.(*ssa.Store); ok && ssau.IsFieldOf(st.Addr, "txFeeOrderedList", "list") {
						if sl, ok := st.Val.(*ssa.Slice); ok && sl.Low == nil && sl.High != nil && ssau.IsFieldOf(ssau.Unwrap(sl.X), "txFeeOrderedList", "list") {
							pops = append(pops, site{g, st})
						}
					}
				}
			}
		}
		for k, ps := range pops {
			g, p := ps.g, ps.in
			hasCb := false
			cut := ssau.NewCut()
			for _, b := range g.Blocks {
				for _, in := range b.Instrs {
					if ci, ok := in.(ssa.CallInstruction); ok && ci.Common().StaticCallee() == nil && !ci.Common().IsInvoke() {
						if ssau.IsFieldOf(ssau.Unwrap(ci.Common().Value), "txFeeOrderedList", "onPopBack") {
							cut.AddInstr(in)
							hasCb = true
						}
					}
				}
			}
			r := ssau.ReachAfter(g, p, cut)
			esc := false
			for _, ret := range ssau.Returns(g) {
				if r.Instr(ret) {
					esc = true
				}
			}
			// may loop back to the eviction again without the callback?
			if r.Instr(p) {
				esc = true
			}
			c.R.Check("U-size", fmt.Sprintf("AddTx|popBack#%d notifies the pool", k+1), hasCb && !esc, c.posOf(p), "every popped item is handed to the onPopBack callback before the next pop or return")
		}
		c.R.FloorCheck("U-size popBack sites", len(pops), 1)
		// success only when not oversize: loop exit on a phi of OverSize results
		c.GuardSuccess("U-size", "AddTx|success implies within maxSize", a, "OverSize(...) == false", func(i *ssa.If) (bool, bool) {
			x, neg := ssau.StripNot(i.Cond)
			over := func(v ssa.Value) bool { return ssau.IsCallTo(v, callPred(R{mp, "txFeeOrderedList", "OverSize"})) }
			if phi, ok := x.(*ssa.Phi); ok {
				for _, e := range phi.Edges {
					if !over(e) {
						return false, false
					}
				}
				return true, neg
			}
			return false, false
		}, G1Opt{})
	}
	// U-size: list writers adjust totalSize
	isList := func(v ssa.Value) bool { return ssau.IsFieldOf(v, "txFeeOrderedList", "list") }
	isTotal := func(v ssa.Value) bool { return ssau.IsFieldOf(v, "txFeeOrderedList", "totalSize") }
	nW := 0
	for _, f := range c.pkgFuncs("mempool") {
		if f.Name() == "newTxFeeOrderedList" {
			continue
		}
		var listStores []*ssa.Store
		var totalW []ssa.Instruction
		for _, b := range f.Blocks {
			for _, in := range b.Instrs {
				if st, ok := in.(*ssa.Store); ok {
					if isList(st.Addr) {
						// a store that only re-slices to a different length or appends changes the membership
						listStores = append(listStores, st)
					}
					if isTotal(st.Addr) {
						totalW = append(totalW, in)
					}
				}
				if ci, ok := in.(ssa.CallInstruction); ok {
					// ReadElements(r, &l.totalSize)
					for _, a := range ci.Common().Args {
						if ssau.DependsOn(a, func(v ssa.Value) bool { fa, ok := v.(*ssa.FieldAddr); return ok && isTotal(fa) }) {
							totalW = append(totalW, in)
						}
					}
				}
			}
		}
		if len(listStores) == 0 {
			continue
		}
		nW++
		key := short(fname(f)) + "|list change paired with totalSize"
		if len(totalW) > 0 {
			// every path from the last list store to exit passes a totalSize write
			bad := false
			for _, st := range listStores {
				cut := ssau.NewCut()
				for _, w := range totalW {
					cut.AddInstr(w)
				}
				// later list stores in the same function re-establish the obligation; only the final must be followed
				r := ssau.ReachAfter(f, st, cut)
				for _, ret := range ssau.Returns(f) {
					if r.Instr(ret) && !c.failingReturn(f, ret) {
						bad = true
					}
				}
			}
			c.R.Check("U-size", key, !bad, c.pos(f.Pos()), "every success path from a change of the list reaches an update of totalSize")
			continue
		}
		// callers must adjust after the call
		callers := c.staticCallers(f)
		ok := len(callers) > 0
		for caller, sites := range callers {
			if c.isTestFn(caller) {
				continue
			}
			for _, s := range sites {
				cut := ssau.NewCut()
				for _, b := range caller.Blocks {
					for _, in := range b.Instrs {
						if st, isSt := in.(*ssa.Store); isSt && isTotal(st.Addr) {
							cut.AddInstr(in)
						}
					}
				}
				r := ssau.ReachAfter(caller, s, cut)
				for _, ret := range ssau.Returns(caller) {
					if r.Instr(ret) {
						ok = false
					}
				}
			}
		}
		c.R.Check("U-size", key, ok, c.pos(f.Pos()), "the function changes the list only; every caller adjusts totalSize before returning")
	}
	c.R.FloorCheck("U-size list writers", nW, 4)

	// budget mirror
	c.budgetMirror()

	// ---- A-slot
	c.slotAgreement()

	// ---- A-key
	c.keySourceAgreement()

	// ---- U-key: explicit index-key removal accompanies the removal of the transaction that owns the key
	c.R.Rule("U-key", "outside the conflict manager itself a pool function removes a key from a conflict slot (RemoveKey) only on a path on which it removed a transaction from the pool before (removeTransaction / doRemoveTransaction): the index never loses the key of a transaction that stays pooled")
	{
		rk := func(cm *ssa.CallCommon) bool {
			o := ssau.CalleeObj(cm)
			return o != nil && o.Name() == "RemoveKey" && o.Pkg() != nil && strings.HasSuffix(o.Pkg().Path(), "/mempool")
		}
		rm := func(cm *ssa.CallCommon) bool {
			o := ssau.CalleeObj(cm)
			return o != nil && (o.Name() == "removeTransaction" || o.Name() == "doRemoveTransaction") && o.Pkg() != nil && strings.HasSuffix(o.Pkg().Path(), "/mempool")
		}
		nk := 0
		for _, f := range c.pkgFuncs("mempool") {
			if f.Signature.Recv() == nil || ssau.TypeName(f.Signature.Recv().Type()) != "TxPool" {
				continue
			}
			calls := ssau.CallsIn(f, rk)
			if len(calls) == 0 {
				continue
			}
			cut := ssau.NewCut()
			for _, ci := range ssau.CallsIn(f, rm) {
				cut.AddInstr(ci)
			}
			r := ssau.ReachFromEntry(f, cut)
			for k, call := range calls {
				nk++
				c.R.Check("U-key", fmt.Sprintf("%s|RemoveKey#%d after a pool removal", short(fname(f)), k+1), !r.Instr(call), c.posOf(call), "the key removal is reachable without a removal of a transaction from the pool")
			}
		}
		c.R.FloorCheck("U-key explicit RemoveKey calls", nk, 3)
	}
	// ---- L-lock
	c.poolLocking()

	_ = doAdd
}

// failingReturn: ret returns a non-nil error (by the exit classifier).
func (c *Ctx) failingReturn(f *ssa.Function, ret *ssa.Return) bool {
	if len(ret.Results) == 0 {
		return false
	}
	ec := c.classifier(f, G1Opt{})
	if ec.Idx < 0 || ec.Idx >= len(ret.Results) {
		return false
	}
	r := ssau.ReachFromEntry(f, nil)
	for _, s := range ec.SuccessExitsIn(r, ssau.NewCut()) {
		if s == ret {
			return false
		}
	}
	return true
}

// budgetMirror: dealAddProposalTx and dealDelProposalTx update proposalsUsedAmount with the same operand and opposite operators, once per budget.
func (c *Ctx) budgetMirror() {
	// host: the function holding the per-budget loop (the updater itself, or the helper that sums the budgets)
	hosts := map[*ssa.Function]*ssa.Function{}
	sig := func(f *ssa.Function) (ops []string, operand []string, inLoop bool) {
		hosts[f] = f
		for _, b := range f.Blocks {
			for _, in := range b.Instrs {
				st, ok := in.(*ssa.Store)
				if !ok || !ssau.IsFieldOf(st.Addr, "TxPool", "proposalsUsedAmount") {
					continue
				}
				bo, ok := st.Val.(*ssa.BinOp)
				if !ok {
					ops = append(ops, "assign")
					continue
				}
				ops = append(ops, bo.Op.String())
				other := bo.Y
				if !ssau.IsFieldOf(ssau.Unwrap(bo.X), "TxPool", "proposalsUsedAmount") {
					ops[len(ops)-1] = "?" + ops[len(ops)-1]
				}
				var chain []string
				ssau.DependsOn(other, func(v ssa.Value) bool {
					if fa, ok := v.(*ssa.FieldAddr); ok {
						st := fa.X.Type().Underlying().(*types.Pointer).Elem().Underlying().(*types.Struct)
						chain = append(chain, st.Field(fa.Field).Name())
					}
					if fv, ok := v.(*ssa.Field); ok {
						st := fv.X.Type().Underlying().(*types.Struct)
						chain = append(chain, st.Field(fv.Field).Name())
					}
					return false
				})
				sort.Strings(chain)
				operand = append(operand, strings.Join(chain, "."))
				if ssau.EnclosingLoopHeader(b) != nil {
					inLoop = true
				}
				// the amount may be the result of a same-package helper that sums the budgets in its own loop
				if cl, ok := ssau.Unwrap(other).(*ssa.Call); ok {
					if h := cl.Call.StaticCallee(); h != nil && h.Pkg == f.Pkg && len(h.Blocks) > 0 {
						for _, hb := range h.Blocks {
							for _, hin := range hb.Instrs {
								if add, ok := hin.(*ssa.BinOp); ok && add.Op == token.ADD && ssau.EnclosingLoopHeader(hb) != nil && ssau.TypeName(add.Type()) == "Fixed64" {
									inLoop = true
									hosts[f] = h
								}
							}
						}
					}
				}
			}
		}
		return
	}
	a, d := c.fn("mempool", "TxPool", "dealAddProposalTx"), c.fn("mempool", "TxPool", "dealDelProposalTx")
	if a == nil || d == nil {
		return
	}
	ao, aop, al := sig(a)
	do, dop, dl := sig(d)
	ok := len(ao) == 1 && len(do) == 1 && ao[0] == "+" && do[0] == "-" && strings.Join(aop, "|") == strings.Join(dop, "|") && al && dl &&
		rangesWholeField(hosts[a], "Budgets") && rangesWholeField(hosts[d], "Budgets")
	c.R.Check("U-coupdate", "budget increment/decrement mirror", ok, c.pos(a.Pos()), fmt.Sprintf("dealAddProposalTx: %v %v loop=%v; dealDelProposalTx: %v %v loop=%v; both range over all Budgets", ao, aop, al, do, dop, dl))
	// writers of proposalsUsedAmount
	w := c.fieldStores("TxPool", "proposalsUsedAmount", true)
	var names []string
	for f := range w {
		names = append(names, short(fname(f)))
	}
	sort.Strings(names)
	okW := true
	for f := range w {
		if f != a && f != d && f.Name() != "NewTxPool" {
			okW = false
		}
	}
	c.R.Check("U-coupdate", "budget total written only by the mirror pair", okW, c.pos(a.Pos()), fmt.Sprintf("writers of TxPool.proposalsUsedAmount: %v", names))
}

// slotAgreement: the per-kind sets used by the five accessors agree.
func (c *Ctx) slotAgreement() {
	const mp = "mempool"
	sets := []string{"stringSet", "hashSet", "programHashSet"}
	// which set fields does a function (with its closures) touch, and how
	type acc struct{ lookups, inserts, deletes map[string]bool }
	access := func(f *ssa.Function) acc {
		a := acc{map[string]bool{}, map[string]bool{}, map[string]bool{}}
		var walk func(g *ssa.Function)
		walk = func(g *ssa.Function) {
			for _, b := range g.Blocks {
				for _, in := range b.Instrs {
					for _, s := range sets {
						is := func(v ssa.Value) bool { return ssau.IsFieldOf(ssau.Unwrap(v), "conflictSlot", s) }
						switch x := in.(type) {
						case *ssa.Lookup:
							if is(x.X) {
								a.lookups[s] = true
							}
						case *ssa.MapUpdate:
							if is(x.Map) {
								a.inserts[s] = true
							}
						case *ssa.Call:
							if bi, ok := x.Call.Value.(*ssa.Builtin); ok && bi.Name() == "delete" && is(x.Call.Args[0]) {
								a.deletes[s] = true
							}
						}
					}
				}
			}
			for _, an := range g.AnonFuncs {
				walk(an)
			}
		}
		walk(f)
		return a
	}
	// per closure position: closure k of VerifyTx/appendKey/removeKey touches exactly set k
	for _, name := range []string{"VerifyTx", "appendKey", "removeKey"} {
		f := c.fn(mp, "conflictSlot", name)
		if f == nil {
			continue
		}
		calls := ssau.CallsIn(f, callPred(R{mp, "conflictSlot", "txProcess"}))
		ok := len(calls) == 1
		det := ""
		if ok {
			args := calls[0].Common().Args
			// receiver, key, keyType, 3 closures
			cl := args[len(args)-3:]
			for k, a := range cl {
				mc, isC := ssau.Unwrap(a).(*ssa.MakeClosure)
				if !isC {
					ok = false
					det = "callback is not a literal closure"
					break
				}
				ac := access(mc.Fn.(*ssa.Function))
				var touched map[string]bool
				switch name {
				case "VerifyTx":
					touched = ac.lookups
				case "appendKey":
					touched = ac.inserts
				case "removeKey":
					touched = ac.deletes
				}
				if len(touched) != 1 || !touched[sets[k]] || len(ac.lookups)+len(ac.inserts)+len(ac.deletes) != 1 {
					ok = false
					det = fmt.Sprintf("callback #%d of %s touches %v/%v/%v, expected only %s", k+1, name, ssau.SortedKeys(ac.lookups), ssau.SortedKeys(ac.inserts), ssau.SortedKeys(ac.deletes), sets[k])
				}
			}
			// keyType argument is s.keyType
			kt := args[len(args)-4]
			if !ssau.IsFieldOf(ssau.Unwrap(kt), "conflictSlot", "keyType") {
				ok = false
				det = "dispatch kind is not the slot's keyType"
			}
		}
		if det == "" {
			det = "callbacks 1..3 touch stringSet, hashSet, programHashSet respectively and dispatch on s.keyType"
		}
		c.R.Check("A-slot", "conflictSlot."+name+"|set per key kind", ok, c.pos(f.Pos()), det)
	}
	// VerifyTx callbacks: key present => non-nil
	if f := c.fn(mp, "conflictSlot", "VerifyTx"); f != nil {
		for k, an := range f.AnonFuncs {
			an := an
			c.GuardSuccess("A-slot", fmt.Sprintf("conflictSlot.VerifyTx|callback#%d rejects a present key", k+1), an, "set lookup absent", lookupAbsent(func(v ssa.Value) bool {
				for _, s := range sets {
					if ssau.IsFieldOf(ssau.Unwrap(v), "conflictSlot", s) {
						return true
					}
				}
				return false
			}), G1Opt{})
		}
		c.R.FloorCheck("A-slot VerifyTx callbacks", len(f.AnonFuncs), 3)
	}
	// the three entry points pick the key function the same way and pass its key on
	for _, name := range []string{"VerifyTx", "AppendTx", "RemoveTx"} {
		f := c.fn(mp, "conflictSlot", name)
		if f == nil {
			continue
		}
		gk := ssau.CallsIn(f, callPred(R{mp, "conflictSlot", "getKeyFromTx"}))
		ok := len(gk) == 1 && paramNamed(gk[0].Common().Args[len(gk[0].Common().Args)-1], "tx")
		// dynamic call of the selected function with tx, and key flows to the sink
		keyFlows := false
		sink := map[string]R{"VerifyTx": {mp, "conflictSlot", "txProcess"}, "AppendTx": {mp, "conflictSlot", "appendKey"}, "RemoveTx": {mp, "conflictSlot", "removeKey"}}[name]
		for _, s := range ssau.CallsIn(f, callPred(sink)) {
			args := s.Common().Args
			keyArg := args[1]
			if ssau.DependsOn(keyArg, func(v ssa.Value) bool {
				cl, isCall := v.(*ssa.Call)
				return isCall && cl.Call.StaticCallee() == nil && !cl.Call.IsInvoke() && len(gk) == 1 && ssau.Unwrap(cl.Call.Value) == gk[0].Value()
			}) {
				keyFlows = true
			}
		}
		c.R.Check("A-slot", "conflictSlot."+name+"|key = getKeyFromTx(tx)(tx)", ok && keyFlows, c.pos(f.Pos()), "the key processed is the result of the function selected by getKeyFromTx(tx)")
	}
	for _, name := range []string{"Contains", "GetTx"} {
		f := c.fn(mp, "conflictSlot", name)
		if f == nil {
			continue
		}
		ac := access(f)
		c.R.Check("A-slot", "conflictSlot."+name+"|reads all three sets", len(ac.lookups) == 3 && len(ac.inserts)+len(ac.deletes) == 0, c.pos(f.Pos()), fmt.Sprintf("reads %v", ssau.SortedKeys(ac.lookups)))
	}
}

// codeSources: where does the code passed to a stake-address constructor come from.
func codeSources(f *ssa.Function, sinkNames ...string) (src []string, versions []string, found bool) {
	set := map[string]bool{}
	ver := map[string]bool{}
	for _, ci := range ssau.CallsIn(f, func(cm *ssa.CallCommon) bool {
		o := ssau.CalleeObj(cm)
		if o == nil {
			return false
		}
		for _, n := range sinkNames {
			if o.Name() == n {
				return true
			}
		}
		return false
	}) {
		found = true
		ssau.DependsOn(ci.Common().Args[0], func(v ssa.Value) bool {
			if fa, ok := v.(*ssa.FieldAddr); ok {
				st := fa.X.Type().Underlying().(*types.Pointer).Elem()
				if st.Underlying().(*types.Struct).Field(fa.Field).Name() == "Code" {
					set[ssau.TypeName(st)+".Code"] = true
				}
			}
			return false
		})
	}
	for _, i := range ssau.Ifs(f) {
		if b, ok := i.Cond.(*ssa.BinOp); ok && (b.Op == token.EQL || b.Op == token.NEQ) {
			if methodCallNamed(b.X, "PayloadVersion") || ssau.IsFieldOf(ssau.Unwrap(b.X), "", "payloadVersion") {
				if k, ok := b.Y.(*ssa.Const); ok {
					ver[b.Op.String()+k.Value.ExactString()] = true
				}
			}
		}
	}
	return ssau.SortedKeys(set), ssau.SortedKeys(ver), found
}

func (c *Ctx) keySourceAgreement() {
	pairs := []struct{ key, proc string }{
		{"strReturnVotes", "processReturnVotes"},
		{"programHashDposV2ClaimReward", "processDposV2ClaimReward"},
		{"strVoting", "processVotingContent"},
	}
	sinks := []string{"CreateStakeContractByCode", "GetProgramHashByCode"}
	n := 0
	for _, p := range pairs {
		kf := c.fn("mempool", "", p.key)
		pf := c.fn("dpos/state", "State", p.proc)
		if kf == nil || pf == nil {
			continue
		}
		ks, kv, kfound := codeSources(kf, sinks...)
		ps, pv, pfound := codeSources(pf, sinks...)
		if !kfound || !pfound {
			c.R.Undecided("A-key", p.key+" ~ "+p.proc, c.pos(kf.Pos()), "no stake-address constructor call found in one of the siblings")
			continue
		}
		n++
		ok := strings.Join(ks, ",") == strings.Join(ps, ",") && strings.Join(kv, ",") == strings.Join(pv, ",")
		c.R.Check("A-key", p.key+" ~ "+p.proc, ok, c.pos(kf.Pos()), fmt.Sprintf("key function takes the code from %v under version tests %v; the state processor from %v under %v", ks, kv, ps, pv))
	}
	c.R.FloorCheck("A-key sibling pairs", n, 3)
}

// poolLocking: exported TxPool methods take the lock before touching guarded state.
func (c *Ctx) poolLocking() {
	const mp = "mempool"
	guarded := func(v ssa.Value) bool {
		v = ssau.Unwrap(v)
		return ssau.IsFieldOf(v, "txPoolCheckpoint", "txnList") || ssau.IsFieldOf(v, "txPoolCheckpoint", "txFees") ||
			ssau.IsFieldOf(v, "TxPool", "proposalsUsedAmount") || ssau.IsFieldOf(v, "TxPool", "crossChainHeightList") ||
			ssau.IsFieldOf(v, "TxPool", "txReceivingInfo") || ssau.IsFieldOf(v, "conflictManager", "conflictSlots")
	}
	touchesDirect := func(f *ssa.Function) bool {
		for _, b := range f.Blocks {
			for _, in := range b.Instrs {
				for _, op := range in.Operands(nil) {
					if *op != nil && guarded(*op) {
						return true
					}
				}
			}
		}
		return false
	}
	lockP := func(cm *ssa.CallCommon) bool {
		o := ssau.CalleeObj(cm)
		return o != nil && (o.Name() == "Lock" || o.Name() == "RLock") && o.Pkg() != nil && o.Pkg().Path() == "sync"
	}
	// unexported touchers (transitively, same package, no lock inside)
	pkgFns := []*ssa.Function{}
	for _, f := range c.pkgFuncs("mempool") {
		if f.Synthetic == "" {
			pkgFns = append(pkgFns, f)
		}
	}
	touches := map[*ssa.Function]bool{}
	for _, f := range pkgFns {
		if touchesDirect(f) {
			touches[f] = true
		}
	}
	for changed := true; changed; {
		changed = false
		for _, f := range pkgFns {
			if touches[f] {
				continue
			}
			for _, b := range f.Blocks {
				for _, in := range b.Instrs {
					if ci, ok := in.(ssa.CallInstruction); ok {
						if g := ci.Common().StaticCallee(); g != nil && touches[g] && len(ssau.CallsIn(g, lockP)) == 0 {
							touches[f] = true
							changed = true
						}
					}
				}
			}
		}
	}
	n := 0
	for _, f := range pkgFns {
		if f.Signature.Recv() == nil || ssau.TypeName(f.Signature.Recv().Type()) != "TxPool" || !token.IsExported(f.Name()) || !touches[f] {
			continue
		}
		n++
		cut := ssau.NewCut()
		for _, ci := range ssau.CallsIn(f, lockP) {
			cut.AddInstr(ci)
		}
		r := ssau.ReachFromEntry(f, cut)
		bad := ""
		for _, b := range f.Blocks {
			for _, in := range b.Instrs {
				if !r.Instr(in) {
					continue
				}
				hit := false
				for _, op := range in.Operands(nil) {
					if *op != nil && guarded(*op) {
						hit = true
					}
				}
				if ci, ok := in.(ssa.CallInstruction); ok {
					if g := ci.Common().StaticCallee(); g != nil && touches[g] && len(ssau.CallsIn(g, lockP)) == 0 && !lockP(ci.Common()) {
						hit = true
					}
				}
				if hit && bad == "" {
					bad = c.posOf(in)
				}
			}
		}
		det := "pool state is touched only after Lock/RLock"
		if bad != "" {
			det = "pool state touched at " + bad + " before the lock is taken"
		}
		c.R.Check("L-lock", short(fname(f))+"|locks first", bad == "", c.pos(f.Pos()), det)
		// ... and keeps it: nothing touches the pool after an explicit Unlock/RUnlock unless the lock is taken again
		late := ""
		for _, b := range f.Blocks {
			for _, in := range b.Instrs {
				ci, ok := in.(*ssa.Call) // explicit (not deferred) unlock
				if !ok {
					continue
				}
				o := ssau.CalleeObj(&ci.Call)
				if o == nil || (o.Name() != "Unlock" && o.Name() != "RUnlock") || o.Pkg() == nil || o.Pkg().Path() != "sync" {
					continue
				}
				ra := ssau.ReachAfter(f, ci, cut)
				for _, b2 := range f.Blocks {
					for _, in2 := range b2.Instrs {
						if in2 == ssa.Instruction(ci) || !ra.Instr(in2) {
							continue
						}
						hit := false
						for _, op := range in2.Operands(nil) {
							if *op != nil && guarded(*op) {
								hit = true
							}
						}
						if c2, ok := in2.(ssa.CallInstruction); ok {
							if g := c2.Common().StaticCallee(); g != nil && touches[g] && len(ssau.CallsIn(g, lockP)) == 0 && !lockP(c2.Common()) {
								hit = true
							}
						}
						if hit && late == "" {
							late = c.posOf(in2)
						}
					}
				}
			}
		}
		c.R.Check("L-lock", short(fname(f))+"|holds the lock while touching", late == "", c.pos(f.Pos()), "pool state is touched at "+late+" after the lock was released")
	}
	c.R.FloorCheck("L-lock exported pool methods touching state", n, 12)
}

// pkgFuncs: every SSA function (incl. closures) of the repo package rel, sorted by name.
func (c *Ctx) pkgFuncs(rel string) []*ssa.Function {
	var out []*ssa.Function
	for f := range c.P.AllFuncs() {
		pk := f.Pkg
		if pk == nil && f.Parent() != nil {
			pk = f.Parent().Pkg
		}
		if pk == nil || !strings.HasSuffix(pk.Pkg.Path(), "Elastos.ELA/"+rel) {
			continue
		}
		out = append(out, f)
	}
	sort.Slice(out, func(i, j int) bool { return out[i].String() < out[j].String() })
	return out
}

func (c *Ctx) isTestFn(f *ssa.Function) bool {
	if f.Pkg == nil {
		return false
	}
	return core.IsTestOrTool(strings.TrimPrefix(f.Pkg.Pkg.Path(), core.Mod+"/"))
}

// rangesWholeField: fn contains a `for range x.<field>` loop (rangeindex lowering bounded by len of the loaded field).
func rangesWholeField(fn *ssa.Function, field string) bool {
	for _, i := range ssau.Ifs(fn) {
		b, ok := i.Cond.(*ssa.BinOp)
		if !ok || b.Op != token.LSS || blockComment(i) != "rangeindex.loop" {
			continue
		}
		if isLenOf(func(v ssa.Value) bool { return ssau.IsFieldOf(ssau.Unwrap(v), "", field) })(b.Y) {
			return true
		}
	}
	return false
}
