package props

import (
	"fmt"
	"go/constant"
	"go/token"
	"go/types"
	"os"
	"sort"
	"strings"

	"elaverif/ssau"

	"golang.org/x/tools/go/ssa"
)

// Env is one valuation of the abstract variables of a decision table.
type Env struct {
	B map[string]bool
	I map[string]int64
	S map[string]string
}

func (e Env) String() string {
	var parts []string
	for k, v := range e.B {
		parts = append(parts, fmt.Sprintf("%s=%v", k, v))
	}
	for k, v := range e.I {
		parts = append(parts, fmt.Sprintf("%s=%d", k, v))
	}
	for k, v := range e.S {
		parts = append(parts, fmt.Sprintf("%s=%q", k, v))
	}
	sort.Strings(parts)
	return strings.Join(parts, ",")
}

// Symbols maps SSA values of the analysed function to abstract variables.
type Symbols struct {
	// Bool maps a boolean-valued SSA value (a call result, typically) to a variable name.
	Bool func(v ssa.Value) (string, bool)
	// Int maps an integer-valued SSA value to a variable name.
	Int func(v ssa.Value) (string, bool)
	// Nil maps a pointer/interface-valued SSA value to a variable that is true when the value is nil.
	Nil func(v ssa.Value) (string, bool)
	// Str maps a string-valued SSA value to a variable name (Env.S).
	Str func(v ssa.Value) (string, bool)
	// LoopIters is how many iterations a range loop is abstracted to run (default 1).
	LoopIters int
	// Custom is tried first for whole conditions.
	Custom func(cond ssa.Value, env Env, visit int) (val bool, known bool)

	helperDepth int
}

func (s *Symbols) intVal(v ssa.Value, env Env) (int64, bool) {
	v = ssau.Unwrap(v)
	if c, ok := v.(*ssa.Const); ok {
		return constInt(c)
	}
	if s.Int != nil {
		if name, ok := s.Int(v); ok {
			x, ok2 := env.I[name]
			return x, ok2
		}
	}
	// simple integer arithmetic over symbols (x - y, x + y); the abstract domains are chosen so that unsigned wrap cannot occur
	if b, ok := v.(*ssa.BinOp); ok && (b.Op == token.ADD || b.Op == token.SUB) {
		x, okx := s.intVal(b.X, env)
		y, oky := s.intVal(b.Y, env)
		if okx && oky {
			if b.Op == token.ADD {
				return x + y, true
			}
			return x - y, true
		}
	}
	return 0, false
}

func (s *Symbols) strVal(v ssa.Value, env Env) (string, bool) {
	if c, ok := v.(*ssa.Const); ok && c.Value != nil && c.Value.Kind() == constant.String {
		return constant.StringVal(c.Value), true
	}
	if s.Str != nil {
		if name, ok := s.Str(v); ok {
			x, ok2 := env.S[name]
			return x, ok2
		}
	}
	// strings.ToLower / ToUpper of an evaluable string
	if call, ok := v.(*ssa.Call); ok {
		if f := call.Call.StaticCallee(); f != nil && len(call.Call.Args) == 1 {
			switch f.String() {
			case "strings.ToLower":
				if x, ok := s.strVal(call.Call.Args[0], env); ok {
					return strings.ToLower(x), true
				}
			case "strings.ToUpper":
				if x, ok := s.strVal(call.Call.Args[0], env); ok {
					return strings.ToUpper(x), true
				}
			}
		}
	}
	return "", false
}

// evalBoolHelper evaluates a call of a small same-module predicate over strings/ints (e.g. isMainNet(name)) by
// walking the helper with its parameters bound to the evaluated arguments.
func (s *Symbols) evalBoolHelper(call *ssa.Call, env Env, depth int) (bool, bool) {
	h := call.Call.StaticCallee()
	if h == nil || h.Signature.Results().Len() != 1 {
		return false, false
	}
	v, s2, env2, ok := s.helperResult(call, env, depth, 0)
	if !ok {
		return false, false
	}
	if k, ok := v.(*ssa.Const); ok && k.Value != nil && k.Value.Kind() == constant.Bool {
		return constant.BoolVal(k.Value), true
	}
	// a returned comparison
	if b, ok := v.(*ssa.BinOp); ok {
		return s2.evalCond(b, env2, 0, "")
	}
	return false, false
}

// evalVerdictHelper evaluates a call of a small same-module checker whose last result is an error: does it
// return nil under env?
func (s *Symbols) evalVerdictHelper(call *ssa.Call, env Env) (succeeds bool, known bool) {
	h := call.Call.StaticCallee()
	if h == nil {
		return false, false
	}
	idx := ssau.VerdictIndex(h.Signature)
	if idx < 0 || !types.IsInterface(h.Signature.Results().At(idx).Type()) {
		return false, false
	}
	v, _, _, ok := s.helperResult(call, env, s.helperDepth, idx)
	if !ok {
		return false, false
	}
	if ssau.IsNilConst(v) {
		return true, true
	}
	if _, ok := v.(*ssa.MakeInterface); ok {
		return false, true
	}
	if cl, ok := v.(*ssa.Call); ok && ssau.ErrCtor(cl.Call.StaticCallee()) {
		return false, true
	}
	return false, false
}

// helperResult walks the helper called at call as if inlined (the caller's variables stay visible, parameters
// that evaluate to strings or integers are bound) and returns the value it returns in position idx, with phis
// resolved along the walked path.
func (s *Symbols) helperResult(call *ssa.Call, env Env, depth int, idx int) (ssa.Value, *Symbols, Env, bool) {
	h := call.Call.StaticCallee()
	if h == nil || h.Pkg == nil || depth > 2 || len(h.Blocks) == 0 || len(h.Blocks) > 30 || !strings.HasPrefix(h.Pkg.Pkg.Path(), "github.com/elastos/Elastos.ELA") {
		return nil, nil, Env{}, false
	}
	// the helper is evaluated as if inlined: the caller's variables stay visible, the parameters are added
	env2 := Env{B: map[string]bool{}, I: map[string]int64{}, S: map[string]string{}}
	for k, v := range env.B {
		env2.B[k] = v
	}
	for k, v := range env.I {
		env2.I[k] = v
	}
	for k, v := range env.S {
		env2.S[k] = v
	}
	for i, p := range h.Params {
		if i >= len(call.Call.Args) {
			return nil, nil, Env{}, false
		}
		a := call.Call.Args[i]
		if x, ok := s.strVal(a, env); ok && s.Str != nil {
			env2.S[fmt.Sprintf("$p%d", i)] = x
		} else if x, ok := s.intVal(a, env); ok {
			env2.I[fmt.Sprintf("$p%d", i)] = x
		}
		_ = p
	}
	pidx := func(v ssa.Value) (int, bool) {
		for i, p := range h.Params {
			if ssa.Value(p) == v {
				return i, true
			}
		}
		return 0, false
	}
	bound := func(i int, m map[string]int64, ms map[string]string) bool {
		k := fmt.Sprintf("$p%d", i)
		if _, ok := m[k]; ok {
			return true
		}
		_, ok := ms[k]
		return ok
	}
	s2 := &Symbols{
		Str: func(v ssa.Value) (string, bool) {
			if i, ok := pidx(v); ok && bound(i, nil, env2.S) {
				return fmt.Sprintf("$p%d", i), true
			}
			if s.Str != nil {
				return s.Str(v)
			}
			return "", false
		},
		Int: func(v ssa.Value) (string, bool) {
			if i, ok := pidx(v); ok && bound(i, env2.I, nil) {
				return fmt.Sprintf("$p%d", i), true
			}
			if s.Int != nil {
				return s.Int(v)
			}
			return "", false
		},
		Bool:      s.Bool,
		Nil:       s.Nil,
		Custom:    s.Custom,
		LoopIters: s.LoopIters,
	}
	if s.Str == nil {
		// keep string comparison disabled for callers that have no string symbols, except on bound parameters
		if len(env2.S) == 0 {
			s2.Str = nil
		}
	}
	s2.helperDepth = depth + 1
	var r ssau.AbsResult
	ssau.WithParamSubst(call, func() {
		r = ssau.AbsWalk(h, ssau.AbsEnvFunc(func(i *ssa.If, visit int) (bool, bool) {
			return s2.evalCond(i.Cond, env2, visit, blockComment(i))
		}))
	})
	if r.Unknown != nil || r.Ret == nil || idx >= len(r.Ret.Results) {
		if os.Getenv("ELACHECK_DEBUG") != "" {
			fmt.Fprintf(os.Stderr, "evalBoolHelper %s: unknown=%v err=%q env=%v\n", h.Name(), r.Unknown, r.Err, env2)
		}
		return nil, nil, Env{}, false
	}
	v := ssau.ResolveSpill(r.Ret.Results[idx])
	// resolve (nested) phis along the path actually walked
	for n := 0; n < 8; n++ {
		phi, ok := v.(*ssa.Phi)
		if !ok {
			break
		}
		at := -1
		for k := len(r.Trace) - 1; k >= 1; k-- {
			if r.Trace[k] == phi.Block().Index {
				at = k
				break
			}
		}
		if at < 1 {
			break
		}
		prev := r.Trace[at-1]
		next := v
		for i, p := range phi.Block().Preds {
			if p.Index == prev {
				next = phi.Edges[i]
			}
		}
		if next == v {
			break
		}
		v = next
	}
	return v, s2, env2, true
}

func cmp(op token.Token, a, b int64) (bool, bool) {
	switch op {
	case token.LSS:
		return a < b, true
	case token.LEQ:
		return a <= b, true
	case token.GTR:
		return a > b, true
	case token.GEQ:
		return a >= b, true
	case token.EQL:
		return a == b, true
	case token.NEQ:
		return a != b, true
	}
	return false, false
}

func (s *Symbols) evalCond(cond ssa.Value, env Env, visit int, blockComment string) (bool, bool) {
	base, neg := ssau.StripNot(cond)
	fin := func(v bool) (bool, bool) { return v != neg, true }
	if s.Custom != nil {
		if v, ok := s.Custom(base, env, visit); ok {
			return fin(v)
		}
	}
	// range loops: run LoopIters iterations, then leave
	iters := s.LoopIters
	if iters == 0 {
		iters = 1
	}
	if _, ok := ssau.RangeNextOk(base); ok {
		return fin(visit < iters)
	}
	if blockComment == "rangeindex.loop" {
		return fin(visit < iters)
	}
	if s.Bool != nil {
		if name, ok := s.Bool(base); ok {
			if v, ok2 := env.B[name]; ok2 {
				return fin(v)
			}
		}
	}
	if call, ok := base.(*ssa.Call); ok {
		if v, known := s.evalBoolHelper(call, env, s.helperDepth); known {
			return fin(v)
		}
	}
	if s.Nil != nil {
		if x, trueIsNil, ok := ssau.NilTest(base); ok {
			if name, ok2 := s.Nil(ssau.Unwrap(x)); ok2 {
				if v, ok3 := env.B[name]; ok3 {
					return fin(v == trueIsNil)
				}
			}
		}
	}
	if b, ok := base.(*ssa.BinOp); ok && s.Str != nil && (b.Op == token.EQL || b.Op == token.NEQ) {
		sx, okx := s.strVal(b.X, env)
		sy, oky := s.strVal(b.Y, env)
		if okx && oky {
			return fin((sx == sy) == (b.Op == token.EQL))
		}
	}
	if b, ok := base.(*ssa.BinOp); ok {
		x, okx := s.intVal(b.X, env)
		y, oky := s.intVal(b.Y, env)
		if okx && oky {
			if v, ok := cmp(b.Op, x, y); ok {
				return fin(v)
			}
		}
	}
	return false, false
}

// Decision evaluates fn abstractly on every valuation produced by gen and
// compares accept/reject with expect. One obligation per valuation class would
// be noise, so the rule emits one obligation per function with the counts, and
// names the first disagreeing valuation.
func (c *Ctx) Decision(rule, key string, fn *ssa.Function, syms *Symbols, envs []Env, expect func(Env) bool, opt G1Opt) bool {
	if fn == nil {
		return false
	}
	ec := c.classifier(fn, opt)
	n := 0
	for _, env := range envs {
		env := env
		res := ssau.AbsWalk(fn, ssau.AbsEnvFunc(func(i *ssa.If, visit int) (bool, bool) {
			return syms.evalCond(i.Cond, env, visit, blockComment(i))
		}))
		if res.Unknown != nil {
			c.R.Undecided(rule, key, c.posOf(res.Unknown), fmt.Sprintf("%s: branch condition %s at %s is not in the rule's atom table (valuation %s)", fname(fn), res.Unknown.Cond.String(), c.posOf(res.Unknown), env))
			return false
		}
		if res.Err != "" || res.Panic || res.Ret == nil {
			c.R.Undecided(rule, key, c.pos(fn.Pos()), fmt.Sprintf("%s: abstract walk failed: %s panic=%v (valuation %s)", fname(fn), res.Err, res.Panic, env))
			return false
		}
		// classify the reached return in isolation: is it a success exit?
		got := false
		r := ssau.ReachFromEntry(fn, nil)
		for _, s := range ec.SuccessExitsIn(r, ssau.NewCut()) {
			if s == res.Ret {
				got = true
			}
		}
		// a phi-merged return: decide by the incoming edge actually taken
		if got && len(res.Trace) >= 2 {
			got = c.retSucceedsAlong(ec, res)
		}
		// the verdict is delegated to a small checker of the repository: evaluate it under the same valuation
		if got && ec.Idx < len(res.Ret.Results) {
			if cl, ok := resolveAlong(ssau.ResolveSpill(res.Ret.Results[ec.Idx]), res.Trace).(*ssa.Call); ok {
				if v, known := syms.evalVerdictHelper(cl, env); known {
					got = v
				}
			}
		}
		want := expect(env)
		if got != want {
			c.R.Check(rule, key, false, c.posOf(res.Ret), fmt.Sprintf("%s: for %s the code %s but the property requires %s (exit at %s)", fname(fn), env,
				verdictWord(got), verdictWord(want), c.posOf(res.Ret)))
			return false
		}
		n++
	}
	c.R.Check(rule, key, true, c.pos(fn.Pos()), fmt.Sprintf("%s: accept/reject agrees with the stated decision table on all %d abstract valuations", fname(fn), n))
	return true
}

func verdictWord(b bool) string {
	if b {
		return "accepts"
	}
	return "rejects"
}

// retSucceedsAlong refines the verdict of a return whose operand is a phi by
// the edge actually taken on the walk.
func (c *Ctx) retSucceedsAlong(ec *ssau.ExitClassifier, res ssau.AbsResult) bool {
	v := ssau.ResolveSpill(res.Ret.Results[ec.Idx])
	phi, ok := v.(*ssa.Phi)
	if !ok || phi.Block() != res.Ret.Block() {
		return true
	}
	prev := res.Trace[len(res.Trace)-2]
	for i, p := range phi.Block().Preds {
		if p.Index == prev {
			e := phi.Edges[i]
			if ssau.IsNilConst(e) {
				return true
			}
			if cst, ok := e.(*ssa.Const); ok && cst.Value != nil {
				return cst.Value.String() == fmt.Sprint(ec.BoolSuccess)
			}
			if _, ok := e.(*ssa.MakeInterface); ok {
				return false
			}
			if call, ok := e.(*ssa.Call); ok && ssau.ErrCtor(call.Call.StaticCallee()) {
				return false
			}
			return true
		}
	}
	return true
}

// product enumerates the cross product of boolean variables and integer domains.
func product(bools []string, ints map[string][]int64) []Env {
	envs := []Env{{B: map[string]bool{}, I: map[string]int64{}}}
	for _, b := range bools {
		var next []Env
		for _, e := range envs {
			for _, v := range []bool{false, true} {
				ne := Env{B: map[string]bool{}, I: map[string]int64{}}
				for k, x := range e.B {
					ne.B[k] = x
				}
				for k, x := range e.I {
					ne.I[k] = x
				}
				ne.B[b] = v
				next = append(next, ne)
			}
		}
		envs = next
	}
	var names []string
	for k := range ints {
		names = append(names, k)
	}
	sort.Strings(names)
	for _, name := range names {
		var next []Env
		for _, e := range envs {
			for _, v := range ints[name] {
				ne := Env{B: map[string]bool{}, I: map[string]int64{}}
				for k, x := range e.B {
					ne.B[k] = x
				}
				for k, x := range e.I {
					ne.I[k] = x
				}
				ne.I[name] = v
				next = append(next, ne)
			}
		}
		envs = next
	}
	return envs
}

// paramNamed: v is the function parameter called name, or a load of the
// entry-block spill slot of that parameter (parameters captured by closures
// are spilled to an Alloc that is stored exactly once).
func paramNamed(v ssa.Value, name string) bool {
	v = ssau.Unwrap(v)
	if p, ok := v.(*ssa.Parameter); ok {
		return p.Name() == name
	}
	if u, ok := v.(*ssa.UnOp); ok && u.Op == token.MUL {
		if a, ok := u.X.(*ssa.Alloc); ok {
			sts := ssau.StoresInto(a)
			if len(sts) == 1 {
				if p, ok := sts[0].Val.(*ssa.Parameter); ok && p.Name() == name && sts[0].Addr == ssa.Value(a) {
					return true
				}
			}
		}
	}
	return false
}

// methodCallNamed: v is the result of a call (static or invoke) of a method/function called name.
func methodCallNamed(v ssa.Value, name string) bool {
	return ssau.IsCallTo(v, func(cm *ssa.CallCommon) bool {
		o := ssau.CalleeObj(cm)
		return o != nil && o.Name() == name
	})
}
