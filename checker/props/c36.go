package props

import (
	"go/types"
	"fmt"
	"go/token"
	"sort"
	"strings"

	"elaverif/ssau"

	"golang.org/x/tools/go/ssa"
)

func init() {
	register(&Check{ID: "C36", Title: "RPC access control and service levels are enforced", Run: runC36})
}

// rpcLevelTable: handlers that carry a service-level check on the pinned tree and the level they require.
var rpcLevelTable = map[string]string{
	"SetLogLevel": "ConfigurationPermitted", "ToggleMining": "ConfigurationPermitted",
	"CreateAuxBlock": "MiningPermitted", "SubmitAuxBlock": "MiningPermitted", "DiscreteMining": "MiningPermitted",
	"SubmitSidechainIllegalData": "TransactionPermitted", "SendRawTransaction": "TransactionPermitted",
}

func runC36(c *Ctx) {
	c.R.Rule("G2-access", "httpjsonrpc.Handle dispatches a request only through the true arms of clientAllowed(r) and checkAuth(r); clientAllowed returns true only for a loopback address or a whitelist match; checkAuth returns true only when no credentials are configured or a constant-time comparison of the hash of the raw Authorization header with the hash of \"Basic \"+base64(User:Pass) succeeds, with no transformation of either side")
	c.R.Rule("R-level", "every RPC handler registered in StartRPCServer whose body (following same-package callees) reaches a privileged operation (mining control, block/aux submission, transaction submission, log level, wallet signing/key use) starts with checkRPCServiceLevel whose failing arm returns, and every effect of the handler (calls, go statements) is reachable only after the check passed; handlers checked today keep at least their level")
	const hp = "servers/httpjsonrpc"
	h := c.fn(hp, "", "Handle")
	if h != nil {
		disp := ssau.CallsIn(h, callPred(R{hp, "", "getResponse"}))
		c.R.Check("G2-access", "Handle|dispatch sites", len(disp) >= 1, c.pos(h.Pos()), fmt.Sprintf("%d getResponse call(s)", len(disp)))
		for k, d := range disp {
			c.G2("G2-access", fmt.Sprintf("Handle|clientAllowed before dispatch#%d", k+1), h, d, "clientAllowed(r)", condCall(callPred(R{hp, "", "clientAllowed"}), true))
			c.G2("G2-access", fmt.Sprintf("Handle|checkAuth before dispatch#%d", k+1), h, d, "checkAuth(r)", condCall(callPred(R{hp, "", "checkAuth"}), true))
		}
		// the request body is read only after both
		for _, rd := range ssau.CallsIn(h, func(cm *ssa.CallCommon) bool {
			f := cm.StaticCallee()
			return f != nil && strings.HasSuffix(f.String(), "ioutil.ReadAll")
		}) {
			c.G2("G2-access", "Handle|checkAuth before reading the body", h, rd, "checkAuth(r)", condCall(callPred(R{hp, "", "checkAuth"}), true))
		}
	}
	if ca := c.fn(hp, "", "clientAllowed"); ca != nil {
		c.GuardSuccess("G2-access", "clientAllowed|true only for loopback or whitelist", ca, "IsLoopback / whitelist equality", func(i *ssa.If) (bool, bool) {
			x, neg := ssau.StripNot(i.Cond)
			if methodCallNamed(x, "IsLoopback") {
				return true, !neg
			}
			if b, ok := x.(*ssa.BinOp); ok && b.Op == token.EQL {
				fromList := func(v ssa.Value) bool {
					return ssau.DependsOn(v, func(y ssa.Value) bool { return ssau.IsFieldOf(y, "RpcConfiguration", "WhiteIPList") })
				}
				isAny := func(v ssa.Value) bool {
					k, ok := v.(*ssa.Const)
					return ok && k.Value != nil && k.Value.ExactString() == "\"0.0.0.0\""
				}
				isRemote := func(v ssa.Value) bool {
					return methodCallNamed(ssau.Unwrap(v), "String") && ssau.DependsOn(v, func(y ssa.Value) bool { return methodCallNamed(y, "ParseIP") })
				}
				if (fromList(b.X) && (isAny(b.Y) || isRemote(b.Y))) || (fromList(b.Y) && (isAny(b.X) || isRemote(b.X))) {
					return true, !neg
				}
			}
			return false, false
		}, G1Opt{BoolSuccess: true})
		// the tested address is the request's RemoteAddr
		ok := false
		for _, vc := range callsVia(ca, func(cm *ssa.CallCommon) bool {
			f := cm.StaticCallee()
			return f != nil && f.String() == "net.SplitHostPort"
		}) {
			vc := vc
			vc.with(func() { ok = ssau.IsFieldOf(ssau.Unwrap(vc.call.Common().Args[0]), "Request", "RemoteAddr") })
		}
		c.R.Check("G2-access", "clientAllowed|address = r.RemoteAddr", ok, c.pos(ca.Pos()), "the filtered address is the connection's remote address (not a header)")
		// nothing the client can put into the request (headers, URL, body) flows into the tested address
		fromClient := ""
		for _, i := range ssau.Ifs(ca) {
			x, _ := ssau.StripNot(i.Cond)
			tested := false
			if cl, isCall := x.(*ssa.Call); isCall && (methodCallNamed(cl, "IsLoopback") || methodCallNamed(cl, "Equal")) {
				tested = true
			}
			if b, isBin := x.(*ssa.BinOp); isBin && (b.Op == token.EQL || b.Op == token.NEQ) {
				if bt, isBasic := b.X.Type().Underlying().(*types.Basic); isBasic && bt.Info()&types.IsString != 0 {
					tested = true
				}
			}
			if !tested {
				continue
			}
			for _, fld := range []string{"Header", "URL", "Body", "Form", "PostForm", "Trailer"} {
				if ssau.DependsOn(x, func(y ssa.Value) bool { return ssau.IsFieldOf(y, "Request", fld) }) {
					fromClient = "Request." + fld + " at " + c.posOf(i)
				}
			}
		}
		c.R.Check("G2-access", "clientAllowed|address not taken from client-supplied request data", fromClient == "", c.pos(ca.Pos()), "an address comparison of the IP filter depends on "+fromClient+": a remote client chooses that value")
	}
	if au := c.fn(hp, "", "checkAuth"); au != nil {
		ctc := func(cm *ssa.CallCommon) bool {
			f := cm.StaticCallee()
			return f != nil && f.String() == "crypto/subtle.ConstantTimeCompare"
		}
		noCred := func(i *ssa.If) (bool, bool) {
			// User == Pass && len(User) == 0
			return condCmp(isLenOf(fieldIs("RpcConfiguration", "User")), isConstInt(0), token.EQL, true)(i)
		}
		c.GuardSuccess("G2-access", "checkAuth|true only without credentials or on a constant-time match", au, "len(User)==0 / ConstantTimeCompare == 1", func(i *ssa.If) (bool, bool) {
			if m, arm := noCred(i); m {
				return m, arm
			}
			return condCmp(func(v ssa.Value) bool { return ssau.IsCallTo(ssau.Unwrap(v), ctc) }, isConstInt(1), token.EQL, true)(i)
		}, G1Opt{BoolSuccess: true})
		// no-credentials arm also requires User == Pass
		// (success is reached only through User == Pass or a constant-time match; the test may live in a predicate helper)
		c.GuardSuccess("G2-access", "checkAuth|no-credential arm requires User == Pass", au, "User == Pass / ConstantTimeCompare == 1", func(i *ssa.If) (bool, bool) {
			if m, arm := condCmp(fieldIs("RpcConfiguration", "User"), fieldIs("RpcConfiguration", "Pass"), token.EQL, true)(i); m {
				return m, arm
			}
			return condCmp(func(v ssa.Value) bool { return ssau.IsCallTo(ssau.Unwrap(v), ctc) }, isConstInt(1), token.EQL, true)(i)
		}, G1Opt{BoolSuccess: true})
		for _, call := range ssau.CallsIn(au, ctc) {
			a := call.Common().Args
			sides := []ssa.Value{a[0], a[1]}
			var hdrSide, cfgSide ssa.Value
			for _, sd := range sides {
				if ssau.DependsOn(sd, func(y ssa.Value) bool { return ssau.IsFieldOf(y, "Request", "Header") }) {
					hdrSide = sd
				}
				if ssau.DependsOn(sd, func(y ssa.Value) bool { return ssau.IsFieldOf(y, "RpcConfiguration", "User") }) {
					cfgSide = sd
				}
			}
			c.R.Check("G2-access", "checkAuth|compares header with configured credential", hdrSide != nil && cfgSide != nil && hdrSide != cfgSide, c.posOf(call), "one side derives from r.Header, the other from User and Pass")
			if hdrSide != nil && cfgSide != nil {
				callsOn := func(v ssa.Value) []string {
					set := map[string]bool{}
					ssau.DependsOn(v, func(y ssa.Value) bool {
						if cl, ok := y.(*ssa.Call); ok {
							if f := cl.Call.StaticCallee(); f != nil {
								set[f.String()] = true
							} else if o := ssau.CalleeObj(&cl.Call); o != nil {
								set[o.FullName()] = true
							}
						}
						return false
					})
					var out []string
					for k := range set {
						out = append(out, k)
					}
					sort.Strings(out)
					return out
				}
				hc, cc := callsOn(hdrSide), callsOn(cfgSide)
				okH := strings.Join(hc, ",") == "crypto/sha256.Sum256"
				okC := strings.Join(cc, ",") == "(*encoding/base64.Encoding).EncodeToString,crypto/sha256.Sum256"
				c.R.Check("G2-access", "checkAuth|header side untransformed", okH, c.posOf(call), fmt.Sprintf("functions applied to the received header before comparison: %v (only the hash is allowed)", hc))
				c.R.Check("G2-access", "checkAuth|configured side = Basic base64(User:Pass)", okC && ssau.DependsOn(cfgSide, fieldIs("RpcConfiguration", "Pass")), c.posOf(call), fmt.Sprintf("functions applied to the configured credential: %v", cc))
			}
		}
	}

	// R-level
	st := c.fn(hp, "", "StartRPCServer")
	lvl := callPred(R{"servers", "", "checkRPCServiceLevel"})
	if st != nil {
		handlers := map[string]*ssa.Function{}
		for _, b := range st.Blocks {
			for _, in := range b.Instrs {
				if up, ok := in.(*ssa.MapUpdate); ok {
					if f, ok := ssau.Unwrap(up.Value).(*ssa.Function); ok {
						handlers[f.Name()] = f
					} else if ct, ok := up.Value.(*ssa.ChangeType); ok {
						if f, ok := ct.X.(*ssa.Function); ok {
							handlers[f.Name()] = f
						}
					}
				}
			}
		}
		c.R.FloorCheck("R-level registered handlers", len(handlers), 60)
		nPriv := 0
		var names []string
		for n := range handlers {
			names = append(names, n)
		}
		sort.Strings(names)
		for _, name := range names {
			f := handlers[name]
			sinks := c.rpcSinks(f)
			checks := ssau.CallsIn(f, lvl)
			want, tabled := rpcLevelTable[name]
			if len(sinks) == 0 && len(checks) == 0 {
				continue
			}
			nPriv++
			if len(checks) == 0 {
				c.R.Check("R-level", "handler|"+name, false, c.pos(f.Pos()), fmt.Sprintf("%s reaches %v without a service-level check", name, sinks))
				continue
			}
			// level argument
			gotLevel := ""
			if k, ok := checks[0].Common().Args[0].(*ssa.Const); ok {
				gotLevel = k.Value.ExactString()
			}
			if tabled {
				wantV, _ := c.constVal("common/config", want)
				c.R.Check("R-level", "level|"+name, gotLevel == fmt.Sprint(wantV), c.posOf(checks[0]), fmt.Sprintf("%s requires level %s (=%d), checks %s", name, want, wantV, gotLevel))
			}
			// every other call / go statement is behind the passed check
			// "passed" = the returned error map is nil
			cut := ssau.NewCut()
			for _, i := range ssau.Ifs(f) {
				if x, trueIsNil, ok := ssau.NilTest(i.Cond); ok && ssau.IsCallTo(ssau.Unwrap(x), lvl) {
					cut.AddEdge(i.Block(), ssau.Arm(i, trueIsNil))
				}
			}
			r := ssau.ReachFromEntry(f, cut)
			bad := ""
			for _, b := range f.Blocks {
				for _, in := range b.Instrs {
					ci, ok := in.(ssa.CallInstruction)
					if !ok || lvl(ci.Common()) {
						continue
					}
					if _, isB := ci.Common().Value.(*ssa.Builtin); isB {
						continue
					}
					if g := ci.Common().StaticCallee(); g != nil && (g.Name() == "ResponsePack") {
						continue
					}
					if r.Instr(in) {
						bad = c.posOf(in)
					}
				}
			}
			det := fmt.Sprintf("%s: every call and go statement is reachable only through the passed service-level check", name)
			if bad != "" {
				det = fmt.Sprintf("%s: an effect at %s is reachable without the service-level check having passed", name, bad)
			}
			c.R.Check("R-level", "dominates|"+name, bad == "", c.posOf(checks[0]), det)
		}
		c.R.FloorCheck("R-level privileged handlers", nPriv, 12)
	}
	if f := c.fn("servers", "", "checkRPCServiceLevel"); f != nil {
		syms := &Symbols{Int: func(v ssa.Value) (string, bool) {
			if paramNamed(v, "level") {
				return "level", true
			}
			if methodCallNamed(v, "RPCServiceLevelFromString") {
				return "cfg", true
			}
			return "", false
		}}
		c.DecisionX("R-level", "checkRPCServiceLevel|table", f, syms, product(nil, map[string][]int64{"level": {0, 1, 2, 3, 4}, "cfg": {0, 1, 2, 3, 4}}), 0, func(e Env) string {
			if e.I["level"] < e.I["cfg"] {
				return "value"
			}
			return "nil"
		})
	}
}

// rpcSinks: privileged operations reachable from a handler through same-package callees (depth 3).
func (c *Ctx) rpcSinks(f *ssa.Function) []string {
	set := map[string]bool{}
	seen := map[*ssa.Function]bool{}
	var walk func(g *ssa.Function, d int)
	walk = func(g *ssa.Function, d int) {
		if g == nil || seen[g] || d > 3 || len(g.Blocks) == 0 {
			return
		}
		seen[g] = true
		for _, b := range g.Blocks {
			for _, in := range b.Instrs {
				ci, ok := in.(ssa.CallInstruction)
				if !ok {
					continue
				}
				o := ssau.CalleeObj(ci.Common())
				if o == nil {
					continue
				}
				pkg := ""
				if o.Pkg() != nil {
					pkg = strings.TrimPrefix(o.Pkg().Path(), "github.com/elastos/Elastos.ELA/")
				}
				recv := ssau.RecvName(o)
				switch {
				case pkg == "pow" && recv == "Service" && (o.Name() == "Start" || o.Name() == "Halt" || o.Name() == "DiscreteMining" || o.Name() == "CreateAuxBlock" || o.Name() == "SubmitAuxBlock"):
					set["pow."+o.Name()] = true
				case o.Name() == "SetPrintLevel":
					set["log.SetPrintLevel"] = true
				case o.Name() == "AppendToTxPool" || o.Name() == "VerifyAndSendTx":
					set["tx-submit:"+o.Name()] = true
				case pkg == "account" && (strings.HasPrefix(o.Name(), "Sign") || strings.HasPrefix(o.Name(), "NewAccountWithPrivateKey")):
					set["account."+o.Name()] = true
				}
				if callee := ci.Common().StaticCallee(); callee != nil && callee.Pkg == f.Pkg {
					walk(callee, d+1)
				}
			}
		}
		for _, a := range g.AnonFuncs {
			walk(a, d+1)
		}
	}
	walk(f, 0)
	var out []string
	for k := range set {
		out = append(out, k)
	}
	sort.Strings(out)
	return out
}
