package props

import (
	"fmt"
	"go/token"
	"go/types"
	"strings"

	"elaverif/ssau"

	"golang.org/x/tools/go/ssa"
)

func init() {
	register(&Check{ID: "C16", Title: "The block database behaves like an ordered, transactional key-value store", Run: runC16})
	register(&Check{ID: "C17", Title: "The block database survives a crash at any point", Run: runC17})
	register(&Check{ID: "C18", Title: "Stored blocks read back byte-for-byte", Run: runC18})
}

const ffl = "database/ffldb"

// treapCall: call of method `method` on the treap held in field `field` of the receiver/object.
func treapCall(field, method string) func(*ssa.CallCommon) bool {
	return func(cm *ssa.CallCommon) bool {
		o := ssau.CalleeObj(cm)
		if o == nil || o.Name() != method || len(cm.Args) == 0 {
			return false
		}
		return ssau.IsFieldOf(ssau.Unwrap(cm.Args[0]), "", field)
	}
}

// mustCallAll: every return of fn is reached only after each listed call (plain must-pass).
func (c *Ctx) mustCallAll(rule, keyPrefix string, fn *ssa.Function, calls map[string]func(*ssa.CallCommon) bool) {
	if fn == nil {
		return
	}
	for name, pred := range calls {
		cs := ssau.CallsIn(fn, pred)
		cut := ssau.NewCut()
		for _, ci := range cs {
			cut.AddInstr(ci)
		}
		r := ssau.ReachFromEntry(fn, cut)
		bad := ""
		for _, ret := range ssau.Returns(fn) {
			if r.Instr(ret) {
				bad = c.posOf(ret)
			}
		}
		c.R.Check(rule, keyPrefix+"|"+name, len(cs) > 0 && bad == "", c.pos(fn.Pos()), fmt.Sprintf("%s: every return passes %s (%d site(s)); bypassing return: %q", fname(fn), name, len(cs), bad))
	}
}

// checkedBefore: call B is reachable only after call A returned a nil error (or true).
func (c *Ctx) checkedBefore(rule, key string, fn *ssa.Function, aName string, a func(*ssa.CallCommon) bool, bName string, b func(*ssa.CallCommon) bool) {
	if fn == nil {
		return
	}
	targets := ssau.CallsIn(fn, b)
	if len(targets) == 0 {
		c.R.Check(rule, key, false, c.pos(fn.Pos()), "no call of "+bName)
		return
	}
	for _, t := range targets {
		c.G2(rule, key, fn, t, aName+" succeeded", func(i *ssa.If) (bool, bool) {
			x, trueIsNil, ok := ssau.NilTest(i.Cond)
			if ok && ssau.IsCallTo(ssau.Unwrap(x), a) {
				return true, trueIsNil
			}
			return false, false
		})
	}
}

func runC16(c *Ctx) {
	c.R.Rule("G-overlay", "transaction.putKey removes the key from pendingRemove and puts it in pendingKeys; deleteKey removes it from pendingKeys and puts it in pendingRemove (both always, with the same key); fetchKey/hasKey consult pendingRemove, then pendingKeys, then the snapshot")
	c.R.Rule("G-update", "db.Update commits only when the user function returned nil and rolls back otherwise; Commit goes through checkClosed and the writable test to writePendingAndCommit; Rollback never reaches the cache commit")
	c.R.Rule("G-flush-order", "dbCache.commitTx: on the flush path the direct leveldb write of the transaction's keys happens only after flush() succeeded (older cached state is written first); without a flush the keys are merged into the cache treaps: per pending key Put+remove-from-removed, per removed key Delete+Put into removed")
	c.R.Rule("G-mutators", "every bucket mutator (Put, Delete, CreateBucket, DeleteBucket) passes checkClosed and the writable test before touching the pending sets")

	pk := c.fn(ffl, "transaction", "putKey")
	c.mustCallAll("G-overlay", "putKey", pk, map[string]func(*ssa.CallCommon) bool{
		"pendingRemove.Delete(key)":  treapCall("pendingRemove", "Delete"),
		"pendingKeys.Put(key,value)": treapCall("pendingKeys", "Put"),
	})
	dk := c.fn(ffl, "transaction", "deleteKey")
	c.mustCallAll("G-overlay", "deleteKey", dk, map[string]func(*ssa.CallCommon) bool{
		"pendingKeys.Delete(key)":    treapCall("pendingKeys", "Delete"),
		"pendingRemove.Put(key,nil)": treapCall("pendingRemove", "Put"),
	})
	for _, f := range []*ssa.Function{pk, dk} {
		if f == nil {
			continue
		}
		for _, call := range ssau.CallsIn(f, func(cm *ssa.CallCommon) bool {
			return treapCall("pendingKeys", "Put")(cm) || treapCall("pendingKeys", "Delete")(cm) || treapCall("pendingRemove", "Put")(cm) || treapCall("pendingRemove", "Delete")(cm)
		}) {
			c.R.Check("G-overlay", f.Name()+"|key argument|"+ssau.CalleeObj(call.Common()).Name(), paramNamed(call.Common().Args[1], "key"), c.posOf(call), "the treap operation is applied to the key parameter")
		}
	}
	for _, name := range []string{"fetchKey", "hasKey"} {
		f := c.fn(ffl, "transaction", name)
		if f == nil {
			continue
		}
		snap := func(cm *ssa.CallCommon) bool {
			o := ssau.CalleeObj(cm)
			return o != nil && (o.Name() == "Get" || o.Name() == "Has") && len(cm.Args) > 0 && ssau.IsFieldOf(ssau.Unwrap(cm.Args[0]), "", "snapshot")
		}
		for _, call := range ssau.CallsIn(f, snap) {
			// on the writable path the snapshot is consulted only when the key is not pending-removed
			base := ssau.NewCut()
			for _, i := range ssau.Ifs(f) {
				x, neg := ssau.StripNot(i.Cond)
				if ssau.IsFieldOf(ssau.Unwrap(x), "transaction", "writable") {
					base.AddEdge(i.Block(), ssau.Arm(i, neg)) // assume writable
				}
			}
			cut := base.Clone()
			n := 0
			for _, i := range ssau.Ifs(f) {
				x, neg := ssau.StripNot(i.Cond)
				if ssau.IsCallTo(x, treapCall("pendingRemove", "Has")) {
					n++
					cut.AddEdge(i.Block(), ssau.Arm(i, neg)) // required: Has == false
				}
			}
			ok := n > 0 && !ssau.ReachFromEntry(f, cut).Instr(call)
			c.R.Check("G-overlay", name+"|snapshot only when not pending-removed", ok, c.posOf(call), "on a writable transaction the snapshot is consulted only behind pendingRemove.Has(key) == false")
			// and pendingKeys is consulted before the snapshot
			pkc := ssau.CallsIn(f, func(cm *ssa.CallCommon) bool {
				return treapCall("pendingKeys", "Get")(cm) || treapCall("pendingKeys", "Has")(cm)
			})
			cut2 := base.Clone()
			for _, ci := range pkc {
				cut2.AddInstr(ci)
			}
			c.R.Check("G-overlay", name+"|pendingKeys before snapshot", len(pkc) > 0 && !ssau.ReachFromEntry(f, cut2).Instr(call), c.posOf(call), "on a writable transaction pendingKeys is consulted before the snapshot")
		}
	}

	// Update
	up := c.fn(ffl, "db", "Update")
	if up != nil {
		commit := firstCall(up, callPred(R{ffl, "transaction", "Commit"}))
		rollback := firstCall(up, callPred(R{ffl, "transaction", "Rollback"}))
		userFn := func(cm *ssa.CallCommon) bool {
			p, ok := cm.Value.(*ssa.Parameter)
			return ok && p.Name() == "fn"
		}
		sel := func(requiredNil bool) IfArm {
			return func(i *ssa.If) (bool, bool) {
				x, trueIsNil, ok := ssau.NilTest(i.Cond)
				if ok && ssau.IsCallTo(ssau.Unwrap(x), userFn) {
					return true, trueIsNil == requiredNil
				}
				return false, false
			}
		}
		c.G2("G-update", "Update|commit only on nil", up, commit, "fn(tx) == nil", sel(true))
		c.G2("G-update", "Update|rollback only on error", up, rollback, "fn(tx) != nil", sel(false))
		// every return passes Commit or Rollback (after begin succeeded)
		c.G1s("G-update", "Update|ends in Commit or error", up, "tx.Commit", callPred(R{ffl, "transaction", "Commit"}), G1Opt{})
		nDefer := 0
		for _, b := range up.Blocks {
			for _, in := range b.Instrs {
				if d, ok := in.(*ssa.Defer); ok && d.Call.StaticCallee() != nil && d.Call.StaticCallee().Name() == "rollbackOnPanic" {
					nDefer++
				}
			}
		}
		c.R.Check("G-update", "Update|rollbackOnPanic deferred", nDefer == 1, c.pos(up.Pos()), "defer rollbackOnPanic(tx)")
	}
	if cm := c.fn(ffl, "transaction", "Commit"); cm != nil {
		wp := callPred(R{ffl, "transaction", "writePendingAndCommit"})
		c.checkedBefore("G-update", "Commit|checkClosed before write", cm, "checkClosed", callPred(R{ffl, "transaction", "checkClosed"}), "writePendingAndCommit", wp)
		for _, t := range ssau.CallsIn(cm, wp) {
			c.G2("G-update", "Commit|writable before write", cm, t, "tx.writable", func(i *ssa.If) (bool, bool) {
				x, neg := ssau.StripNot(i.Cond)
				if ssau.IsFieldOf(ssau.Unwrap(x), "transaction", "writable") {
					return true, !neg
				}
				return false, false
			})
		}
	}
	// G-skip: both merged iterators step over database keys that the pending layer overrides
	c.R.Rule("G-skip", "cursor.skipPendingUpdates and dbCacheIterator.skipPendingUpdates return with a still valid database iterator only when its key is in neither pendingRemove nor pendingKeys of the layer above (a key that is pending is served by the pending/cache iterator; leaving it in the database iterator yields it twice or resurrects a removed key)")
	for _, rt := range []string{"cursor", "dbCacheIterator"} {
		f := c.fn(ffl, rt, "skipPendingUpdates")
		if f == nil {
			continue
		}
		validFalse := func(i *ssa.If) (bool, bool) {
			x, neg := ssau.StripNot(i.Cond)
			if cl, ok := x.(*ssa.Call); ok && cl.Call.IsInvoke() && cl.Call.Method.Name() == "Valid" {
				return true, neg // required arm: Valid() == false
			}
			return false, false
		}
		for _, fld := range []string{"pendingRemove", "pendingKeys"} {
			has := treapCall(fld, "Has")
			cut := ssau.NewCut()
			nv := c.matchGuards(f, validFalse, cut, 0)
			nh := c.matchGuards(f, func(i *ssa.If) (bool, bool) {
				x, neg := ssau.StripNot(i.Cond)
				if cl, ok := x.(*ssa.Call); ok && has(&cl.Call) {
					return true, neg // required arm: Has(key) == false
				}
				return false, false
			}, cut, 0)
			// the answer may flow into a joined flag (skip := a || b) instead of being branched on: the incoming edge
			// that carries it stands for the test
			for _, i := range ssau.Ifs(f) {
				base, _ := ssau.StripNot(i.Cond)
				phi, ok := base.(*ssa.Phi)
				if !ok || phi.Block() != i.Block() {
					continue
				}
				for k, e := range phi.Edges {
					if cl, ok := e.(*ssa.Call); ok && has(&cl.Call) {
						cut.AddEdge(phi.Block().Preds[k], phi.Block())
						nh++
					}
				}
			}
			r := ssau.ReachFromEntry(f, cut)
			bad := ""
			for _, ret := range ssau.Returns(f) {
				if r.Instr(ret) {
					bad = c.posOf(ret)
				}
			}
			c.R.Check("G-skip", rt+".skipPendingUpdates|stops only on a key not in "+fld, nv > 0 && nh > 0 && bad == "", c.pos(f.Pos()),
				fmt.Sprintf("the function can return with a valid database iterator without %s.Has(key) having answered false (tests found: Valid %d, Has %d)", fld, nv, nh))
		}
	}
	// who may call commitTx / writePendingAndCommit
	if f := c.fn(ffl, "dbCache", "commitTx"); f != nil {
		cs := c.staticCallers(f)
		ok := true
		for g := range cs {
			if fname(g) != "(*database/ffldb.transaction).writePendingAndCommit" {
				ok = false
			}
		}
		c.R.Check("G-update", "commitTx|callers", ok && len(cs) == 1, c.pos(f.Pos()), fmt.Sprintf("callers: %v", callerNames(cs)))
	}
	if f := c.fn(ffl, "transaction", "writePendingAndCommit"); f != nil {
		cs := c.staticCallers(f)
		ok := true
		for g := range cs {
			if fname(g) != "(*database/ffldb.transaction).Commit" {
				ok = false
			}
		}
		c.R.Check("G-update", "writePendingAndCommit|callers", ok && len(cs) == 1, c.pos(f.Pos()), fmt.Sprintf("callers: %v", callerNames(cs)))
	}

	// commitTx ordering and merge
	ct := c.fn(ffl, "dbCache", "commitTx")
	if ct != nil {
		ctw := c.relocate(ct, callPred(R{ffl, "dbCache", "commitTreaps"}))
		c.checkedBefore("G-flush-order", "commitTx|flush before direct write", ctw, "c.flush()", callPred(R{ffl, "dbCache", "flush"}), "commitTreaps(tx.pending...)", callPred(R{ffl, "dbCache", "commitTreaps"}))
		for _, t := range ssau.CallsIn(ctw, callPred(R{ffl, "dbCache", "commitTreaps"})) {
			a := t.Common().Args
			c.R.Check("G-flush-order", "commitTx|direct write args", fieldIs("transaction", "pendingKeys")(stripIface(a[1])) && fieldIs("transaction", "pendingRemove")(stripIface(a[2])), c.posOf(t), "commitTreaps(tx.pendingKeys, tx.pendingRemove)")
		}
		// merge closures
		var seenPut, seenRem bool
		// the merge closures live in commitTx or in a helper of the cache it calls; the treaps they update are
		// identified by role (which cache field the new root is stored into), not by variable name
		hosts := []*ssa.Function{ct}
		for _, b := range ct.Blocks {
			for _, in := range b.Instrs {
				if cl, ok := in.(*ssa.Call); ok {
					if h := cl.Call.StaticCallee(); h != nil && h.Pkg == ct.Pkg && h != ct && len(h.AnonFuncs) > 0 {
						hosts = append(hosts, h)
					}
				}
			}
		}
		for _, host := range hosts {
			roleOf := func(cell ssa.Value) string {
				for _, b := range host.Blocks {
					for _, in := range b.Instrs {
						st, ok := in.(*ssa.Store)
						if !ok {
							continue
						}
						ld, ok := st.Val.(*ssa.UnOp)
						if !ok || ld.X != cell {
							continue
						}
						if ssau.IsFieldOf(st.Addr, "dbCache", "cachedKeys") {
							return "keys"
						}
						if ssau.IsFieldOf(st.Addr, "dbCache", "cachedRemove") {
							return "remove"
						}
					}
				}
				return ""
			}
			for _, b := range host.Blocks {
				for _, in := range b.Instrs {
					mc, ok := in.(*ssa.MakeClosure)
					if !ok {
						continue
					}
					a := mc.Fn.(*ssa.Function)
					names := map[string]bool{}
					for _, call := range ssau.CallsIn(a, func(cm *ssa.CallCommon) bool {
						o := ssau.CalleeObj(cm)
						return o != nil && (o.Name() == "Put" || o.Name() == "Delete")
					}) {
						role := ""
						if fv, ok := ssau.AddrRoot(ssau.Unwrap(call.Common().Args[0])).(*ssa.UnOp); ok {
							if v, ok := fv.X.(*ssa.FreeVar); ok {
								for k, f := range a.FreeVars {
									if f == v && k < len(mc.Bindings) {
										role = roleOf(mc.Bindings[k])
									}
								}
							}
						}
						names[role+"."+ssau.CalleeObj(call.Common()).Name()] = true
					}
					if names["remove.Delete"] && names["keys.Put"] {
						seenPut = true
					}
					if names["keys.Delete"] && names["remove.Put"] {
						seenRem = true
					}
				}
			}
		}
		c.R.Check("G-flush-order", "commitTx|merge of pending keys", seenPut, c.pos(ct.Pos()), "per pending key: cachedRemove.Delete(k) and cachedKeys.Put(k,v)")
		c.R.Check("G-flush-order", "commitTx|merge of pending removals", seenRem, c.pos(ct.Pos()), "per removed key: cachedKeys.Delete(k) and cachedRemove.Put(k,nil)")
	}

	// mutators
	n := 0
	for _, m := range []string{"Put", "Delete", "CreateBucket", "DeleteBucket"} {
		f := c.fn(ffl, "bucket", m)
		if f == nil {
			continue
		}
		n++
		touch := func(cm *ssa.CallCommon) bool {
			o := ssau.CalleeObj(cm)
			return o != nil && (o.Name() == "putKey" || o.Name() == "deleteKey")
		}
		c.checkedBefore("G-mutators", m+"|checkClosed first", f, "checkClosed", callPred(R{ffl, "transaction", "checkClosed"}), "putKey/deleteKey", touch)
		for _, t := range ssau.CallsIn(f, touch) {
			c.G2("G-mutators", m+"|writable", f, t, "tx.writable", func(i *ssa.If) (bool, bool) {
				x, neg := ssau.StripNot(i.Cond)
				if ssau.IsFieldOf(ssau.Unwrap(x), "transaction", "writable") {
					return true, !neg
				}
				return false, false
			})
		}
	}
	c.R.FloorCheck("G-mutators", n, 4)
}

func runC17(c *Ctx) {
	c.R.Rule("G-sync-order", "dbCache.flush: block files are synced (syncBlocks checked) before any metadata reaches leveldb (commitTreaps); dbCache.commitTx: flush() succeeded before the direct write")
	c.R.Rule("G-commit", "writePendingAndCommit: the rollback point is read from the write cursor before any block is written; every error return after the first writeBlock passes handleRollback(old file, old offset); the cache commit is reachable only after the write-cursor row Put succeeded on every path, and the row is serialised from the cursor as it stands after the block loop")
	c.R.Rule("G-write", "blockStore.writeBlock: each of the four writeData calls (network, length, block, checksum) is checked; the returned location uses the offset captured before the first of them and the file number after a possible rollover")
	c.R.Rule("G-rollback", "blockStore.handleRollback: the delete loop decrements wc.curFileNum itself (so the file opened and truncated afterwards is the rollback file), Truncate uses the old offset and is followed by Sync; the deferred cursor reset assigns both fields")
	c.R.Rule("G-reconcile", "openDB returns only through reconcileDB; reconcileDB truncates through handleRollback(metadata file, metadata offset) exactly when the files on disk are ahead of the metadata and reports corruption when they are behind (decision table over the four cursor values)")

	c.R.Rule("G-atomic", "dbCache.commitTreaps hands every key and removal to leveldb inside one leveldb transaction: all Put/Delete calls (in its closures) are on the *leveldb.Transaction that the single updateDB call passes in, none goes to the *leveldb.DB directly or through a separately written batch; updateDB opens the transaction, discards it when the callback fails and commits it (checked) otherwise")
	if ct := c.fn(ffl, "dbCache", "commitTreaps"); ct != nil {
		recvTypeName := func(cm *ssa.CallCommon) string {
			o := ssau.CalleeObj(cm)
			if o == nil {
				return ""
			}
			sig, ok := o.Type().(*types.Signature)
			if !ok || sig.Recv() == nil || o.Pkg() == nil || !strings.HasSuffix(o.Pkg().Path(), "goleveldb/leveldb") {
				return ""
			}
			return ssau.TypeName(sig.Recv().Type()) + "." + o.Name()
		}
		fns := []*ssa.Function{ct}
		var addAnon func(f *ssa.Function)
		addAnon = func(f *ssa.Function) {
			for _, a := range f.AnonFuncs {
				fns = append(fns, a)
				addAnon(a)
			}
		}
		addAnon(ct)
		// helpers of the package that the transaction callback hands the leveldb transaction to
		seenF := map[*ssa.Function]bool{}
		for _, f := range fns {
			seenF[f] = true
		}
		for i := 0; i < len(fns) && i < 64; i++ {
			for _, b := range fns[i].Blocks {
				for _, in := range b.Instrs {
					if ci, ok := in.(ssa.CallInstruction); ok {
						if g := ci.Common().StaticCallee(); g != nil && g.Pkg == ct.Pkg && !seenF[g] && len(g.Blocks) > 0 && g.Name() != "updateDB" {
							takesTx := false
							for _, prm := range g.Params {
								if strings.HasSuffix(prm.Type().String(), "leveldb.Transaction") {
									takesTx = true
								}
							}
							if takesTx {
								seenF[g] = true
								fns = append(fns, g)
								addAnon(g)
							}
						}
					}
				}
			}
		}
		nTx, bad := 0, ""
		for _, f := range fns {
			for _, b := range f.Blocks {
				for _, in := range b.Instrs {
					ci, ok := in.(ssa.CallInstruction)
					if !ok {
						continue
					}
					switch n := recvTypeName(ci.Common()); n {
					case "Transaction.Put", "Transaction.Delete":
						nTx++
					case "":
					default:
						// any other leveldb write API (DB.Put/Delete/Write, Batch.*, Transaction.Write ...)
						if strings.HasPrefix(n, "DB.") || strings.HasPrefix(n, "Batch.") || strings.HasSuffix(n, ".Write") {
							bad = n + " at " + c.posOf(in)
						}
					}
				}
			}
		}
		ud := ssau.CallsIn(ct, callPred(R{ffl, "dbCache", "updateDB"}))
		c.R.Check("G-atomic", "commitTreaps|one leveldb transaction", len(ud) == 1 && nTx >= 2 && bad == "", c.pos(ct.Pos()),
			fmt.Sprintf("%d updateDB call(s), %d writes on the leveldb transaction, writes that bypass it: %q", len(ud), nTx, bad))
	}
	if ud := c.fn(ffl, "dbCache", "updateDB"); ud != nil {
		lv := func(name string) func(*ssa.CallCommon) bool {
			return func(cm *ssa.CallCommon) bool {
				o := ssau.CalleeObj(cm)
				return o != nil && o.Name() == name && o.Pkg() != nil && strings.HasSuffix(o.Pkg().Path(), "goleveldb/leveldb")
			}
		}
		c.G1s("G-atomic", "updateDB|commit checked on success", ud, "ldbTx.Commit", lv("Commit"), G1Opt{})
		// the callback's failure never reaches Commit
		cb := func(cm *ssa.CallCommon) bool { return cm.StaticCallee() == nil && !cm.IsInvoke() && paramNamed(cm.Value, "fn") }
		for _, cm := range ssau.CallsIn(ud, lv("Commit")) {
			c.G2("G-atomic", "updateDB|commit only after the callback succeeded", ud, cm, "fn(ldbTx) == nil", isErrNilOf(cb))
		}
		c.R.Check("G-atomic", "updateDB|opens a transaction", len(ssau.CallsIn(ud, lv("OpenTransaction"))) == 1, c.pos(ud.Pos()), "updateDB starts exactly one leveldb transaction")
	}
	fl := c.fn(ffl, "dbCache", "flush")
	c.checkedBefore("G-sync-order", "flush|syncBlocks before commitTreaps", fl, "store.syncBlocks()", callPred(R{ffl, "blockStore", "syncBlocks"}), "commitTreaps", callPred(R{ffl, "dbCache", "commitTreaps"}))
	ct := c.fn(ffl, "dbCache", "commitTx")
	c.checkedBefore("G-sync-order", "commitTx|flush before direct write", c.relocate(ct, callPred(R{ffl, "dbCache", "commitTreaps"})), "c.flush()", callPred(R{ffl, "dbCache", "flush"}), "commitTreaps", callPred(R{ffl, "dbCache", "commitTreaps"}))

	wp := c.fn(ffl, "transaction", "writePendingAndCommit")
	if wp != nil {
		wb := callPred(R{ffl, "blockStore", "writeBlock"})
		hrb := callPred(R{ffl, "blockStore", "handleRollback"})
		// the block loop may live in a helper of the transaction that writePendingAndCommit calls; the first write
		// is then that call
		host, via := c.relocateVia(wp, func(g *ssa.Function) bool { return len(ssau.CallsIn(g, wb)) > 0 })
		calls := ssau.CallsIn(host, wb)
		var firstW ssa.Instruction
		if via != nil {
			firstW = via
		} else if len(calls) > 0 {
			firstW = calls[0]
		}
		// rollback operations in writePendingAndCommit: handleRollback itself or a closure that calls it
		rbClosures := map[*ssa.Function]bool{}
		for _, a := range wp.AnonFuncs {
			if len(ssau.CallsIn(a, hrb)) > 0 {
				rbClosures[a] = true
			}
		}
		isRB := func(cm *ssa.CallCommon) bool {
			if hrb(cm) {
				return true
			}
			if mc, ok := cm.Value.(*ssa.MakeClosure); ok {
				if f, ok := mc.Fn.(*ssa.Function); ok && rbClosures[f] {
					return true
				}
			}
			return rbClosures[cm.StaticCallee()]
		}
		rbSites := ssau.CallsIn(wp, isRB)
		if firstW == nil || len(rbSites) == 0 {
			c.R.Check("G-commit", "writePendingAndCommit|rollback closure", false, c.pos(wp.Pos()), "writeBlock call or rollback of the block files not found")
		} else {
			cut := ssau.NewCut()
			for _, ci := range rbSites {
				cut.AddInstr(ci)
			}
			ra := ssau.ReachAfter(wp, firstW, cut)
			ec := &ssau.ExitClassifier{Fn: wp, Idx: 0}
			bad := ""
			for _, ret := range ec.FailExitsIn(ra, cut) {
				bad = c.posOf(ret)
			}
			c.R.Check("G-commit", "writePendingAndCommit|error exits roll the block files back", bad == "", c.posOf(firstW), fmt.Sprintf("error return reachable after writeBlock without rollback(): %q", bad))
			// rollback arguments: the cursor fields read before the first write (directly, or captured by the closure)
			var hcalls []ssa.CallInstruction
			hcalls = append(hcalls, ssau.CallsIn(wp, hrb)...)
			for a := range rbClosures {
				hcalls = append(hcalls, ssau.CallsIn(a, hrb)...)
			}
			resolve := func(x ssa.Value) ssa.Value {
				// a captured variable: the single value stored into its cell by writePendingAndCommit
				if ld, ok := x.(*ssa.UnOp); ok && ld.Op == token.MUL {
					if fv, ok := ld.X.(*ssa.FreeVar); ok {
						fn := fv.Parent()
						for _, b := range wp.Blocks {
							for _, in := range b.Instrs {
								mc, ok := in.(*ssa.MakeClosure)
								if !ok || mc.Fn != ssa.Value(fn) {
									continue
								}
								for k, f := range fn.FreeVars {
									if f == fv && k < len(mc.Bindings) {
										if al, ok := mc.Bindings[k].(*ssa.Alloc); ok {
											if sts := ssau.StoresInto(al); len(sts) == 1 {
												return sts[0].Val
											}
										}
									}
								}
							}
						}
					}
					if al, ok := ld.X.(*ssa.Alloc); ok {
						if sts := ssau.StoresInto(al); len(sts) == 1 {
							return sts[0].Val
						}
					}
				}
				return x
			}
			before := func(v ssa.Value) bool {
				in, ok := v.(ssa.Instruction)
				if !ok || in.Parent() != wp {
					return false
				}
				if !in.Block().Dominates(firstW.Block()) {
					return false
				}
				if H := ssau.EnclosingLoopHeader(firstW.Block()); H != nil && ssau.LoopBody(H)[in.Block()] {
					return false
				}
				return !ssau.ReachAfter(wp, firstW, nil).Instr(in)
			}
			for _, h := range hcalls {
				a := h.Common().Args
				ok := len(a) == 3
				if ok {
					f0, f1 := resolve(a[1]), resolve(a[2])
					ok = fieldIs("writeCursor", "curFileNum")(f0) && fieldIs("writeCursor", "curOffset")(f1) && before(f0) && before(f1)
				}
				c.R.Check("G-commit", "writePendingAndCommit|rollback arguments", ok, c.posOf(h), "handleRollback(file, offset) receives the write cursor's curFileNum and curOffset as read before the first block was written")
			}
		}
		// write cursor row before cache commit
		rowPut := func(cm *ssa.CallCommon) bool {
			o := ssau.CalleeObj(cm)
			if o == nil || o.Name() != "Put" || len(cm.Args) < 3 {
				return false
			}
			return ssau.DependsOn(cm.Args[1], func(x ssa.Value) bool { g, ok := x.(*ssa.Global); return ok && g.Name() == "writeLocKeyName" })
		}
		rowHost, rowVia := c.relocateVia(wp, func(g *ssa.Function) bool { return len(ssau.CallsIn(g, rowPut)) > 0 })
		if rowVia == nil {
			c.checkedBefore("G-commit", "writePendingAndCommit|write-cursor row persisted before the cache commit", wp, "metaBucket.Put(writeLocKeyName, row)", rowPut, "cache.commitTx", callPred(R{ffl, "dbCache", "commitTx"}))
		} else {
			// the row is written by a helper: its success exits pass the checked Put, and the cache commit is behind
			// the helper's success
			c.exitMustPass("G-commit", "writePendingAndCommit|write-cursor row persisted before the cache commit", rowHost, "metaBucket.Put(writeLocKeyName, row)", rowPut, true)
			c.checkedBefore("G-commit", "writePendingAndCommit|write-cursor row persisted before the cache commit", wp, rowHost.Name()+"()", func(cm *ssa.CallCommon) bool { return cm.StaticCallee() == rowHost }, "cache.commitTx", callPred(R{ffl, "dbCache", "commitTx"}))
		}
		for _, call := range ssau.CallsIn(rowHost, namedCall("serializeWriteRow")) {
			a := call.Common().Args
			okArgs := fieldIs("writeCursor", "curFileNum")(a[0]) && fieldIs("writeCursor", "curOffset")(a[1])
			// the loads are taken after the block loop
			after := true
			for _, w := range ssau.CallsIn(rowHost, wb) {
				H := ssau.EnclosingLoopHeader(w.Block())
				if H != nil && ssau.LoopBody(H)[call.Block()] {
					after = false
				}
				if call.Block().Dominates(w.Block()) {
					after = false
				}
			}
			if rowHost != host && len(ssau.CallsIn(rowHost, wb)) == 0 {
				// the row is built in another function than the block loop: it must run after the loop's function
				after = false
			}
			c.R.Check("G-commit", "writePendingAndCommit|row = cursor after the block loop", okArgs && after, c.posOf(call), "serializeWriteRow(wc.curFileNum, wc.curOffset) evaluated after all blocks were written")
		}
		// block index row put checked per block
		c.iterMustPass("G-commit", "writePendingAndCommit|per block: write + index row", wp, "store.writeBlock", wb, true)
	}

	// writeBlock
	wbf := c.fn(ffl, "blockStore", "writeBlock")
	if wbf != nil {
		wd := ssau.CallsIn(wbf, callPred(R{ffl, "blockStore", "writeData"}))
		c.R.Check("G-write", "writeBlock|four writes", len(wd) == 4, c.pos(wbf.Pos()), fmt.Sprintf("%d writeData calls", len(wd)))
		for k, ci := range wd {
			ci := ci
			c.G1s("G-write", fmt.Sprintf("writeBlock|writeData#%d checked", k+1), wbf, "writeData", func(cm *ssa.CallCommon) bool { return cm == ci.Common() }, G1Opt{})
		}
		// location
		if len(wd) > 0 {
			okOff, okFile := false, false
			for _, b := range wbf.Blocks {
				for _, in := range b.Instrs {
					st, ok := in.(*ssa.Store)
					if !ok {
						continue
					}
					if ssau.IsFieldOf(st.Addr, "blockLocation", "fileOffset") {
						if ld, ok := ssau.Unwrap(st.Val).(*ssa.UnOp); ok && fieldIs("writeCursor", "curOffset")(ld) && ld.Block().Dominates(wd[0].Block()) && precedes(ld, wd[0]) {
							okOff = true
						}
					}
					if ssau.IsFieldOf(st.Addr, "blockLocation", "blockFileNum") {
						okFile = fieldIs("writeCursor", "curFileNum")(st.Val)
					}
				}
			}
			c.R.Check("G-write", "writeBlock|location offset captured before the first write", okOff, c.pos(wbf.Pos()), "loc.fileOffset = wc.curOffset read before writeData")
			c.R.Check("G-write", "writeBlock|location file = current file", okFile, c.pos(wbf.Pos()), "loc.blockFileNum = wc.curFileNum")
		}
	}

	// handleRollback
	hr := c.fn(ffl, "blockStore", "handleRollback")
	if hr != nil {
		// delete loop: condition reads wc.curFileNum and the loop stores a decrement into it
		okLoop := false
		okDel := false
		for _, i := range ssau.Ifs(hr) {
			if !strings.HasSuffix(blockComment(i), ".loop") {
				continue
			}
			b, ok := i.Cond.(*ssa.BinOp)
			if !ok || b.Op != token.GTR || !fieldIs("writeCursor", "curFileNum")(b.X) || !paramNamed(b.Y, "oldBlockFileNum") {
				continue
			}
			body := ssau.LoopBody(i.Block())
			for blk := range body {
				for _, in := range blk.Instrs {
					if st, ok := in.(*ssa.Store); ok && ssau.IsFieldOf(st.Addr, "writeCursor", "curFileNum") {
						if sub, ok := st.Val.(*ssa.BinOp); ok && sub.Op == token.SUB && fieldIs("writeCursor", "curFileNum")(sub.X) && isConstInt(1)(sub.Y) {
							okLoop = true
						}
					}
					if call, ok := in.(*ssa.Call); ok && call.Call.StaticCallee() == nil && !call.Call.IsInvoke() {
						if fieldIs("blockStore", "deleteFileFunc")(call.Call.Value) && fieldIs("writeCursor", "curFileNum")(call.Call.Args[0]) {
							okDel = true
						}
					}
				}
			}
		}
		c.R.Check("G-rollback", "handleRollback|delete loop walks wc.curFileNum down to the rollback file", okLoop && okDel, c.pos(hr.Pos()), "for ; wc.curFileNum > oldBlockFileNum; wc.curFileNum-- { deleteFileFunc(wc.curFileNum) }")
		okOpen := false
		for _, b := range hr.Blocks {
			for _, in := range b.Instrs {
				if call, ok := in.(*ssa.Call); ok && call.Call.StaticCallee() == nil && !call.Call.IsInvoke() && fieldIs("blockStore", "openWriteFileFunc")(call.Call.Value) {
					okOpen = fieldIs("writeCursor", "curFileNum")(call.Call.Args[0]) || paramNamed(call.Call.Args[0], "oldBlockFileNum")
				}
			}
		}
		c.R.Check("G-rollback", "handleRollback|file reopened is the cursor's file", okOpen, c.pos(hr.Pos()), "openWriteFileFunc(wc.curFileNum) after the loop (equals oldBlockFileNum)")
		tr := namedCall("Truncate")
		sy := namedCall("Sync")
		for _, call := range ssau.CallsIn(hr, tr) {
			a := call.Common().Args
			c.R.Check("G-rollback", "handleRollback|truncate to the old offset", ssau.DependsOn(a[len(a)-1], func(x ssa.Value) bool { return paramNamed(x, "oldBlockOffset") }), c.posOf(call), "Truncate(int64(oldBlockOffset))")
		}
		c.checkedBefore("G-rollback", "handleRollback|sync after truncate", hr, "Truncate", tr, "Sync", sy)
		// deferred reset
		okReset := 0
		for _, a := range hr.AnonFuncs {
			for _, b := range a.Blocks {
				for _, in := range b.Instrs {
					if st, ok := in.(*ssa.Store); ok {
						if ssau.IsFieldOf(st.Addr, "writeCursor", "curFileNum") || ssau.IsFieldOf(st.Addr, "writeCursor", "curOffset") {
							if n := freeVarName(st.Val); n == "oldBlockFileNum" || n == "oldBlockOffset" {
								okReset++
							}
						}
					}
				}
			}
		}
		c.R.Check("G-rollback", "handleRollback|cursor reset", okReset == 2, c.pos(hr.Pos()), fmt.Sprintf("%d of 2 cursor fields reset in the deferred function", okReset))
	}

	// reconcile
	if od := c.fn(ffl, "", "openDB"); od != nil {
		c.G1s("G-reconcile", "openDB|returns through reconcileDB", od, "reconcileDB", callPred(R{ffl, "", "reconcileDB"}), G1Opt{})
	}
	rd := c.fn(ffl, "", "reconcileDB")
	if rd != nil {
		// cursor values from metadata are variables captured by the View closure (allocs); model them symbolically
		syms := &Symbols{
			Bool: func(v ssa.Value) (string, bool) {
				if paramNamed(v, "create") {
					return "create", true
				}
				return "", false
			},
			Int: func(v ssa.Value) (string, bool) {
				v = ssau.Unwrap(v)
				if fieldIs("writeCursor", "curFileNum")(v) {
					return "diskFile", true
				}
				if fieldIs("writeCursor", "curOffset")(v) {
					return "diskOff", true
				}
				if u, ok := v.(*ssa.UnOp); ok && u.Op == token.MUL {
					if a, ok := u.X.(*ssa.Alloc); ok {
						switch a.Comment {
						case "curFileNum":
							return "metaFile", true
						case "curOffset":
							return "metaOff", true
						}
					}
				}
				return "", false
			},
			Nil: func(v ssa.Value) (string, bool) {
				if _, ok := v.(*ssa.Call); ok {
					return "errNil", true
				}
				return "", false
			},
		}
		okAll := true
		detail := ""
		n := 0
		for _, env := range product(nil, map[string][]int64{"diskFile": {1, 2}, "diskOff": {5, 9}, "metaFile": {1, 2}, "metaOff": {5, 9}}) {
			env := env
			env.B["create"] = false
			env.B["errNil"] = true
			res := ssau.AbsWalk(rd, ssau.AbsEnvFunc(func(i *ssa.If, visit int) (bool, bool) {
				return syms.evalCond(i.Cond, env, visit, blockComment(i))
			}))
			if res.Ret == nil {
				okAll = false
				detail = "cannot evaluate " + env.String()
				if res.Unknown != nil {
					detail += ": unknown condition " + ssau.CondString(res.Unknown.Cond) + " at " + c.posOf(res.Unknown)
				}
				break
			}
			rolled := false
			for _, bi := range res.Trace {
				for _, in := range rd.Blocks[bi].Instrs {
					if call, ok := in.(*ssa.Call); ok && callPred(R{ffl, "blockStore", "handleRollback"})(&call.Call) {
						rolled = true
						a := call.Call.Args
						if !(isAllocNamed(a[1], "curFileNum") && isAllocNamed(a[2], "curOffset")) {
							okAll = false
							detail = "handleRollback must be given the metadata cursor (curFileNum, curOffset)"
						}
					}
				}
			}
			out := returnOutcome(res.Ret, 1, res.Trace)
			ahead := env.I["diskFile"] > env.I["metaFile"] || (env.I["diskFile"] == env.I["metaFile"] && env.I["diskOff"] > env.I["metaOff"])
			behind := env.I["diskFile"] < env.I["metaFile"] || (env.I["diskFile"] == env.I["metaFile"] && env.I["diskOff"] < env.I["metaOff"])
			wantErr := behind
			gotErr := out != "nil"
			if rolled != ahead || gotErr != wantErr {
				okAll = false
				detail = fmt.Sprintf("for %s: rollback=%v error=%v; required rollback=%v error=%v", env, rolled, gotErr, ahead, wantErr)
				break
			}
			n++
		}
		if detail == "" {
			detail = fmt.Sprintf("agrees on all %d cursor orderings", n)
		}
		c.R.Check("G-reconcile", "reconcileDB|table", okAll, c.pos(rd.Pos()), detail)
	}
}

func isAllocNamed(v ssa.Value, name string) bool {
	u, ok := ssau.Unwrap(v).(*ssa.UnOp)
	if !ok || u.Op != token.MUL {
		return false
	}
	a, ok := u.X.(*ssa.Alloc)
	return ok && a.Comment == name
}

// precedes: a comes before b when both are in the same block; true when in different blocks (dominance is checked by the caller).
func precedes(a ssa.Instruction, b ssa.Instruction) bool {
	if a.Block() != b.Block() {
		return true
	}
	for _, in := range a.Block().Instrs {
		if in == a {
			return true
		}
		if in == b {
			return false
		}
	}
	return false
}

func runC18(c *Ctx) {
	c.R.Rule("A-evict", "blockStore.openFile, when it closes the least recently used block file, removes exactly that file from both bookkeeping maps: the key deleted from openBlockFiles and from fileNumToLRUElem is the key under which the closed file was looked up (otherwise a closed handle stays cached and every later read of that file fails)")
	if of := c.fn(ffl, "blockStore", "openFile"); of != nil {
		// the eviction step may be a method of the store that openFile calls
		of = c.relocateBy(of, func(g *ssa.Function) bool {
			for _, b := range g.Blocks {
				for _, in := range b.Instrs {
					if ci, ok := in.(ssa.CallInstruction); ok {
						if bi, ok := ci.Common().Value.(*ssa.Builtin); ok && bi.Name() == "delete" && ssau.IsFieldOf(ssau.Unwrap(ci.Common().Args[0]), "blockStore", "openBlockFiles") {
							return true
						}
					}
				}
			}
			return false
		})
		var closedKey ssa.Value
		for _, call := range ssau.CallsIn(of, namedCall("Close")) {
			// file.Close() of openBlockFiles[K].file
			recv := call.Common().Value
			if !call.Common().IsInvoke() {
				if len(call.Common().Args) == 0 {
					continue
				}
				recv = call.Common().Args[0]
			}
			ssau.DependsOn(recv, func(x ssa.Value) bool {
				if lk, ok := x.(*ssa.Lookup); ok && ssau.IsFieldOf(ssau.Unwrap(lk.X), "blockStore", "openBlockFiles") && closedKey == nil {
					closedKey = ssau.Unwrap(lk.Index)
				}
				return false
			})
		}
		nDel, okDel := 0, closedKey != nil
		for _, b := range of.Blocks {
			for _, in := range b.Instrs {
				ci, ok := in.(ssa.CallInstruction)
				if !ok {
					continue
				}
				bi, ok := ci.Common().Value.(*ssa.Builtin)
				if !ok || bi.Name() != "delete" {
					continue
				}
				m := ssau.Unwrap(ci.Common().Args[0])
				if !ssau.IsFieldOf(m, "blockStore", "openBlockFiles") && !ssau.IsFieldOf(m, "blockStore", "fileNumToLRUElem") {
					continue
				}
				nDel++
				if ssau.Unwrap(ci.Common().Args[1]) != closedKey {
					okDel = false
				}
			}
		}
		c.R.Check("A-evict", "openFile|evicted file removed under its own number", okDel && nDel == 2, c.pos(of.Pos()), fmt.Sprintf("%d deletions from the open-file maps; all keyed by the number of the file that was closed: %v", nDel, okDel))
	}
	c.R.Rule("A-region", "every sibling that serves a block region (fetchPendingRegion, FetchBlockRegion, FetchBlockRegions) reaches its use of the region (slice expression, readBlockRegion call, fetch-list append) only through the false arms of both endOffset < region.Offset (wrap) and endOffset > block length, with endOffset = region.Offset + region.Len")
	c.R.Rule("G-checksum", "blockStore.readBlock returns data only through the equal arm of the stored-vs-computed checksum comparison and the network comparison; the ReadAt error is checked")
	isEnd := func(v ssa.Value) bool {
		b, ok := ssau.Unwrap(v).(*ssa.BinOp)
		return ok && b.Op == token.ADD && ((fieldIs("BlockRegion", "Offset")(b.X) && fieldIs("BlockRegion", "Len")(b.Y)) || (fieldIs("BlockRegion", "Len")(b.X) && fieldIs("BlockRegion", "Offset")(b.Y)))
	}
	n := 0
	for _, name := range []string{"fetchPendingRegion", "FetchBlockRegion", "FetchBlockRegions"} {
		f := c.fn(ffl, "transaction", name)
		if f == nil {
			continue
		}
		var target ssa.Instruction
		switch name {
		case "fetchPendingRegion":
			for _, b := range f.Blocks {
				for _, in := range b.Instrs {
					if sl, ok := in.(*ssa.Slice); ok && sl.Low != nil && fieldIs("BlockRegion", "Offset")(sl.Low) {
						target = sl
					}
				}
			}
		case "FetchBlockRegion":
			target = firstCall(f, callPred(R{ffl, "blockStore", "readBlockRegion"}))
		case "FetchBlockRegions":
			for _, b := range f.Blocks {
				for _, in := range b.Instrs {
					if call, ok := in.(*ssa.Call); ok {
						if bi, ok := call.Call.Value.(*ssa.Builtin); ok && bi.Name() == "append" && strings.Contains(call.Type().String(), "bulkFetchData") {
							target = call
						}
					}
				}
			}
		}
		n++
		c.G2("A-region", name+"|wrap guard", f, target, "endOffset < region.Offset", condCmp(isEnd, fieldIs("BlockRegion", "Offset"), token.LSS, false))
		c.G2("A-region", name+"|range guard", f, target, "endOffset > blockLen", condCmp(isEnd, func(v ssa.Value) bool { return !fieldIs("BlockRegion", "Offset")(v) }, token.GTR, false))
	}
	c.R.FloorCheck("A-region", n, 3)
	// the bulk variant reads with the checked region
	if f := c.fn(ffl, "transaction", "FetchBlockRegions"); f != nil {
		for _, call := range ssau.CallsIn(f, callPred(R{ffl, "blockStore", "readBlockRegion"})) {
			a := call.Common().Args
			c.R.Check("A-region", "FetchBlockRegions|reads the checked region", fieldIs("BlockRegion", "Offset")(a[2]) && fieldIs("BlockRegion", "Len")(a[3]), c.posOf(call), "readBlockRegion(location, region.Offset, region.Len)")
		}
	}
	rb := c.fn(ffl, "blockStore", "readBlock")
	if rb != nil {
		crc := func(cm *ssa.CallCommon) bool {
			f := cm.StaticCallee()
			return f != nil && f.String() == "hash/crc32.Checksum"
		}
		c.GuardSuccess("G-checksum", "readBlock|checksum equality", rb, "stored checksum != crc32(data)", condCmp(func(v ssa.Value) bool { return ssau.IsCallTo(ssau.Unwrap(v), crc) }, func(v ssa.Value) bool { return methodCallNamed(ssau.Unwrap(v), "Uint32") }, token.EQL, true), G1Opt{})
		c.GuardSuccess("G-checksum", "readBlock|network equality", rb, "stored network != s.network", condCmp(func(v ssa.Value) bool { return methodCallNamed(ssau.Unwrap(v), "Uint32") }, func(v ssa.Value) bool {
			return ssau.DependsOn(v, func(x ssa.Value) bool { return ssau.IsFieldOf(x, "blockStore", "network") })
		}, token.EQL, true), G1Opt{})
		c.G1s("G-checksum", "readBlock|ReadAt checked", rb, "ReadAt", namedCall("ReadAt"), G1Opt{})
	}

	// ---- rollover / reopen: the persisted write cursor and the rollback of a failed write
	c.R.Rule("W-cursor", "transaction.writePendingAndCommit persists the write cursor as serializeWriteRow(wc.curFileNum, wc.curOffset), both read from the live cursor after the pending blocks were written (not the values saved for rollback); the initial row is (0, 0)")
	c.R.Rule("O-rollback", "blockStore.handleRollback closes the handle of the current write file (when it lies beyond the rollback file) before the cursor's file number is moved back and the newer files are deleted, and re-opens a file for the rolled-back cursor when no handle is installed")
	if w := c.fn(ffl, "transaction", "writePendingAndCommit"); w != nil {
		calls := ssau.CallsIn(w, callPred(R{ffl, "", "serializeWriteRow"}))
		c.R.Check("W-cursor", "writePendingAndCommit|persists the cursor once", len(calls) == 1, c.pos(w.Pos()), fmt.Sprintf("%d serializeWriteRow call(s)", len(calls)))
		for _, cl := range calls {
			a := cl.Common().Args
			okArgs := fieldIs("writeCursor", "curFileNum")(a[0]) && fieldIs("writeCursor", "curOffset")(a[1])
			c.R.Check("W-cursor", "writePendingAndCommit|row = live cursor", okArgs, c.posOf(cl), "the row is built from wc.curFileNum and wc.curOffset")
			// read after the block writes
			writes := ssau.CallsIn(w, callPred(R{ffl, "blockStore", "writeBlock"}))
			okOrder := len(writes) >= 1
			for _, arg := range a[:2] {
				ld, isLd := ssau.Unwrap(arg).(*ssa.UnOp)
				if !isLd {
					okOrder = false
					continue
				}
				// the load must not be reachable before all writes: i.e. cutting at the load, no writeBlock call is reachable after it
				r := ssau.ReachAfter(w, ld, ssau.NewCut())
				for _, wr := range writes {
					if r.Instr(wr) {
						okOrder = false
					}
				}
			}
			c.R.Check("W-cursor", "writePendingAndCommit|cursor read after the block writes", okOrder, c.posOf(cl), "no block is written after the cursor values were read")
			// the row is what gets stored under the write-location key
			okPut := false
			for _, put := range ssau.CallsIn(w, namedCall("Put")) {
				pa := put.Common().Args
				if ssau.DependsOn(pa[len(pa)-1], func(y ssa.Value) bool { return y == cl.Value() }) {
					okPut = true
				}
			}
			c.R.Check("W-cursor", "writePendingAndCommit|row stored in the metadata bucket", okPut, c.posOf(cl), "the serialized row is the value of the Put")
		}
	}
	if h := c.fn(ffl, "blockStore", "handleRollback"); h != nil {
		isNum := fieldIs("writeCursor", "curFileNum")
		var closeIf *ssa.If
		for _, i := range ssau.Ifs(h) {
			b, ok := i.Cond.(*ssa.BinOp)
			if !ok || b.Op != token.GTR || !isNum(b.X) || !paramNamed(b.Y, "oldBlockFileNum") {
				continue
			}
			// the arm that closes: a Close call reachable only through the true arm
			cut := ssau.NewCut()
			cut.AddEdge(i.Block(), ssau.Arm(i, true))
			r := ssau.ReachFromEntry(h, cut)
			for _, cl := range ssau.CallsIn(h, namedCall("Close")) {
				if !r.Instr(cl) {
					closeIf = i
				}
			}
		}
		c.R.Check("O-rollback", "handleRollback|closes the handle of a file that will be deleted", closeIf != nil, c.pos(h.Pos()), "a Close call sits on the true arm of wc.curFileNum > oldBlockFileNum")
		if closeIf != nil {
			cut := ssau.NewCut()
			cut.AddInstr(closeIf)
			r := ssau.ReachFromEntry(h, cut)
			bad := ""
			for _, b := range h.Blocks {
				for _, in := range b.Instrs {
					if st, ok := in.(*ssa.Store); ok && ssau.IsFieldOf(st.Addr, "writeCursor", "curFileNum") && r.Instr(in) {
						bad = c.posOf(in)
					}
					if ci, ok := in.(ssa.CallInstruction); ok && r.Instr(in) {
						if ssau.IsFieldOf(ssau.Unwrap(ci.Common().Value), "blockStore", "deleteFileFunc") {
							bad = c.posOf(in)
						}
					}
				}
			}
			det := "the close test is evaluated before the cursor's file number changes and before any file is deleted"
			if bad != "" {
				det = "the cursor's file number is changed / a file is deleted at " + bad + " before the close test is evaluated"
			}
			c.R.Check("O-rollback", "handleRollback|close before moving the cursor back", bad == "", c.posOf(closeIf), det)
		}
		// reopen when no handle
		okOpen := false
		for _, b := range h.Blocks {
			for _, in := range b.Instrs {
				if ci, ok := in.(ssa.CallInstruction); ok && ssau.IsFieldOf(ssau.Unwrap(ci.Common().Value), "blockStore", "openWriteFileFunc") {
					okOpen = isNum(ci.Common().Args[0])
				}
			}
		}
		c.R.Check("O-rollback", "handleRollback|reopens the rolled-back file", okOpen, c.pos(h.Pos()), "openWriteFileFunc(wc.curFileNum) installs a handle for the rolled-back cursor")
	}
}

func stripIface(v ssa.Value) ssa.Value {
	if m, ok := v.(*ssa.MakeInterface); ok {
		return m.X
	}
	return v
}

// freeVarName: v is a captured variable (or a load of a captured variable's cell); returns its name.
func freeVarName(v ssa.Value) string {
	v = ssau.Unwrap(v)
	if fv, ok := v.(*ssa.FreeVar); ok {
		return fv.Name()
	}
	if u, ok := v.(*ssa.UnOp); ok && u.Op == token.MUL {
		if fv, ok := u.X.(*ssa.FreeVar); ok {
			return fv.Name()
		}
	}
	return "?"
}
