package props

import (
	"fmt"
	"go/token"
	"go/types"

	"elaverif/ssau"

	"golang.org/x/tools/go/ssa"
)

// Static wire-size evaluation of Serialize(io.Writer) methods whose output has a size determined by the code's
// shape alone: a sequence of fixed-width writes, optionally followed by one loop over a list whose length the
// function itself bounds by a constant (len(list) > K rejects). Anything else is "not evaluated" (no claim).

// fixedSize is the number of bytes common.WriteElement / binary.Write produce for a value of type t.
func fixedSize(t types.Type) (int64, bool) {
	switch u := t.Underlying().(type) {
	case *types.Basic:
		switch u.Kind() {
		case types.Bool, types.Int8, types.Uint8:
			return 1, true
		case types.Int16, types.Uint16:
			return 2, true
		case types.Int32, types.Uint32:
			return 4, true
		case types.Int64, types.Uint64:
			return 8, true
		}
		return 0, false
	case *types.Array:
		e, ok := fixedSize(u.Elem())
		return e * u.Len(), ok
	case *types.Pointer:
		return fixedSize(u.Elem())
	case *types.Struct:
		var n int64
		for i := 0; i < u.NumFields(); i++ {
			e, ok := fixedSize(u.Field(i).Type())
			if !ok {
				return 0, false
			}
			n += e
		}
		return n, true
	}
	return 0, false
}

func isIOWriter(t types.Type) bool {
	n, ok := t.(*types.Named)
	return ok && n.Obj().Pkg() != nil && n.Obj().Pkg().Path() == "io" && n.Obj().Name() == "Writer"
}

// variadicArgTypes recovers the static types of the values packed into the variadic ...interface{} argument.
func variadicArgTypes(arg ssa.Value) ([]types.Type, bool) {
	sl, ok := arg.(*ssa.Slice)
	if !ok {
		return nil, false
	}
	al, ok := sl.X.(*ssa.Alloc)
	if !ok {
		return nil, false
	}
	arr, ok := al.Type().Underlying().(*types.Pointer).Elem().Underlying().(*types.Array)
	if !ok {
		return nil, false
	}
	out := make([]types.Type, arr.Len())
	for _, st := range ssau.StoresInto(al) {
		ia, ok := st.Addr.(*ssa.IndexAddr)
		if !ok {
			return nil, false
		}
		k, ok := ia.Index.(*ssa.Const)
		if !ok {
			return nil, false
		}
		mi, ok := st.Val.(*ssa.MakeInterface)
		if !ok {
			return nil, false
		}
		out[k.Int64()] = mi.X.Type()
	}
	for _, t := range out {
		if t == nil {
			return nil, false
		}
	}
	return out, true
}

type wireSize struct {
	prefix, elem, bound int64
	hasLoop             bool
	why                 string
}

func (w wireSize) max() int64 { return w.prefix + w.elem*w.bound }

// writeSiteSize: the number of bytes call writes to the writer, when it is a recognised fixed-width write.
func (c *Ctx) writeSiteSize(call ssa.CallInstruction, depth int) (int64, bool, string) {
	cm := call.Common()
	if cm.IsInvoke() {
		if cm.Method.Name() == "Write" && len(cm.Args) == 1 {
			if sl, ok := cm.Args[0].(*ssa.Slice); ok && sl.Low == nil && sl.High == nil {
				if n, ok := fixedSize(sl.X.Type()); ok {
					if _, isArr := sl.X.Type().Underlying().(*types.Pointer); isArr {
						return n, true, ""
					}
				}
			}
			return 0, false, "Write of a slice of unknown length"
		}
		return 0, false, "dynamic call " + cm.Method.Name()
	}
	o := ssau.CalleeObj(cm)
	if o == nil || o.Pkg() == nil {
		return 0, false, "unresolved call"
	}
	if o.Pkg().Path() == "github.com/elastos/Elastos.ELA/common" {
		switch o.Name() {
		case "WriteUint8":
			return 1, true, ""
		case "WriteUint16":
			return 2, true, ""
		case "WriteUint32":
			return 4, true, ""
		case "WriteUint64":
			return 8, true, ""
		case "WriteElement":
			if mi, ok := cm.Args[1].(*ssa.MakeInterface); ok {
				n, ok := fixedSize(mi.X.Type())
				return n, ok, "element of variable size"
			}
			return 0, false, "element of unknown type"
		case "WriteElements":
			ts, ok := variadicArgTypes(cm.Args[len(cm.Args)-1])
			if !ok {
				return 0, false, "variadic arguments not recovered"
			}
			var n int64
			for _, t := range ts {
				e, ok := fixedSize(t)
				if !ok {
					return 0, false, "element of variable size " + t.String()
				}
				n += e
			}
			return n, true, ""
		}
		return 0, false, "variable-size writer common." + o.Name()
	}
	if o.Name() == "Serialize" && depth < 3 {
		if callee := cm.StaticCallee(); callee != nil && len(callee.Blocks) > 0 {
			w := c.wireSizeOf(callee, depth+1)
			if w.why == "" && !w.hasLoop {
				return w.prefix, true, ""
			}
			return 0, false, "nested " + fname(callee) + ": " + w.why
		}
	}
	return 0, false, "call of " + o.Name()
}

// wireSizeOf evaluates fn = Serialize(w io.Writer) error.
func (c *Ctx) wireSizeOf(fn *ssa.Function, depth int) wireSize {
	var out wireSize
	var wparam *ssa.Parameter
	for _, p := range fn.Params {
		if isIOWriter(p.Type()) {
			wparam = p
		}
	}
	if wparam == nil {
		out.why = "no io.Writer parameter"
		return out
	}
	usesW := func(cm *ssa.CallCommon) bool {
		if cm.IsInvoke() && ssau.Unwrap(cm.Value) == ssa.Value(wparam) {
			return true
		}
		for _, a := range cm.Args {
			if ssau.Unwrap(a) == ssa.Value(wparam) {
				return true
			}
		}
		return false
	}
	var loopH *ssa.BasicBlock
	for _, b := range fn.Blocks {
		for _, in := range b.Instrs {
			call, ok := in.(ssa.CallInstruction)
			if !ok || !usesW(call.Common()) {
				continue
			}
			if _, isDefer := in.(*ssa.Defer); isDefer {
				out.why = "deferred write"
				return out
			}
			n, ok, why := c.writeSiteSize(call, depth)
			if !ok {
				out.why = why
				return out
			}
			hs := loopHeaders(b)
			switch len(hs) {
			case 0:
				// mandatory: without this write no successful return is reached
				cut := ssau.NewCut()
				cut.AddInstr(in)
				r := ssau.ReachFromEntry(fn, cut)
				for _, ret := range ssau.Returns(fn) {
					if r.Instr(ret) && !c.failingReturn(fn, ret) && ssa.Instruction(ret) != in {
						if ssau.ReturnedDirectly(callValue(call)) && ret.Block() == b {
							continue
						}
						out.why = "conditional write"
						return out
					}
				}
				out.prefix += n
			case 1:
				if loopH != nil && loopH != hs[0] {
					out.why = "more than one loop"
					return out
				}
				loopH = hs[0]
				for _, p := range loopH.Preds {
					if ssau.LoopBody(loopH)[p] && !b.Dominates(p) {
						out.why = "conditional write in the loop"
						return out
					}
				}
				out.elem += n
			default:
				out.why = "nested loops"
				return out
			}
		}
	}
	if loopH == nil {
		return out
	}
	out.hasLoop = true
	// the list the loop ranges over and the constant that bounds its length
	hi, ok := loopH.Instrs[len(loopH.Instrs)-1].(*ssa.If)
	if !ok {
		out.why = "loop header without a condition"
		return out
	}
	hb, ok := hi.Cond.(*ssa.BinOp)
	if !ok {
		out.why = "loop over a map or channel"
		return out
	}
	listField := func(v ssa.Value) string {
		v = ssau.Unwrap(v)
		if cl, ok := v.(*ssa.Call); ok {
			if bi, ok := cl.Call.Value.(*ssa.Builtin); ok && bi.Name() == "len" {
				x := ssau.Unwrap(cl.Call.Args[0])
				if ld, ok := x.(*ssa.UnOp); ok && ld.Op == token.MUL {
					if fa, ok := ld.X.(*ssa.FieldAddr); ok {
						return ownerField(fa)
					}
				}
			}
		}
		return ""
	}
	lf := listField(hb.Y)
	if lf == "" {
		lf = listField(hb.X)
	}
	if lf == "" {
		out.why = "loop bound is not the length of a field"
		return out
	}
	found := false
	for _, i := range ssau.Ifs(fn) {
		b, ok := i.Cond.(*ssa.BinOp)
		if !ok || !i.Block().Dominates(loopH) {
			continue
		}
		var k int64
		var okK bool
		var rejectArm bool
		switch {
		case b.Op == token.GTR && listField(b.X) == lf:
			k, okK = constFold(b.Y)
			rejectArm = true
		case b.Op == token.LSS && listField(b.Y) == lf:
			k, okK = constFold(b.X)
			rejectArm = true
		case b.Op == token.LEQ && listField(b.X) == lf:
			k, okK = constFold(b.Y)
			rejectArm = false
		case b.Op == token.GEQ && listField(b.Y) == lf:
			k, okK = constFold(b.X)
			rejectArm = false
		}
		if !okK {
			continue
		}
		// the rejecting arm leads to failing returns only
		arm := ssau.Arm(i, rejectArm)
		if arm == nil {
			continue
		}
		r := ssau.ReachFromBlock(fn, arm, nil)
		rej := true
		for _, ret := range ssau.Returns(fn) {
			if r.Instr(ret) && !c.failingReturn(fn, ret) {
				rej = false
			}
		}
		if rej {
			out.bound, found = k, true
		}
	}
	if !found {
		out.why = "the list length is not bounded by a constant in the writer"
	}
	return out
}

func callValue(ci ssa.CallInstruction) ssa.Value {
	if v, ok := ci.(ssa.Value); ok {
		return v
	}
	return nil
}

// maxLengthCoversWire: for every message type whose Serialize has a statically determined maximum size, the
// constant returned by MaxLength() is at least that size (otherwise a message the node writes is refused on read).
func (c *Ctx) maxLengthCoversWire(rule string, floor int) {
	n := 0
	for f := range c.P.AllFuncs() {
		if f.Name() != "MaxLength" || f.Signature.Recv() == nil || len(f.Blocks) == 0 || !nodeFunc(f) {
			continue
		}
		rets := ssau.Returns(f)
		if len(rets) != 1 {
			continue
		}
		m, ok := constFold(rets[0].Results[0])
		if !ok {
			continue
		}
		recv := f.Signature.Recv().Type()
		ser := c.P.SSA.LookupMethod(recv, f.Pkg.Pkg, "Serialize")
		if ser == nil {
			ser = c.P.SSA.LookupMethod(recv, nil, "Serialize")
		}
		if ser == nil || len(ser.Blocks) == 0 {
			continue
		}
		w := c.wireSizeOf(ser, 0)
		key := "MaxLength>=wire size|" + fname(f)
		if w.why != "" {
			c.R.Info(rule, key, c.pos(ser.Pos()), "written size not statically determined: "+w.why)
			continue
		}
		n++
		desc := fmt.Sprintf("%d", w.prefix)
		if w.hasLoop {
			desc = fmt.Sprintf("%d + %d x %d = %d", w.prefix, w.bound, w.elem, w.max())
		}
		c.R.Check(rule, key, m >= w.max(), c.pos(f.Pos()),
			fmt.Sprintf("MaxLength() = %d but %s writes up to %s bytes: the largest message the node writes would be refused by a reader", m, fname(ser), desc))
	}
	c.R.FloorCheck(rule+" messages with a statically sized writer", n, floor)
}
