package props

import (
	"fmt"
	"go/token"
	"strings"

	"elaverif/ssau"

	"golang.org/x/tools/go/ssa"
)

func init() {
	register(&Check{ID: "C28", Title: "Deposits and vote rights are never overdrawn", Run: runC28})
}

// sumOver: v is a loop-carried sum (phi) whose added terms depend on src.
func sumOver(v ssa.Value, src func(ssa.Value) bool) bool {
	v = ssau.Unwrap(v)
	p, ok := v.(*ssa.Phi)
	if !ok {
		return false
	}
	var leaves []ssa.Value
	phiLeaves(p, map[ssa.Value]bool{}, &leaves)
	hit := false
	for _, l := range leaves {
		if add, ok := l.(*ssa.BinOp); ok && add.Op == token.ADD {
			if ssau.DependsOn(add.Y, src) || ssau.DependsOn(add.X, src) {
				hit = true
			}
		}
	}
	return hit
}

func runC28(c *Ctx) {
	c.R.Rule("G-deposit", "ReturnDepositCoin / ReturnCRDepositCoin SpecialContextCheck accept only through the false arms of `inputs - change > available` and `outputs >= available`, where inputs sums the referenced outputs, change / outputs sum the transaction outputs to / away from the deposit address, and available sums Producer.AvailableAmount() / Committee.GetAvailableDepositAmount() of the signers; the two siblings agree")
	c.R.Rule("G-votes", "VotingTransaction.SpecialContextCheck hands the DPoS v2 content check the difference DposV2VoteRights[stake] - UsedDposV2Votes[stake] of the stake address of the transaction program and fails when the check fails; checkDPoSV2Content adds a vote entry to its running total only behind `entry <= rights - total` (no wrap); ReturnVotes accepts only with value <= rights - used DPoS v2 votes")
	c.R.Rule("A-key", "the stake address that the ReturnVotes check, the state processors and the mempool conflict keys act on comes from the same place (payload code under payload version 0, else the transaction program)")
	c.R.Rule("A-activation", "in State.updateProducersDepositCoin every call of a helper that lowers a producer's locked deposit at DPoS v2 activation is behind producer.state != Canceled and != Returned; the cancel-lockup release is behind the lockup-height equality")

	const tx = "core/transaction"
	type sib struct {
		recv  string
		avail func(ssa.Value) bool
	}
	sibs := []sib{
		{"ReturnDepositCoinTransaction", func(v ssa.Value) bool { return methodCallNamed(v, "AvailableAmount") }},
		{"ReturnCRDepositCoinTransaction", func(v ssa.Value) bool { return methodCallNamed(v, "GetAvailableDepositAmount") }},
	}
	nd := 0
	for _, s := range sibs {
		f := c.fn(tx, s.recv, "SpecialContextCheck")
		if f == nil {
			continue
		}
		nd++
		refVal := func(v ssa.Value) bool { return ssau.IsFieldOf(v, "DefaultChecker", "references") }
		outVal := func(v ssa.Value) bool { return methodCallNamed(v, "Outputs") }
		isAvail := func(v ssa.Value) bool { return sumOver(v, s.avail) }
		isInMinusChange := func(v ssa.Value) bool {
			sub, ok := ssau.Unwrap(v).(*ssa.BinOp)
			return ok && sub.Op == token.SUB && sumOver(sub.X, refVal) && sumOver(sub.Y, outVal)
		}
		isOut := func(v ssa.Value) bool { return sumOver(v, outVal) }
		opt := G1Opt{}
		c.GuardSuccess("G-deposit", s.recv+"|inputs - change <= available", f, "inputValue-changeValue <= available", condCmp(isInMinusChange, isAvail, token.LEQ, true), opt)
		c.GuardSuccess("G-deposit", s.recv+"|outputs < available", f, "outputValue < available", condCmp(isOut, isAvail, token.LSS, true), opt)
		// change and outputs partition the outputs by the deposit address
		part := 0
		for _, i := range ssau.Ifs(f) {
			x, _ := ssau.StripNot(i.Cond)
			if methodCallNamed(x, "IsEqual") && ssau.EnclosingLoopHeader(i.Block()) != nil {
				part++
			}
		}
		c.R.Check("G-deposit", s.recv+"|outputs partitioned by the deposit address", part == 1, c.pos(f.Pos()), "one ProgramHash.IsEqual(deposit address) test splits the outputs into change and withdrawal")
		// a single source address
		c.GuardSuccess("G-deposit", s.recv+"|single deposit address", f, "len(fromAddrMap) == 1", condCmp(func(v ssa.Value) bool {
			return isLenOf(func(x ssa.Value) bool { _, ok := x.(*ssa.MakeMap); return ok })(ssau.Unwrap(v))
		}, isConstInt(1), token.EQL, true), opt)
	}
	c.R.FloorCheck("G-deposit siblings", nd, 2)

	// ---- votes
	if f := c.fn(tx, "VotingTransaction", "SpecialContextCheck"); f != nil {
		chk := callPred(R{tx, "VotingTransaction", "checkDPoSV2Content"})
		calls := ssau.CallsIn(f, chk)
		c.R.Check("G-votes", "Voting|DPoS v2 content checked", len(calls) == 1, c.pos(f.Pos()), fmt.Sprintf("%d call(s) of checkDPoSV2Content", len(calls)))
		if len(calls) == 1 {
			a := calls[0].Common().Args
			rights := a[len(a)-1]
			sub, ok := ssau.Unwrap(rights).(*ssa.BinOp)
			lookupOf := func(v ssa.Value, field string) *ssa.Lookup {
				var lk *ssa.Lookup
				switch x := ssau.Unwrap(v).(type) {
				case *ssa.Lookup:
					lk = x
				case *ssa.Extract:
					lk, _ = x.Tuple.(*ssa.Lookup)
				}
				if lk == nil || !ssau.DependsOn(lk.X, func(y ssa.Value) bool { return ssau.IsFieldOf(y, "", field) }) {
					return nil
				}
				return lk
			}
			okArg := false
			sameKey := false
			if ok && sub.Op == token.SUB {
				l1, l2 := lookupOf(sub.X, "DposV2VoteRights"), lookupOf(sub.Y, "UsedDposV2Votes")
				okArg = l1 != nil && l2 != nil
				if okArg {
					k1, k2 := ssau.Unwrap(l1.Index), ssau.Unwrap(l2.Index)
					root := func(k ssa.Value) ssa.Value {
						if u, ok := k.(*ssa.UnOp); ok {
							return u.X
						}
						return k
					}
					sameKey = root(k1) == root(k2) && ssau.DependsOn(k1, func(y ssa.Value) bool { return methodCallNamed(y, "CreateStakeContractByCode") })
				}
			}
			c.R.Check("G-votes", "Voting|available = rights - used of the same stake address", okArg && sameKey, c.posOf(calls[0]), "the limit passed on is DposV2VoteRights[stake] - UsedDposV2Votes[stake], stake derived from the transaction program")
			cut, unchecked := ssau.CheckedCut(f, calls, false)
			_ = cut
			c.R.Check("G-votes", "Voting|failed content check rejects", len(unchecked) == 0, c.posOf(calls[0]), "the result of checkDPoSV2Content is tested and its error arm fails the transaction")
			// the failing arm cannot reach a success exit in this iteration: errors return immediately
			okFail := true
			for _, i := range ssau.Ifs(f) {
				if m, arm := nilArm(chk)(i); m {
					bad := ssau.Arm(i, !arm)
					if _, isRet := bad.Instrs[len(bad.Instrs)-1].(*ssa.Return); !isRet {
						okFail = false
					}
				}
			}
			c.R.Check("G-votes", "Voting|error arm returns", okFail, c.posOf(calls[0]), "the error arm of the content check returns the failure")
			// vote rights must exist
			c.G2("G-votes", "Voting|stake address has vote rights", f, calls[0], "DposV2VoteRights[stake] exists", func(i *ssa.If) (bool, bool) {
				x, neg := ssau.StripNot(i.Cond)
				if e, ok := x.(*ssa.Extract); ok && e.Index == 1 {
					if lk, ok := e.Tuple.(*ssa.Lookup); ok && lk.CommaOk && ssau.DependsOn(lk.X, func(y ssa.Value) bool { return ssau.IsFieldOf(y, "", "DposV2VoteRights") }) {
						return true, !neg
					}
				}
				return false, false
			})
		}
	}
	if f := c.fn(tx, "VotingTransaction", "checkDPoSV2Content"); f != nil {
		n := 0
		for _, b := range f.Blocks {
			h := ssau.EnclosingLoopHeader(b)
			if h == nil {
				continue
			}
			for _, in := range b.Instrs {
				add, ok := in.(*ssa.BinOp)
				if !ok || add.Op != token.ADD || ssau.TypeName(add.Type()) != "Fixed64" {
					continue
				}
				acc, isPhi := add.X.(*ssa.Phi)
				if !isPhi || acc.Block() != h {
					continue
				}
				n++
				votes := add.Y
				sameField := func(v ssa.Value) bool {
					if v == votes {
						return true
					}
					u1, ok1 := ssau.Unwrap(v).(*ssa.UnOp)
					u2, ok2 := ssau.Unwrap(votes).(*ssa.UnOp)
					if !ok1 || !ok2 {
						return false
					}
					f1, ok1 := u1.X.(*ssa.FieldAddr)
					f2, ok2 := u2.X.(*ssa.FieldAddr)
					return ok1 && ok2 && f1.X == f2.X && f1.Field == f2.Field
				}
				c.G2("G-votes", fmt.Sprintf("checkDPoSV2Content|sum#%d cannot wrap or exceed the rights", n), f, in, "entry <= voteRights - total", condCmp(sameField, func(v ssa.Value) bool {
					sub, ok := ssau.Unwrap(v).(*ssa.BinOp)
					return ok && sub.Op == token.SUB && paramNamed(sub.X, "voteRights") && sub.Y == ssa.Value(acc)
				}, token.LEQ, true))
				c.R.Check("G-votes", fmt.Sprintf("checkDPoSV2Content|sum#%d adds the entry's votes", n), ssau.IsFieldOf(ssau.Unwrap(votes), "VotesWithLockTime", "Votes"), c.posOf(in), "the running total adds cv.Votes of every entry")
			}
		}
		c.R.FloorCheck("G-votes vote accumulations in checkDPoSV2Content", n, 1)
		c.R.Check("G-votes", "checkDPoSV2Content|ranges over every entry", rangesWholeField(f, "VotesInfo"), c.pos(f.Pos()), "the loop ranges over the whole VotesInfo slice")
	}
	if f := c.fn(tx, "ReturnVotesTransaction", "SpecialContextCheck"); f != nil {
		isVal := func(v ssa.Value) bool { return ssau.IsFieldOf(ssau.Unwrap(v), "ReturnVotes", "Value") }
		free := func(field string) func(ssa.Value) bool {
			return func(v ssa.Value) bool {
				sub, ok := ssau.Unwrap(v).(*ssa.BinOp)
				if !ok || sub.Op != token.SUB {
					return false
				}
				lk, ok := ssau.Unwrap(sub.X).(*ssa.Lookup)
				if !ok || !ssau.DependsOn(lk.X, func(y ssa.Value) bool { return ssau.IsFieldOf(y, "", "DposV2VoteRights") }) {
					return false
				}
				lk2, ok := ssau.Unwrap(sub.Y).(*ssa.Lookup)
				return ok && ssau.DependsOn(lk2.X, func(y ssa.Value) bool { return ssau.IsFieldOf(y, "", field) })
			}
		}
		c.GuardSuccess("G-votes", "ReturnVotes|value <= rights - used DPoS v2 votes", f, "pl.Value <= DposV2VoteRights[stake] - UsedDposV2Votes[stake]", condCmp(isVal, free("UsedDposV2Votes"), token.LEQ, true), G1Opt{})
	}

	// ---- A-key: the check itself is a sibling of the processors (C34 compares processors and mempool keys)
	sinks := []string{"CreateStakeContractByCode", "GetProgramHashByCode"}
	type pair struct {
		name string
		a, b *ssa.Function
	}
	var pairs []pair
	pairs = append(pairs, pair{"ReturnVotes check ~ processReturnVotes", c.fn(tx, "ReturnVotesTransaction", "SpecialContextCheck"), c.fn("dpos/state", "State", "processReturnVotes")})
	pairs = append(pairs, pair{"strReturnVotes ~ processReturnVotes", c.fn("mempool", "", "strReturnVotes"), c.fn("dpos/state", "State", "processReturnVotes")})
	pairs = append(pairs, pair{"Voting check ~ processVotingContent", c.fn(tx, "VotingTransaction", "SpecialContextCheck"), c.fn("dpos/state", "State", "processVotingContent")})
	pairs = append(pairs, pair{"strVoting ~ processVotingContent", c.fn("mempool", "", "strVoting"), c.fn("dpos/state", "State", "processVotingContent")})
	np := 0
	for _, p := range pairs {
		if p.a == nil || p.b == nil {
			continue
		}
		as, av, af := codeSources(p.a, sinks...)
		bs, bv, bf := codeSources(p.b, sinks...)
		if !af || !bf {
			c.R.Undecided("A-key", p.name, c.pos(p.a.Pos()), "no stake-address constructor call found in one of the siblings")
			continue
		}
		np++
		// the V0 selector must be present on both sides whenever the payload code is a source on either
		v0 := func(vs []string) bool {
			for _, v := range vs {
				if v == "==0" {
					return true
				}
			}
			return false
		}
		ok := strings.Join(as, ",") == strings.Join(bs, ",") && (len(as) < 2 || v0(av) == v0(bv))
		c.R.Check("A-key", p.name, ok, c.pos(p.a.Pos()), fmt.Sprintf("%s takes the code from %v (version tests %v); %s from %v (%v)", short(fname(p.a)), as, av, short(fname(p.b)), bs, bv))
	}
	c.R.FloorCheck("A-key sibling pairs", np, 4)

	// ---- A-activation
	if f := c.fn("dpos/state", "State", "updateProducersDepositCoin"); f != nil {
		lowers := func(g *ssa.Function) bool {
			found := false
			var walk func(h *ssa.Function)
			walk = func(h *ssa.Function) {
				for _, b := range h.Blocks {
					for _, in := range b.Instrs {
						if st, ok := in.(*ssa.Store); ok && ssau.IsFieldOf(st.Addr, "Producer", "depositAmount") {
							if sub, ok := st.Val.(*ssa.BinOp); ok && sub.Op == token.SUB {
								found = true
							}
						}
					}
				}
				for _, an := range h.AnonFuncs {
					walk(an)
				}
			}
			walk(g)
			return found
		}
		var actIf *ssa.If
		for _, i := range ssau.Ifs(f) {
			if b, ok := i.Cond.(*ssa.BinOp); ok && b.Op == token.EQL && fieldIs("StateKeyFrame", "DPoSV2ActiveHeight")(b.Y) {
				actIf = i
			}
		}
		c.R.Check("A-activation", "activation branch", actIf != nil, c.pos(f.Pos()), "the height == DPoSV2ActiveHeight branch exists")
		nAct, nRel := 0, 0
		stConst := func(name string) func(ssa.Value) bool {
			v, ok := c.constVal("dpos/state", name)
			return func(x ssa.Value) bool {
				k, isC := constVal64(x)
				return ok && isC && k == v
			}
		}
		for _, b := range f.Blocks {
			for _, in := range b.Instrs {
				call, ok := in.(*ssa.Call)
				if !ok {
					continue
				}
				mc, ok := call.Call.Value.(*ssa.MakeClosure)
				if !ok || !lowers(mc.Fn.(*ssa.Function)) {
					continue
				}
				// is the site inside the activation region?
				inAct := false
				if actIf != nil {
					cut := ssau.NewCut()
					cut.AddEdge(actIf.Block(), ssau.Arm(actIf, true))
					inAct = !ssau.ReachFromEntry(f, cut).Instr(in)
				}
				key := fmt.Sprintf("%s|call at %s", mc.Fn.Name(), strings.TrimPrefix(c.posOf(in), "dpos/state/"))
				key = mc.Fn.Name()
				isState := fieldIs("Producer", "state")
				if inAct {
					nAct++
					c.G2("A-activation", key+"|not for canceled producers", f, in, "producer.state != Canceled", condCmp(isState, stConst("Canceled"), token.NEQ, true))
					c.G2("A-activation", key+"|not for returned producers", f, in, "producer.state != Returned", condCmp(isState, stConst("Returned"), token.NEQ, true))
				} else {
					nRel++
					c.G2("A-activation", key+"|release at the lockup height only", f, in, "height - CancelHeight() == DepositLockupBlocks", condCmp(func(v ssa.Value) bool {
						sub, ok := ssau.Unwrap(v).(*ssa.BinOp)
						return ok && sub.Op == token.SUB && methodCallNamed(sub.Y, "CancelHeight")
					}, fieldIs("CRConfiguration", "DepositLockupBlocks"), token.EQL, true))
					c.R.Check("A-activation", key+"|release for canceled producers only", ssau.DependsOn(call.Call.Args[0], func(y ssa.Value) bool { return methodCallNamed(y, "getCanceledProducers") }), c.posOf(in), "the released producer comes from getCanceledProducers()")
				}
			}
		}
		c.R.FloorCheck("A-activation deposit-lowering calls at activation", nAct, 2)
		c.R.FloorCheck("A-activation deposit releases", nRel, 1)
	}
}
