package props

import (
	"fmt"
	"go/token"
	"go/types"
	"sort"
	"strings"

	"elaverif/core"
	"elaverif/ssau"

	"golang.org/x/tools/go/ssa"
)

// effect is one abstract write: (owner type, field, operation).
type effect struct {
	field string // Owner.Field
	op    string // assign | ins | del
}

func (e effect) String() string { return e.field + ":" + e.op }

type effectSet map[effect]bool

func (s effectSet) add(e effect) { s[e] = true }
func (s effectSet) list() []string {
	var out []string
	for e := range s {
		out = append(out, e.String())
	}
	sort.Strings(out)
	return out
}

// ownerField names the struct field addressed by fa: "Type.Field".
func ownerField(fa *ssa.FieldAddr) string {
	pt, ok := fa.X.Type().Underlying().(*types.Pointer)
	if !ok {
		return "?"
	}
	st, ok := pt.Elem().Underlying().(*types.Struct)
	if !ok {
		return "?"
	}
	owner := ssau.TypeName(pt.Elem())
	if owner == "" {
		owner = "struct"
	}
	return owner + "." + st.Field(fa.Field).Name()
}

// isLocalRoot: the address is rooted at a function-local allocation or a
// captured local variable cell holding a non-pointer value (writes to it do
// not change shared state).
func isLocalRoot(addr ssa.Value) bool {
	root := addr
	for {
		switch x := root.(type) {
		case *ssa.FieldAddr:
			root = x.X
			continue
		case *ssa.IndexAddr:
			root = x.X
			continue
		}
		break
	}
	switch x := root.(type) {
	case *ssa.Alloc:
		return true
	case *ssa.FreeVar:
		// a captured variable cell: *T where the variable itself is the local
		_ = x
		return true
	}
	return false
}

// effectsOf summarises the shared-state writes of fn, following same-package callees.
type effectEngine struct {
	c    *Ctx
	pkg  *ssa.Package
	memo map[*ssa.Function]effectSet
	busy map[*ssa.Function]bool
}

func (e *effectEngine) of(fn *ssa.Function, depth int) effectSet {
	if s, ok := e.memo[fn]; ok {
		return s
	}
	out := effectSet{}
	if fn == nil || len(fn.Blocks) == 0 || e.busy[fn] || depth > 4 {
		return out
	}
	e.busy[fn] = true
	defer delete(e.busy, fn)
	for _, b := range fn.Blocks {
		for _, in := range b.Instrs {
			switch x := in.(type) {
			case *ssa.Store:
				if fa, ok := x.Addr.(*ssa.FieldAddr); ok && !isLocalRoot(x.Addr) {
					out.add(effect{ownerField(fa), "assign"})
				}
				if ia, ok := x.Addr.(*ssa.IndexAddr); ok && !isLocalRoot(x.Addr) {
					// element store into a slice/array held in a field
					if ld, ok := ia.X.(*ssa.UnOp); ok {
						if fa, ok := ld.X.(*ssa.FieldAddr); ok {
							out.add(effect{ownerField(fa), "assign"})
						}
					}
				}
			case *ssa.MapUpdate:
				if f := mapField(x.Map); f != "" {
					out.add(effect{f, "ins"})
				}
			case ssa.CallInstruction:
				cm := x.Common()
				if bi, ok := cm.Value.(*ssa.Builtin); ok {
					if bi.Name() == "delete" {
						if f := mapField(cm.Args[0]); f != "" {
							out.add(effect{f, "del"})
						}
					}
					continue
				}
				callee := cm.StaticCallee()
				if callee == nil || callee.Pkg != e.pkg {
					continue
				}
				if _, isGo := in.(*ssa.Go); isGo {
					continue
				}
				for k := range e.of(callee, depth+1) {
					out.add(k)
				}
			}
		}
	}
	// closures created and invoked inside fn
	for _, a := range fn.AnonFuncs {
		if !usedAsHistoryArg(a) {
			for k := range e.of(a, depth+1) {
				out.add(k)
			}
		}
	}
	if depth == 0 || true {
		e.memo[fn] = out
	}
	return out
}

// usedAsHistoryArg: the anonymous function is passed to History.Append (its
// effects are deferred to commit/rollback time, not part of the enclosing function's own effects).
func usedAsHistoryArg(a *ssa.Function) bool {
	p := a.Parent()
	if p == nil {
		return false
	}
	for _, b := range p.Blocks {
		for _, in := range b.Instrs {
			ci, ok := in.(ssa.CallInstruction)
			if !ok {
				continue
			}
			o := ssau.CalleeObj(ci.Common())
			if o == nil || o.Name() != "Append" || ssau.RecvName(o) != "History" {
				continue
			}
			for _, arg := range ci.Common().Args {
				if mc, ok := arg.(*ssa.MakeClosure); ok && mc.Fn == ssa.Value(a) {
					return true
				}
			}
		}
	}
	return false
}

// mapField: the map value is a load of a struct field (possibly through a phi-free chain); returns Owner.Field.
func mapField(m ssa.Value) string {
	m = ssau.Unwrap(m)
	if ld, ok := m.(*ssa.UnOp); ok && ld.Op == token.MUL {
		if fa, ok := ld.X.(*ssa.FieldAddr); ok {
			return ownerField(fa)
		}
	}
	if f, ok := m.(*ssa.Field); ok {
		if st, ok := f.X.Type().Underlying().(*types.Struct); ok {
			return ssau.TypeName(f.X.Type()) + "." + st.Field(f.Field).Name()
		}
	}
	// nested map: m[k1][k2] = v  -> Lookup of a field map
	if lk, ok := m.(*ssa.Lookup); ok {
		return mapField(lk.X)
	}
	return ""
}

// appendSite is one History.Append call.
type appendSite struct {
	fn       *ssa.Function // enclosing (outermost named) function
	call     ssa.CallInstruction
	do, undo *ssa.Function
}

func (c *Ctx) appendSites(rel string) []appendSite {
	var out []appendSite
	pk := c.P.Pkg(rel)
	if pk == nil {
		return out
	}
	sp := c.P.SSAPkgs[pk.PkgPath]
	for f := range c.P.AllFuncs() {
		root := f
		for root.Parent() != nil {
			root = root.Parent()
		}
		if root.Pkg != sp {
			continue
		}
		for _, b := range f.Blocks {
			for _, in := range b.Instrs {
				ci, ok := in.(ssa.CallInstruction)
				if !ok {
					continue
				}
				o := ssau.CalleeObj(ci.Common())
				if o == nil || o.Name() != "Append" || ssau.RecvName(o) != "History" || o.Pkg() == nil || !strings.HasSuffix(o.Pkg().Path(), "/utils") {
					continue
				}
				a := ci.Common().Args
				s := appendSite{fn: root, call: ci}
				s.do = closureOf(a[len(a)-2])
				s.undo = closureOf(a[len(a)-1])
				out = append(out, s)
			}
		}
	}
	sort.Slice(out, func(i, j int) bool { return out[i].call.Pos() < out[j].call.Pos() })
	return out
}

// covered: is do-effect d undone by some effect of undo?
func covered(d effect, undo effectSet) bool {
	switch d.op {
	case "assign":
		return undo[effect{d.field, "assign"}]
	case "ins":
		// insert is undone by delete, by replacing the map, or by writing the old value back under the same key
		return undo[effect{d.field, "del"}] || undo[effect{d.field, "assign"}] || undo[effect{d.field, "ins"}]
	case "del":
		return undo[effect{d.field, "ins"}] || undo[effect{d.field, "assign"}]
	}
	return false
}

// uEffects runs the do/undo pairing rule over one package; idioms lists
// (function|effect) pairs that were triaged as benign, with the reason.
func (c *Ctx) uEffects(rule, rel string, floor int, idioms map[string]string) {
	pk := c.P.Pkg(rel)
	if pk == nil {
		c.R.Anchor("package "+rel, false)
		return
	}
	eng := &effectEngine{c: c, pkg: c.P.SSAPkgs[pk.PkgPath], memo: map[*ssa.Function]effectSet{}, busy: map[*ssa.Function]bool{}}
	sites := c.appendSites(rel)
	n := 0
	for _, s := range sites {
		n++
		if s.do == nil || s.undo == nil {
			c.R.Undecided(rule, fname(s.fn)+"|unresolved", c.posOf(s.call), "History.Append arguments are not function literals")
			continue
		}
		de, ue := eng.of(s.do, 0), eng.of(s.undo, 0)
		var missing []string
		for d := range de {
			if covered(d, ue) {
				continue
			}
			if _, ok := idioms[fname(s.fn)+"|"+d.String()]; ok {
				continue
			}
			missing = append(missing, d.String())
		}
		for _, al := range aliasRestores(s, de) {
			c.R.Check(rule, fname(s.fn)+"|alias-restore{"+al+"}", false, c.posOf(s.call),
				fmt.Sprintf("%s: the change mutates %s in place but its rollback only re-assigns a reference to the same object taken before the change (no copy), which restores nothing", fname(s.fn), al))
		}
		sort.Strings(missing)
		key := fname(s.fn) + "|do{" + strings.Join(de.list(), ",") + "}"
		if len(missing) == 0 {
			c.R.Check(rule, key, true, c.posOf(s.call), fmt.Sprintf("undo{%s} covers do", strings.Join(ue.list(), ",")))
		} else {
			c.R.Check(rule, key+"|unrestored{"+strings.Join(missing, ",")+"}", false, c.posOf(s.call),
				fmt.Sprintf("%s: the change writes %v but its rollback (writes {%s}) does not restore %v", fname(s.fn), de.list(), strings.Join(ue.list(), ","), missing))
		}
	}
	c.R.FloorCheck(rule+" Append sites in "+rel, n, floor)
	for k, why := range idioms {
		c.R.Info(rule, "idiom|"+k, "", why)
	}
	_ = core.Mod
}

// historyName names the History object an Append/Commit/RollbackTo call is applied to: Owner.Field of the receiver.
func (c *Ctx) historyName(recv ssa.Value, fn *ssa.Function, depth int) []string {
	recv = ssau.Unwrap(recv)
	if ld, ok := recv.(*ssa.UnOp); ok && ld.Op == token.MUL {
		if fa, ok := ld.X.(*ssa.FieldAddr); ok {
			return []string{ownerField(fa)}
		}
	}
	if p, ok := recv.(*ssa.Parameter); ok && depth < 3 {
		// resolve through the callers of fn
		idx := -1
		for i, q := range fn.Params {
			if q == p {
				idx = i
			}
		}
		var out []string
		if idx >= 0 {
			for g, calls := range c.staticCallers(fn) {
				for _, call := range calls {
					if idx < len(call.Common().Args) {
						out = append(out, c.historyName(call.Common().Args[idx], g, depth+1)...)
					}
				}
			}
		}
		return out
	}
	if fv, ok := recv.(*ssa.FreeVar); ok && fn.Parent() != nil && depth < 3 {
		// captured variable: find the binding in the parent
		for _, b := range fn.Parent().Blocks {
			for _, in := range b.Instrs {
				if mc, ok := in.(*ssa.MakeClosure); ok && mc.Fn == ssa.Value(fn) {
					for i, v := range fn.FreeVars {
						if v == fv {
							return c.historyName(mc.Bindings[i], fn.Parent(), depth+1)
						}
					}
				}
			}
		}
	}
	return nil
}

func isHistoryMethod(cm *ssa.CallCommon, name string) bool {
	o := ssau.CalleeObj(cm)
	return o != nil && o.Name() == name && ssau.RecvName(o) == "History" && o.Pkg() != nil && strings.HasSuffix(o.Pkg().Path(), "/utils")
}

// callOrder walks fn depth-first in source order following same-package static calls and reports,
// in first-encounter order, the history names on which method `name` is called.
func (c *Ctx) callOrder(fn *ssa.Function, name string, extra map[string]string) []string {
	var out []string
	seenH := map[string]bool{}
	seenF := map[*ssa.Function]bool{}
	var walk func(f *ssa.Function, d int)
	walk = func(f *ssa.Function, d int) {
		if f == nil || seenF[f] || d > 4 || len(f.Blocks) == 0 {
			return
		}
		seenF[f] = true
		var calls []ssa.CallInstruction
		for _, b := range f.Blocks {
			for _, in := range b.Instrs {
				if ci, ok := in.(ssa.CallInstruction); ok {
					if _, isDefer := in.(*ssa.Defer); !isDefer {
						calls = append(calls, ci)
					}
				}
			}
		}
		sort.SliceStable(calls, func(i, j int) bool { return calls[i].Pos() < calls[j].Pos() })
		for _, ci := range calls {
			cm := ci.Common()
			if isHistoryMethod(cm, name) {
				for _, h := range c.historyName(cm.Args[0], f, 0) {
					if !seenH[h] {
						seenH[h] = true
						out = append(out, h)
					}
				}
				continue
			}
			if g := cm.StaticCallee(); g != nil && g.Pkg == fn.Pkg {
				if alias, ok := extra[g.Name()]; ok {
					if !seenH[alias] {
						seenH[alias] = true
						out = append(out, alias)
					}
					continue
				}
				walk(g, d+1)
			}
		}
	}
	walk(fn, 0)
	return out
}

// uOrder: histories whose recorded changes touch a common location must be rolled back in the reverse of their commit order.
func (c *Ctx) uOrder(rule, rel string, process, rollback *ssa.Function, alias map[string]string, undecided map[string]string) {
	if process == nil || rollback == nil {
		return
	}
	pk := c.P.Pkg(rel)
	eng := &effectEngine{c: c, pkg: c.P.SSAPkgs[pk.PkgPath], memo: map[*ssa.Function]effectSet{}, busy: map[*ssa.Function]bool{}}
	writes := map[string]map[string]bool{} // history -> fields
	for _, s := range c.appendSites(rel) {
		if s.do == nil {
			continue
		}
		var f *ssa.Function
		if in, ok := s.call.(ssa.Instruction); ok {
			f = in.Parent()
		}
		for _, h := range c.historyName(s.call.Common().Args[0], f, 0) {
			if writes[h] == nil {
				writes[h] = map[string]bool{}
			}
			for e := range eng.of(s.do, 0) {
				writes[h][e.field] = true
			}
		}
	}
	commit := c.callOrder(process, "Commit", nil)
	roll := c.callOrder(rollback, "RollbackTo", alias)
	pos := func(list []string, h string) int {
		for i, x := range list {
			if x == h {
				return i
			}
		}
		return -1
	}
	c.R.Info(rule, "orders|"+fname(process), c.pos(process.Pos()), fmt.Sprintf("commit order %v; rollback order %v", commit, roll))
	// every committed history is rolled back
	for _, h := range commit {
		c.R.Check(rule, "rolled-back|"+h, pos(roll, h) >= 0, c.pos(rollback.Pos()), fmt.Sprintf("history %s is committed by %s and must be rolled back by %s", h, fname(process), fname(rollback)))
	}
	n := 0
	for i := 0; i < len(commit); i++ {
		for j := i + 1; j < len(commit); j++ {
			a, b := commit[i], commit[j]
			var common []string
			for f := range writes[a] {
				if writes[b][f] {
					common = append(common, f)
				}
			}
			if len(common) == 0 {
				continue
			}
			sort.Strings(common)
			n++
			ra, rb := pos(roll, a), pos(roll, b)
			ok := ra >= 0 && rb >= 0 && ra > rb
			if why, tabled := undecided[a+"<"+b]; tabled && !ok {
				c.R.Info(rule, "order-not-decided|"+a+"<"+b, c.pos(rollback.Pos()), why+fmt.Sprintf(" (common fields %v)", common))
				continue
			}
			c.R.Check(rule, "order|"+a+"<"+b, ok, c.pos(rollback.Pos()), fmt.Sprintf("%s is committed before %s and both write %v, so %s must be rolled back before %s (rollback order: %v)", a, b, common, b, a, roll))
		}
	}
	c.R.Note("%s: %d ordered history pairs with overlapping writes", rule, n)
}

// aliasRestores lists the fields that the do-closure mutates in place (map insert/delete) while the undo-closure
// "restores" them by assigning back a reference captured before the change that aliases the very same object.
func aliasRestores(s appendSite, de effectSet) []string {
	if s.undo == nil {
		return nil
	}
	// the MakeClosure of undo, to resolve free-variable bindings
	var mc *ssa.MakeClosure
	a := s.call.Common().Args
	if m, ok := ssau.Unwrap(a[len(a)-1]).(*ssa.MakeClosure); ok {
		mc = m
	}
	if mc == nil {
		return nil
	}
	var out []string
	for _, b := range s.undo.Blocks {
		for _, in := range b.Instrs {
			st, ok := in.(*ssa.Store)
			if !ok {
				continue
			}
			fa, ok := st.Addr.(*ssa.FieldAddr)
			if !ok || isLocalRoot(st.Addr) {
				continue
			}
			field := ownerField(fa)
			if !(de[effect{field, "ins"}] || de[effect{field, "del"}]) || de[effect{field, "assign"}] {
				continue
			}
			if _, isMap := fa.Type().Underlying().(*types.Pointer).Elem().Underlying().(*types.Map); !isMap {
				continue
			}
			// value: load of a free variable cell
			ld, ok := st.Val.(*ssa.UnOp)
			if !ok || ld.Op != token.MUL {
				continue
			}
			fv, ok := ld.X.(*ssa.FreeVar)
			if !ok {
				continue
			}
			idx := -1
			for k, f := range s.undo.FreeVars {
				if f == fv {
					idx = k
				}
			}
			if idx < 0 || idx >= len(mc.Bindings) {
				continue
			}
			cell, ok := mc.Bindings[idx].(*ssa.Alloc)
			if !ok {
				continue
			}
			sts := ssau.StoresInto(cell)
			if len(sts) != 1 {
				continue
			}
			src, ok := sts[0].Val.(*ssa.UnOp)
			if !ok || src.Op != token.MUL {
				continue
			}
			sfa, ok := src.X.(*ssa.FieldAddr)
			if ok && ownerField(sfa) == field {
				out = append(out, field)
			}
		}
	}
	sort.Strings(out)
	return out
}

// undoValueClass classifies where the value an undo-closure stores into a scalar state field comes from.
//   const      a constant
//   captured   a variable of the enclosing function captured by the closure (the saved original)
//   inverse    the field's own current value adjusted by a constant or captured amount (x-- undoing x++)
//   derived:F  computed at rollback time from the current value of another state field F
//   other      anything else (calls, parameters)
func undoValueClass(st *ssa.Store, field string) string {
	v := st.Val
	for {
		if cv, ok := v.(*ssa.Convert); ok {
			v = cv.X
			continue
		}
		if cv, ok := v.(*ssa.ChangeType); ok {
			v = cv.X
			continue
		}
		break
	}
	if _, ok := v.(*ssa.Const); ok {
		return "const"
	}
	isCapturedLoad := func(x ssa.Value) bool {
		ld, ok := x.(*ssa.UnOp)
		if !ok || ld.Op != token.MUL {
			return false
		}
		_, ok = ld.X.(*ssa.FreeVar)
		return ok
	}
	if isCapturedLoad(v) {
		return "captured"
	}
	loadField := func(x ssa.Value) string {
		ld, ok := x.(*ssa.UnOp)
		if !ok || ld.Op != token.MUL {
			return ""
		}
		if fa, ok := ld.X.(*ssa.FieldAddr); ok && !isLocalRoot(ld.X) {
			return ownerField(fa)
		}
		return ""
	}
	if b, ok := v.(*ssa.BinOp); ok && (b.Op == token.ADD || b.Op == token.SUB) && loadField(b.X) == field {
		if _, isK := b.Y.(*ssa.Const); isK || isCapturedLoad(b.Y) {
			return "inverse"
		}
	}
	// any state field read in the value's computation inside the closure
	derived := ""
	ssau.DependsOn(v, func(x ssa.Value) bool {
		if f := loadField(x); f != "" && derived == "" {
			derived = f
		}
		return false
	})
	if derived != "" {
		return "derived:" + derived
	}
	return "other"
}

// selfAdjust: the store writes field's own current value adjusted by +/- an amount; returns the operator and a
// printable form of the amount.
func selfAdjust(st *ssa.Store, field string) (token.Token, string, bool) {
	v := st.Val
	b, ok := v.(*ssa.BinOp)
	if !ok || (b.Op != token.ADD && b.Op != token.SUB) {
		return 0, "", false
	}
	ld, ok := b.X.(*ssa.UnOp)
	if !ok || ld.Op != token.MUL {
		return 0, "", false
	}
	fa, ok := ld.X.(*ssa.FieldAddr)
	if !ok || ownerField(fa) != field {
		return 0, "", false
	}
	return b.Op, ssau.CondString(b.Y), true
}

// uValues decides the values written back by undo closures into scalar state fields.
func (c *Ctx) uValues(rule, rel string, floor int) {
	n := 0
	for _, s := range c.appendSites(rel) {
		if s.undo == nil || s.do == nil {
			continue
		}
		for _, b := range s.undo.Blocks {
			for _, in := range b.Instrs {
				st, ok := in.(*ssa.Store)
				if !ok {
					continue
				}
				fa, ok := st.Addr.(*ssa.FieldAddr)
				if !ok || isLocalRoot(st.Addr) {
					continue
				}
				if _, basic := st.Val.Type().Underlying().(*types.Basic); !basic {
					continue
				}
				field := ownerField(fa)
				n++
				if op, amt, ok := selfAdjust(st, field); ok {
					// the do-closure (following same-package callees) adjusts the same field the other way by the same amount
					var opp, same []string
					for _, dst := range storesDeep(s.do, 2) {
						if dfa, ok := dst.Addr.(*ssa.FieldAddr); ok && ownerField(dfa) == field {
							if dop, damt, ok := selfAdjust(dst, field); ok {
								if dop != op {
									opp = append(opp, damt)
								} else {
									same = append(same, damt)
								}
							}
						}
					}
					key := fmt.Sprintf("%s|%s|undo %s= %s", fname(s.fn), field, op, amt)
					switch {
					case len(opp) > 0:
						okAmt := false
						for _, a := range opp {
							if a == amt {
								okAmt = true
							}
						}
						c.R.Check(rule, key, okAmt, c.posOf(st), fmt.Sprintf("the rollback adjusts %s by %s %s but the change adjusts it the other way by %v: the amounts differ", field, op, amt, opp))
					case len(same) > 0:
						c.R.Check(rule, key, false, c.posOf(st), fmt.Sprintf("the rollback adjusts %s in the same direction (%s) as the change it is meant to undo", field, op))
					default:
						c.R.Info(rule, key, c.posOf(st), "the change does not adjust the field in place (assigned through another form); pairing decided by U-effects only")
					}
					continue
				}
				cl := undoValueClass(st, field)
				key := fname(s.fn) + "|" + field + "|restored from " + cl
				if strings.HasPrefix(cl, "derived:") {
					c.R.Check(rule, key, false, c.posOf(st), fmt.Sprintf("the rollback writes into %s a value computed at rollback time from the current value of %s; it equals the value before the change only if a relation between the two fields holds at every rollback, which nothing establishes (restore the saved original, or invert the change on the field itself)", field, strings.TrimPrefix(cl, "derived:")))
				} else {
					c.R.Check(rule, key, true, c.posOf(st), "saved original / constant")
				}
			}
		}
	}
	// a change that may leave a field untouched needs a rollback that may too: when some path through the
	// do-closure performs no write to field F while every path through the undo-closure overwrites F with a
	// constant or adjusts it in place, rolling back the no-op case changes F (a restore of the saved original
	// is harmless there and exempt)
	for _, s := range c.appendSites(rel) {
		if s.undo == nil || s.do == nil {
			continue
		}
		byField := map[string][]ssa.Instruction{}
		exempt := map[string]bool{}
		for _, b := range s.undo.Blocks {
			for _, in := range b.Instrs {
				st, ok := in.(*ssa.Store)
				if !ok {
					continue
				}
				fa, ok := st.Addr.(*ssa.FieldAddr)
				if !ok || isLocalRoot(st.Addr) {
					continue
				}
				if _, basic := st.Val.Type().Underlying().(*types.Basic); !basic {
					continue
				}
				field := ownerField(fa)
				byField[field] = append(byField[field], st)
				if _, _, adj := selfAdjust(st, field); !adj && undoValueClass(st, field) != "const" {
					exempt[field] = true
				}
			}
		}
		var fields []string
		for f := range byField {
			fields = append(fields, f)
		}
		sort.Strings(fields)
		for _, field := range fields {
			if exempt[field] {
				continue
			}
			var doStores []ssa.Instruction
			for _, b := range s.do.Blocks {
				for _, in := range b.Instrs {
					if st, ok := in.(*ssa.Store); ok {
						if fa, ok := st.Addr.(*ssa.FieldAddr); ok && ownerField(fa) == field {
							doStores = append(doStores, st)
						}
					}
				}
			}
			if len(doStores) == 0 {
				continue // written through a callee or another form: U-effects decides the pairing
			}
			if avoidableStores(s.do, doStores) && !avoidableStores(s.undo, byField[field]) {
				c.R.Check(rule, fname(s.fn)+"|"+field+"|conditional change, unconditional rollback", false, c.posOf(byField[field][0]),
					fmt.Sprintf("the change writes %s only on some paths of its closure (the decision is taken when the change is committed) while its rollback always overwrites it: rolling back a block for which the change did nothing alters %s", field, field))
			} else {
				c.R.Check(rule, fname(s.fn)+"|"+field+"|change and rollback agree on whether the field is written", true, c.posOf(byField[field][0]), "")
			}
		}
	}
	// (1) a saved original must be saved before the change: an undo that restores field F from a captured variable
	// which the do-closure itself assigns from F after writing F restores the changed value.
	// (2) a map entry inserted by the change under key K must be deleted by the rollback under the same K (and
	// vice versa); keys are compared as expressions with captured variables resolved to their definitions.
	for _, s := range c.appendSites(rel) {
		if s.undo == nil || s.do == nil {
			continue
		}
		a := s.call.Common().Args
		doMC, _ := ssau.Unwrap(a[len(a)-2]).(*ssa.MakeClosure)
		undoMC, _ := ssau.Unwrap(a[len(a)-1]).(*ssa.MakeClosure)
		cellOf := func(mc *ssa.MakeClosure, fn *ssa.Function, fv *ssa.FreeVar) ssa.Value {
			if mc == nil {
				return nil
			}
			for k, f := range fn.FreeVars {
				if f == fv && k < len(mc.Bindings) {
					return mc.Bindings[k]
				}
			}
			return nil
		}
		// (1)
		for _, b := range s.undo.Blocks {
			for _, in := range b.Instrs {
				st, ok := in.(*ssa.Store)
				if !ok {
					continue
				}
				fa, ok := st.Addr.(*ssa.FieldAddr)
				if !ok || isLocalRoot(st.Addr) {
					continue
				}
				ld, ok := st.Val.(*ssa.UnOp)
				if !ok || ld.Op != token.MUL {
					continue
				}
				fv, ok := ld.X.(*ssa.FreeVar)
				if !ok {
					continue
				}
				cell := cellOf(undoMC, s.undo, fv)
				if cell == nil {
					continue
				}
				field := ownerField(fa)
				// stores into the same cell from inside the do-closure
				for dk, dfv := range s.do.FreeVars {
					if doMC == nil || dk >= len(doMC.Bindings) || doMC.Bindings[dk] != cell {
						continue
					}
					for _, db := range s.do.Blocks {
						for _, din := range db.Instrs {
							dst, ok := din.(*ssa.Store)
							if !ok || dst.Addr != ssa.Value(dfv) {
								continue
							}
							// is the saved value read from F after F was written in the do-closure?
							late := false
							for _, db2 := range s.do.Blocks {
								for _, din2 := range db2.Instrs {
									if w, ok := din2.(*ssa.Store); ok {
										if wfa, ok := w.Addr.(*ssa.FieldAddr); ok && ownerField(wfa) == field && ssau.ReachAfter(s.do, w, nil).Instr(dst) {
											late = true
										}
									}
								}
							}
							readsF := ssau.DependsOn(dst.Val, func(x ssa.Value) bool {
								u, ok := x.(*ssa.UnOp)
								if !ok || u.Op != token.MUL {
									return false
								}
								rfa, ok := u.X.(*ssa.FieldAddr)
								return ok && ownerField(rfa) == field
							})
							if late && readsF {
								c.R.Check(rule, fname(s.fn)+"|"+field+"|original saved after the change", false, c.posOf(dst),
									fmt.Sprintf("the value the rollback writes back into %s is saved inside the change itself, after the change has already written %s: the rollback restores the new value", field, field))
							}
						}
					}
				}
			}
		}
		// (2)
		resolveKey := func(fn *ssa.Function, mc *ssa.MakeClosure, k ssa.Value) string {
			return keyExpr(k, func(fv *ssa.FreeVar) ssa.Value {
				cell := cellOf(mc, fn, fv)
				if al, ok := cell.(*ssa.Alloc); ok {
					if sts := ssau.StoresInto(al); len(sts) == 1 {
						return sts[0].Val
					}
				}
				return nil
			}, 0)
		}
		type mapOp struct {
			keys []string
			pos  ssa.Instruction
		}
		collect := func(fn *ssa.Function, mc *ssa.MakeClosure) (ins, del map[string]*mapOp) {
			ins, del = map[string]*mapOp{}, map[string]*mapOp{}
			for _, b := range fn.Blocks {
				for _, in := range b.Instrs {
					switch x := in.(type) {
					case *ssa.MapUpdate:
						if f := mapFieldLevel(x.Map); f != "" {
							if ins[f] == nil {
								ins[f] = &mapOp{pos: in}
							}
							ins[f].keys = append(ins[f].keys, resolveKey(fn, mc, x.Key))
						}
					case ssa.CallInstruction:
						if bi, ok := x.Common().Value.(*ssa.Builtin); ok && bi.Name() == "delete" {
							if f := mapFieldLevel(x.Common().Args[0]); f != "" {
								if del[f] == nil {
									del[f] = &mapOp{pos: in}
								}
								del[f].keys = append(del[f].keys, resolveKey(fn, mc, x.Common().Args[1]))
							}
						}
					}
				}
			}
			return
		}
		dIns, dDel := collect(s.do, doMC)
		uIns, uDel := collect(s.undo, undoMC)
		pair := func(what string, a, b map[string]*mapOp) {
			var fields []string
			for f := range a {
				fields = append(fields, f)
			}
			sort.Strings(fields)
			for _, f := range fields {
				other, ok := b[f]
				if !ok {
					continue
				}
				as, bs := append([]string{}, a[f].keys...), append([]string{}, other.keys...)
				sort.Strings(as)
				sort.Strings(bs)
				// every key the rollback addresses is a key the change addressed (the change may also create an
				// enclosing entry lazily, which an emptied entry stands for)
				inA := map[string]bool{}
				for _, k := range as {
					inA[k] = true
				}
				okKeys := len(bs) > 0
				for _, k := range bs {
					if !inA[k] {
						okKeys = false
					}
				}
				if strings.Contains(strings.Join(as, ""), "?") || strings.Contains(strings.Join(bs, ""), "?") {
					c.R.Info(rule, fname(s.fn)+"|"+f+"|"+what+" keys", c.posOf(other.pos), fmt.Sprintf("keys not comparable as expressions: change %v, rollback %v", as, bs))
					continue
				}
				c.R.Check(rule, fname(s.fn)+"|"+f+"|"+what+" under the same key", okKeys, c.posOf(other.pos),
					fmt.Sprintf("the change and its rollback address %s under different keys: change %v, rollback %v", f, as, bs))
			}
		}
		pair("insert undone by delete", dIns, uDel)
		// a deleted entry must come back under its key: every key the change deletes is a key the rollback inserts
		// (the rollback may re-insert or adjust further entries of the same map that the change only adjusted)
		pair("delete undone by insert", uIns, dDel)
	}
	c.R.FloorCheck(rule+" undo stores in "+rel, n, floor)
}

// storesDeep lists the stores of fn and of the same-package functions it calls statically, to the given depth.
func storesDeep(fn *ssa.Function, depth int) []*ssa.Store {
	var out []*ssa.Store
	seen := map[*ssa.Function]bool{}
	var walk func(f *ssa.Function, d int)
	walk = func(f *ssa.Function, d int) {
		if f == nil || seen[f] || len(f.Blocks) == 0 {
			return
		}
		seen[f] = true
		for _, b := range f.Blocks {
			for _, in := range b.Instrs {
				switch x := in.(type) {
				case *ssa.Store:
					out = append(out, x)
				case ssa.CallInstruction:
					if d > 0 {
						if cal := x.Common().StaticCallee(); cal != nil && cal.Pkg == fn.Pkg {
							walk(cal, d-1)
						}
					}
				}
			}
		}
	}
	walk(fn, depth)
	return out
}

// avoidableStores: some path from fn's entry to a return executes none of the given instructions.
func avoidableStores(fn *ssa.Function, ins []ssa.Instruction) bool {
	cut := ssau.NewCut()
	for _, in := range ins {
		cut.AddInstr(in)
	}
	r := ssau.ReachFromEntry(fn, cut)
	for _, ret := range ssau.Returns(fn) {
		if r.Instr(ret) {
			return true
		}
	}
	return false
}

// keyExpr renders a map key as an expression over stable names: parameters and captured variables by their
// definition (resolved through resolve), field selections, method calls by name. "?" marks what it cannot name.
func keyExpr(v ssa.Value, resolve func(*ssa.FreeVar) ssa.Value, depth int) string {
	if depth > 8 {
		return "?"
	}
	switch x := v.(type) {
	case *ssa.Const:
		if x.Value == nil {
			return "nil"
		}
		return x.Value.ExactString()
	case *ssa.Parameter:
		return "param:" + x.Name()
	case *ssa.FreeVar:
		return "var:" + x.Name()
	case *ssa.UnOp:
		if x.Op == token.MUL {
			if fv, ok := x.X.(*ssa.FreeVar); ok {
				if d := resolve(fv); d != nil {
					return keyExpr(d, resolve, depth+1)
				}
				return "var:" + fv.Name()
			}
			if al, ok := x.X.(*ssa.Alloc); ok {
				if sts := ssau.StoresInto(al); len(sts) == 1 {
					return keyExpr(sts[0].Val, resolve, depth+1)
				}
				return "?"
			}
			return "*" + keyExpr(x.X, resolve, depth+1)
		}
		return x.Op.String() + keyExpr(x.X, resolve, depth+1)
	case *ssa.FieldAddr:
		return keyExpr(x.X, resolve, depth+1) + "." + ownerFieldName(x)
	case *ssa.Field:
		if st, ok := x.X.Type().Underlying().(*types.Struct); ok {
			return keyExpr(x.X, resolve, depth+1) + "." + st.Field(x.Field).Name()
		}
		return "?"
	case *ssa.IndexAddr:
		return keyExpr(x.X, resolve, depth+1) + "[" + keyExpr(x.Index, resolve, depth+1) + "]"
	case *ssa.Call:
		name := "?"
		if x.Call.IsInvoke() {
			name = x.Call.Method.Name()
			return keyExpr(x.Call.Value, resolve, depth+1) + "." + name + "()"
		}
		if o := ssau.CalleeObj(&x.Call); o != nil {
			name = o.Name()
		}
		var args []string
		for _, a := range x.Call.Args {
			args = append(args, keyExpr(a, resolve, depth+1))
		}
		return name + "(" + strings.Join(args, ",") + ")"
	case *ssa.Convert:
		return keyExpr(x.X, resolve, depth+1)
	case *ssa.ChangeType:
		return keyExpr(x.X, resolve, depth+1)
	case *ssa.MakeInterface:
		return keyExpr(x.X, resolve, depth+1)
	case *ssa.TypeAssert:
		return keyExpr(x.X, resolve, depth+1)
	case *ssa.Extract:
		return keyExpr(x.Tuple, resolve, depth+1) + fmt.Sprintf("#%d", x.Index)
	case *ssa.Next:
		return "next(" + keyExpr(x.Iter, resolve, depth+1) + ")"
	case *ssa.Range:
		return "range(" + keyExpr(x.X, resolve, depth+1) + ")"
	case *ssa.Slice:
		return keyExpr(x.X, resolve, depth+1) + "[:]"
	case *ssa.Phi:
		return "phi:" + x.Comment
	case *ssa.Lookup:
		return keyExpr(x.X, resolve, depth+1) + "[" + keyExpr(x.Index, resolve, depth+1) + "]"
	case *ssa.Alloc:
		if sts := ssau.StoresInto(x); len(sts) == 1 {
			return "&" + keyExpr(sts[0].Val, resolve, depth+1)
		}
		return "?"
	}
	return "?"
}

// mapFieldLevel is mapField with the nesting level of the addressed map appended (m[k] vs m[k1][k2]).
func mapFieldLevel(m ssa.Value) string {
	f := mapField(m)
	if f == "" {
		return ""
	}
	lvl := 0
	v := ssau.Unwrap(m)
	for {
		lk, ok := v.(*ssa.Lookup)
		if !ok {
			if e, isE := v.(*ssa.Extract); isE {
				if l2, isL := e.Tuple.(*ssa.Lookup); isL {
					v = l2
					continue
				}
			}
			break
		}
		lvl++
		v = ssau.Unwrap(lk.X)
	}
	return fmt.Sprintf("%s@%d", f, lvl)
}

// uDirect: the writes to the serialized state (fields of the key-frame structs) that block processing performs
// outside any History.Append closure: such a write cannot be rolled back. Discovery/decision over the entry
// points given.
func (c *Ctx) uDirect(rule, rel string, entries [][2]string, frames map[string]bool, tabled map[string]string) {
	pk := c.P.Pkg(rel)
	if pk == nil {
		return
	}
	sp := c.P.SSAPkgs[pk.PkgPath]
	seen := map[*ssa.Function]bool{}
	type hit struct {
		fn    *ssa.Function
		in    ssa.Instruction
		field string
		op    string
	}
	var hits []hit
	var walk func(f *ssa.Function, depth int)
	walk = func(f *ssa.Function, depth int) {
		if f == nil || seen[f] || len(f.Blocks) == 0 || depth > 8 {
			return
		}
		seen[f] = true
		for _, b := range f.Blocks {
			for _, in := range b.Instrs {
				switch x := in.(type) {
				case *ssa.Store:
					if fa, ok := x.Addr.(*ssa.FieldAddr); ok && !isLocalRoot(x.Addr) {
						of := ownerField(fa)
						if frames[strings.SplitN(of, ".", 2)[0]] {
							hits = append(hits, hit{f, in, of, "assign"})
						}
					}
				case *ssa.MapUpdate:
					if of := mapField(x.Map); of != "" && frames[strings.SplitN(of, ".", 2)[0]] && !mapOfFreshObject(x.Map) {
						hits = append(hits, hit{f, in, of, "ins"})
					}
				case ssa.CallInstruction:
					cm := x.Common()
					if bi, ok := cm.Value.(*ssa.Builtin); ok {
						if bi.Name() == "delete" {
							if of := mapField(cm.Args[0]); of != "" && frames[strings.SplitN(of, ".", 2)[0]] && !mapOfFreshObject(cm.Args[0]) {
								hits = append(hits, hit{f, in, of, "del"})
							}
						}
						continue
					}
					if _, isGo := in.(*ssa.Go); isGo {
						continue
					}
					if callee := cm.StaticCallee(); callee != nil && callee.Pkg == sp {
						walk(callee, depth+1)
					}
				}
			}
		}
		for _, a := range f.AnonFuncs {
			if !usedAsHistoryArg(a) {
				walk(a, depth+1)
			}
		}
	}
	for _, e := range entries {
		walk(c.fn(rel, e[0], e[1]), 0)
	}
	n := 0
	for _, h := range hits {
		root := h.fn
		for root.Parent() != nil {
			root = root.Parent()
		}
		key := fmt.Sprintf("%s|%s:%s outside history", fname(root), h.field, h.op)
		if why, ok := tabled[fname(root)+"|"+h.field]; ok {
			c.R.Info(rule, key, c.posOf(h.in), why)
			continue
		}
		n++
		c.R.Check(rule, key, false, c.posOf(h.in), fmt.Sprintf("%s writes %s (%s) directly while a block is processed, outside any History.Append change: rolling the block back leaves the write in place", fname(root), h.field, h.op))
	}
	c.R.Check(rule, rel+"|writes outside history", n == 0, "", fmt.Sprintf("%d functions on the block-processing paths examined, %d key-frame writes outside history changes", len(seen), n))
}

// mapOfFreshObject: the map is a field of a struct value that the function itself created (a local variable, a
// captured local, or a freshly allocated object held in a local): writing it does not touch shared state.
func mapOfFreshObject(m ssa.Value) bool {
	m = ssau.Unwrap(m)
	for {
		lk, ok := m.(*ssa.Lookup)
		if !ok {
			break
		}
		m = ssau.Unwrap(lk.X)
	}
	ld, ok := m.(*ssa.UnOp)
	if !ok || ld.Op != token.MUL {
		return false
	}
	fa, ok := ld.X.(*ssa.FieldAddr)
	if !ok {
		return false
	}
	var fresh func(v ssa.Value, depth int) bool
	fresh = func(v ssa.Value, depth int) bool {
		if depth > 4 {
			return false
		}
		switch x := v.(type) {
		case *ssa.Alloc:
			// the variable itself (a struct value) or a new(T)
			if _, isStruct := x.Type().Underlying().(*types.Pointer).Elem().Underlying().(*types.Struct); isStruct {
				return true
			}
			return false
		case *ssa.FreeVar:
			_, isStruct := x.Type().Underlying().(*types.Pointer).Elem().Underlying().(*types.Struct)
			return isStruct
		case *ssa.FieldAddr:
			return fresh(x.X, depth+1)
		case *ssa.UnOp:
			if x.Op != token.MUL {
				return false
			}
			if al, ok := x.X.(*ssa.Alloc); ok {
				sts := ssau.StoresInto(al)
				if len(sts) == 0 {
					return false
				}
				for _, st := range sts {
					if !fresh(st.Val, depth+1) {
						return false
					}
				}
				return true
			}
			return false
		}
		return false
	}
	return fresh(fa.X, 0)
}
