package props

import (
	"fmt"
	"strings"

	"elaverif/ssau"

	"golang.org/x/tools/go/ssa"
)

func init() {
	register(&Check{ID: "C04", Title: "Wire encoding round-trips and transaction identity ignores signatures", Run: runC04})
}

var wirePkgs = []string{"core/types/common", "core/types/payload", "core/types/outputpayload", "core/types", "core/transaction", "core/contract/program", "auxpow", "common"}

func runC04(c *Ctx) {
	c.R.Rule("S-coverage", "every field of every wire struct with a Serialize*/Deserialize* pair (transactions, inputs/outputs, attributes, programs, payloads, output payloads, headers, blocks, auxpow) is referenced by both sides, or tabled as a cache/memo field; a field encoded under a payload/tx-version condition is decoded under the same condition")
	c.R.Rule("S-readset", "the unsigned serialisation (and therefore hash()) never reads BaseTransaction.programs; Serialize is SerializeUnsigned followed by the programs; hash() hashes the unsigned serialisation")
	c.R.Rule("T-varint", "decision table of WriteVarUint: the discriminant/width chosen for a value is the canonical one that ReadVarUint accepts (<0xfd: 1 byte, <=0xffff: 0xfd+2, <=0xffffffff: 0xfe+4, else 0xff+8), and ReadVarUint rejects non-canonical forms with the matching minima")
	c.R.Rule("R-txtype", "the payload factory GetPayload and the transaction factory GetTransaction cover the same transaction types")
	exempt := map[string]string{
		"core/transaction.BaseTransaction.DefaultChecker":   "validation state, not wire data",
		"core/transaction.BaseTransaction.DefaultProcessor": "processing hooks, not wire data",
		"core/transaction.BaseTransaction.fee":              "memo computed by the fee check",
		"core/transaction.BaseTransaction.feePerKB":         "memo computed by the fee check",
		"core/transaction.BaseTransaction.txHash":           "memoised hash",
		"core/types/common.Header.hash":                     "memoised hash",
	}
	// memoised hash fields of payloads
	for _, cp := range c.codecTypes(wirePkgs) {
		rel := strings.TrimPrefix(cp.T.Obj().Pkg().Path(), "github.com/elastos/Elastos.ELA/")
		key := rel + "." + cp.T.Obj().Name() + ".hash"
		if _, ok := exempt[key]; !ok {
			exempt[key] = "memoised hash, recomputed on demand"
		}
	}
	c.sCoverage("S-coverage", wirePkgs, exempt, 80, true)
	c.R.Rule("S-order", "for every wire struct the encoder and the decoder first touch any two equally typed fields in the same relative order in the source (same-package helpers expanded in place): equally typed fields are not read in swapped wire positions")
	c.sOrder("S-order", wirePkgs, map[string]string{})

	// S-readset
	bt := c.P.NamedType(txpkg, "BaseTransaction")
	su := c.fn(txpkg, "BaseTransaction", "SerializeUnsigned")
	se := c.fn(txpkg, "BaseTransaction", "Serialize")
	hs := c.fn(txpkg, "BaseTransaction", "hash")
	if bt != nil && su != nil && se != nil && hs != nil {
		t := map[string][]fieldTouch{}
		touchesOf(su, bt, 0, map[*ssa.Function]bool{}, t)
		c.R.Check("S-readset", "SerializeUnsigned|no programs", len(t["programs"]) == 0, c.pos(su.Pos()), fmt.Sprintf("SerializeUnsigned reads fields %v", keysOf(t)))
		for _, need := range []string{"version", "txType", "payloadVersion", "payload", "attributes", "inputs", "outputs", "lockTime"} {
			c.R.Check("S-readset", "SerializeUnsigned|covers "+need, len(t[need]) > 0, c.pos(su.Pos()), "the signed content includes "+need)
		}
		t2 := map[string][]fieldTouch{}
		touchesOf(se, bt, 0, map[*ssa.Function]bool{}, t2)
		c.R.Check("S-readset", "Serialize|programs", len(t2["programs"]) > 0 && len(ssau.CallsIn(se, namedCall("SerializeUnsigned"))) == 1, c.pos(se.Pos()), "Serialize = SerializeUnsigned + programs")
		okh := len(ssau.CallsIn(hs, namedCall("SerializeUnsigned"))) == 1 && len(ssau.CallsIn(hs, namedCall("Serialize"))) == 0
		c.R.Check("S-readset", "hash|over unsigned bytes", okh, c.pos(hs.Pos()), "hash() serialises with SerializeUnsigned only")
	}

	// T-varint
	wv := c.fn("common", "", "WriteVarUint")
	if wv != nil {
		syms := &Symbols{Int: func(v ssa.Value) (string, bool) {
			if paramNamed(v, "val") {
				return "val", true
			}
			return "", false
		}, Nil: func(v ssa.Value) (string, bool) {
			if _, ok := v.(*ssa.Call); ok {
				return "errNil", true
			}
			return "", false
		}}
		vals := []int64{0, 0xfc, 0xfd, 0xfffe, 0xffff, 0x10000, 0xfffffffe, 0xffffffff, 0x100000000, 1 << 40}
		var envs []Env
		for _, v := range vals {
			envs = append(envs, Env{I: map[string]int64{"val": v}, B: map[string]bool{"errNil": true}})
		}
		okAll, detail := true, ""
		for _, env := range envs {
			env := env
			res := ssau.AbsWalk(wv, ssau.AbsEnvFunc(func(i *ssa.If, visit int) (bool, bool) {
				return syms.evalCond(i.Cond, env, visit, blockComment(i))
			}))
			if res.Ret == nil {
				okAll, detail = false, "cannot evaluate for "+env.String()
				break
			}
			disc := int64(-1)
			width := ""
			for _, bi := range res.Trace {
				for _, in := range wv.Blocks[bi].Instrs {
					call, ok := in.(*ssa.Call)
					if !ok {
						continue
					}
					o := ssau.CalleeObj(&call.Call)
					if o == nil {
						continue
					}
					switch o.Name() {
					case "WriteUint8":
						if k, ok := call.Call.Args[1].(*ssa.Const); ok {
							disc, _ = constInt(k)
						} else {
							width = "u8"
						}
					case "WriteUint16":
						width = "u16"
					case "WriteUint32":
						width = "u32"
					case "WriteUint64":
						width = "u64"
					}
				}
			}
			v := env.I["val"]
			wantDisc, wantW := int64(-1), "u8"
			switch {
			case v < 0xfd:
			case v <= 0xffff:
				wantDisc, wantW = 0xfd, "u16"
			case v <= 0xffffffff:
				wantDisc, wantW = 0xfe, "u32"
			default:
				wantDisc, wantW = 0xff, "u64"
			}
			if disc != wantDisc || width != wantW {
				okAll = false
				detail = fmt.Sprintf("value %#x is written with discriminant %#x width %s; canonical is %#x %s", v, disc, width, wantDisc, wantW)
				break
			}
		}
		if detail == "" {
			detail = fmt.Sprintf("canonical on all %d boundary values", len(vals))
		}
		c.R.Check("T-varint", "WriteVarUint|table", okAll, c.pos(wv.Pos()), detail)
	}
	rv := c.fn("common", "", "ReadVarUint")
	if rv != nil {
		// each discriminant arm carries a minimum: 0xff->0x100000000, 0xfe->0x10000, 0xfd->0xfd
		mins := map[int64]bool{}
		for _, i := range ssau.Ifs(rv) {
			if b, ok := i.Cond.(*ssa.BinOp); ok && b.Op.String() == "<" {
				if k, ok := b.Y.(*ssa.Const); ok {
					if v, ok := constInt(k); ok {
						mins[v] = true
					}
				}
			}
		}
		c.R.Check("T-varint", "ReadVarUint|canonical minima", mins[0x100000000] && mins[0x10000] && mins[0xfd], c.pos(rv.Pos()), fmt.Sprintf("minima tested: %v", mins))
	}

	// R-txtype
	gt := c.fn(txpkg, "", "GetTransaction")
	gp := c.P.Func("core/types/interfaces", "", "GetPayload")
	if gp == nil {
		gp = c.P.Func("core/types", "", "GetPayload")
	}
	if gt != nil {
		// the type switch may live in a helper the factory calls
		hasSwitch := func(g *ssa.Function) bool { return len(switchConsts(g)) >= 10 }
		a := switchConsts(c.relocateBy(gt, hasSwitch))
		if gp != nil {
			b := switchConsts(c.relocateBy(gp, hasSwitch))
			var missing []int64
			for k := range a {
				if !b[k] {
					missing = append(missing, k)
				}
			}
			for k := range b {
				if !a[k] {
					missing = append(missing, k)
				}
			}
			c.R.Check("R-txtype", "GetTransaction~GetPayload", len(missing) == 0 && len(a) >= 40, c.pos(gt.Pos()), fmt.Sprintf("%d tx types in GetTransaction, %d in GetPayload, differing: %v", len(a), len(b), missing))
		} else {
			c.R.Check("R-txtype", "GetTransaction|types", len(a) >= 40, c.pos(gt.Pos()), fmt.Sprintf("%d tx types", len(a)))
		}
	}
}

func keysOf(m map[string][]fieldTouch) []string {
	var out []string
	for k := range m {
		out = append(out, k)
	}
	return out
}

// switchConsts lists the integer constants a function's branch conditions compare its first parameter (or a value derived from it) with.
func switchConsts(fn *ssa.Function) map[int64]bool {
	out := map[int64]bool{}
	for _, i := range ssau.Ifs(fn) {
		b, ok := i.Cond.(*ssa.BinOp)
		if !ok || b.Op.String() != "==" {
			continue
		}
		if k, ok := b.Y.(*ssa.Const); ok {
			if v, ok := constInt(k); ok {
				out[v] = true
			}
		}
	}
	return out
}
