package props

import (
	"fmt"
	"go/token"
	"strings"

	"elaverif/ssau"

	"golang.org/x/tools/go/ssa"
)

func init() {
	register(&Check{ID: "C14", Title: "Queryable UTXO views agree with the ledger", Run: runC14})
}

func runC14(c *Ctx) {
	c.R.Rule("Z-zero", "UtxoIndex.ConnectBlock and DisconnectBlock build a per-address UTXO entry only behind output.Value != 0 (zero-value outputs never enter the per-address lists)")
	c.R.Rule("W-workingset", "the per-block working set of UtxoIndex (address -> height -> list) loads a bucket from the database only on the absent arm of the working-set lookup, and the lookup, the database fetch and the store back use the same address and the same height key")
	c.R.Rule("M-mirror", "the index manager hands every connected / disconnected block to every enabled index and fails when one fails; UtxoIndex.ConnectBlock and DisconnectBlock skip input processing under the same conditions")
	const pk = "blockchain/indexers"
	c.R.Rule("M-blockid", "TxIndex.ConnectBlock advances the internal block id by one on success and TxIndex.DisconnectBlock takes it back by one on every successful return (ids stay contiguous, which the start-up search for the highest id relies on)")
	for _, it := range []struct {
		name string
		op   token.Token
	}{{"ConnectBlock", token.ADD}, {"DisconnectBlock", token.SUB}} {
		f := c.fn(pk, "TxIndex", it.name)
		if f == nil {
			continue
		}
		var stores []ssa.Instruction
		okShape := false
		for _, b := range f.Blocks {
			for _, in := range b.Instrs {
				st, ok := in.(*ssa.Store)
				if !ok || !ssau.IsFieldOf(st.Addr, "TxIndex", "curBlockID") {
					continue
				}
				stores = append(stores, st)
				if bo, ok := ssau.Unwrap(st.Val).(*ssa.BinOp); ok && bo.Op == it.op && isConstInt(1)(bo.Y) && ssau.IsFieldOf(ssau.Unwrap(bo.X), "TxIndex", "curBlockID") {
					okShape = true
				}
			}
		}
		okAll := len(stores) > 0 && okShape
		if okAll {
			cut := ssau.NewCut()
			for _, st := range stores {
				cut.AddInstr(st)
			}
			r := ssau.ReachFromEntry(f, cut)
			ec := c.classifier(f, G1Opt{})
			if len(ec.SuccessExitsIn(r, cut)) > 0 {
				okAll = false
			}
		}
		c.R.Check("M-blockid", "TxIndex."+it.name+"|curBlockID "+it.op.String()+" 1 on success", okAll, c.pos(f.Pos()), "every successful return is preceded by curBlockID "+it.op.String()+"= 1")
	}
	fetchP := callPred(R{pk, "", "DBFetchUtxoIndexEntryByHeight"})
	for _, name := range []string{"ConnectBlock", "DisconnectBlock"} {
		f := c.fn(pk, "UtxoIndex", name)
		if f == nil {
			continue
		}
		// Z-zero
		n := 0
		for _, b := range f.Blocks {
			for _, in := range b.Instrs {
				al, ok := in.(*ssa.Alloc)
				if !ok || ssau.TypeName(al.Type()) != "UTXO" || !al.Heap {
					continue
				}
				n++
				c.G2("Z-zero", fmt.Sprintf("UtxoIndex.%s|entry#%d only for non-zero outputs", name, n), f, in, "output.Value != 0", condCmp(func(v ssa.Value) bool {
					return ssau.IsFieldOf(ssau.Unwrap(v), "Output", "Value")
				}, isConstInt(0), token.NEQ, true))
				// the entry's value is that output's value
				okV := false
				for _, st := range ssau.StoresInto(al) {
					if ssau.IsFieldOf(st.Addr, "UTXO", "Value") && ssau.IsFieldOf(ssau.Unwrap(st.Val), "Output", "Value") {
						okV = true
					}
				}
				c.R.Check("Z-zero", fmt.Sprintf("UtxoIndex.%s|entry#%d carries the output's value", name, n), okV, c.posOf(in), "UTXO.Value = output.Value")
			}
		}
		c.R.FloorCheck("Z-zero entries built in UtxoIndex."+name, n, 1)

		// W-workingset
		var working ssa.Value
		for _, b := range f.Blocks {
			for _, in := range b.Instrs {
				if mk, ok := in.(*ssa.MakeMap); ok && strings.Contains(mk.Type().String(), "map[uint32]") && working == nil {
					working = mk
				}
			}
		}
		// an inner (height -> list) map of the working set: a value of that map type derived from the working map,
		// directly (working[addr]) or through a get-or-create helper
		isInner := func(v ssa.Value) bool {
			v = ssau.Unwrap(v)
			if !strings.HasPrefix(v.Type().String(), "map[uint32]") {
				return false
			}
			return ssau.DependsOn(v, func(y ssa.Value) bool { return y == working })
		}
		for k, fc := range ssau.CallsIn(f, fetchP) {
			key := fmt.Sprintf("UtxoIndex.%s|fetch#%d", name, k+1)
			// guarded by the absent arm of inner[h]
			var guard *ssa.Lookup
			for _, i := range ssau.Ifs(f) {
				x, neg := ssau.StripNot(i.Cond)
				e, ok := x.(*ssa.Extract)
				if !ok || e.Index != 1 {
					continue
				}
				lk, ok := e.Tuple.(*ssa.Lookup)
				if !ok || !lk.CommaOk || !isInner(lk.X) {
					continue
				}
				c2 := ssau.NewCut()
				c2.AddEdge(i.Block(), ssau.Arm(i, neg))
				if !ssau.ReachFromEntry(f, c2).Instr(fc) {
					guard = lk
				}
			}
			c.R.Check("W-workingset", key+"|only on a working-set miss", guard != nil, c.posOf(fc), "the database fetch is reachable only through the absent arm of the comma-ok lookup of the working set")
			if guard == nil {
				continue
			}
			a := fc.Common().Args
			sameVal := func(x, y ssa.Value) bool { return sameExpr(ssau.Unwrap(x), ssau.Unwrap(y), 0) }
			addrArg := a[len(a)-2]
			forAddr := func(m ssa.Value) bool {
				return ssau.DependsOn(m, func(y ssa.Value) bool { return sameAddrOf(addrArg, y) })
			}
			okKey := sameVal(guard.Index, a[len(a)-1])
			okAddr := forAddr(guard.X)
			// the store back
			okStore := false
			for _, b := range f.Blocks {
				for _, in := range b.Instrs {
					u, ok := in.(*ssa.MapUpdate)
					if !ok || !isInner(u.Map) {
						continue
					}
					if !ssau.DependsOn(u.Value, func(y ssa.Value) bool { return ssau.IsCallTo(y, fetchP) && callOf(y) == fc.Value() }) {
						continue
					}
					okStore = sameVal(u.Key, guard.Index) && forAddr(u.Map)
				}
			}
			c.R.Check("W-workingset", key+"|lookup, fetch and store use the same address and height", okKey && okAddr && okStore, c.posOf(fc), fmt.Sprintf("height key agrees with the fetch: %v, address agrees: %v, stored back under the same keys: %v", okKey, okAddr, okStore))
		}
	}
	// M-mirror
	for _, m := range []struct{ name, callee string }{{"ConnectBlock", "dbIndexConnectBlock"}, {"DisconnectBlock", "dbIndexDisconnectBlock"}} {
		f := c.fn(pk, "Manager", m.name)
		if f == nil {
			continue
		}
		c.iterMustPass("M-mirror", "Manager."+m.name+"|every enabled index", f, m.callee, callPred(R{pk, "", m.callee}), true)
		c.R.Check("M-mirror", "Manager."+m.name+"|ranges over enabledIndexes", rangesWholeField(f, "enabledIndexes"), c.pos(f.Pos()), "the loop ranges over all enabled indexes")
	}
	cf, df := c.fn(pk, "UtxoIndex", "ConnectBlock"), c.fn(pk, "UtxoIndex", "DisconnectBlock")
	if cf != nil && df != nil {
		fx := namedCall("FetchTx")
		a, b := bypassCondsOuter(cf, ssau.CallsIn(cf, fx)), bypassCondsOuter(df, ssau.CallsIn(df, fx))
		c.R.Check("M-mirror", "UtxoIndex|input processing skipped under the same conditions", len(a) > 0 && strings.Join(a, " | ") == strings.Join(b, " | "), c.pos(df.Pos()), fmt.Sprintf("connect skips the input loop when %v, disconnect when %v", a, b))
	}
}

func callOf(v ssa.Value) ssa.Value {
	if ex, ok := v.(*ssa.Extract); ok {
		return ex.Tuple
	}
	return v
}

// sameLoadAddr: both values are loads of the same address.
func sameLoadAddr(x, y ssa.Value) bool {
	ux, ok1 := ssau.Unwrap(x).(*ssa.UnOp)
	uy, ok2 := ssau.Unwrap(y).(*ssa.UnOp)
	if !ok1 || !ok2 || ux.Op != token.MUL || uy.Op != token.MUL {
		return false
	}
	if ux.X == uy.X {
		return true
	}
	fx, ok1 := ux.X.(*ssa.FieldAddr)
	fy, ok2 := uy.X.(*ssa.FieldAddr)
	return ok1 && ok2 && fx.Field == fy.Field && fx.X == fy.X
}

// sameAddrOf: p is the address (&x.F) of the location whose load is v.
func sameAddrOf(p, v ssa.Value) bool {
	u, ok := ssau.Unwrap(v).(*ssa.UnOp)
	if !ok || u.Op != token.MUL {
		return false
	}
	return sameExpr(p, u.X, 0)
}

// bypassCondsOuter: conditions under which an iteration of the OUTER loop (over the block's transactions)
// completes without reaching any of the calls (which sit in an inner loop).
func bypassCondsOuter(f *ssa.Function, calls []ssa.CallInstruction) []string {
	if len(calls) == 0 {
		return nil
	}
	h := ssau.EnclosingLoopHeader(calls[0].Block())
	if h == nil {
		return nil
	}
	outer := ssau.EnclosingLoopHeader(h)
	// EnclosingLoopHeader of a header returns itself; walk to the loop that strictly contains h
	for _, b := range f.Blocks {
		body := ssau.LoopBody(b)
		if len(body) > 0 && body[h] && b != h {
			if outer == nil || outer == h || len(body) < len(ssau.LoopBody(outer)) {
				outer = b
			}
		}
	}
	if outer == nil || outer == h {
		return nil
	}
	body := ssau.LoopBody(outer)
	set := map[string]bool{}
	reachInner := func(b *ssa.BasicBlock) bool {
		seen := map[*ssa.BasicBlock]bool{}
		var walk func(x *ssa.BasicBlock) bool
		walk = func(x *ssa.BasicBlock) bool {
			if x == h {
				return true
			}
			if x == outer || seen[x] || !body[x] {
				return false
			}
			seen[x] = true
			for _, s := range x.Succs {
				if walk(s) {
					return true
				}
			}
			return false
		}
		return walk(b)
	}
	for b := range body {
		i, ok := b.Instrs[len(b.Instrs)-1].(*ssa.If)
		if !ok || b == outer || ssau.LoopBody(h)[b] {
			continue
		}
		t, e := reachInner(b.Succs[0]), reachInner(b.Succs[1])
		if t != e {
			arm := "false"
			if e {
				arm = "true"
			}
			// the arm that does NOT reach the inner loop must continue the outer loop (not return an error)
			other := b.Succs[0]
			if t {
				other = b.Succs[1]
			}
			if _, isRet := other.Instrs[len(other.Instrs)-1].(*ssa.Return); isRet {
				continue
			}
			set[ssau.CondString(i.Cond)+"=="+arm] = true
		}
	}
	return ssau.SortedKeys(set)
}
