package props

func init() {
	register(&Check{ID: "C21", Title: "DPoS state after a rollback equals the state built directly", Run: runC21})
	register(&Check{ID: "C22", Title: "CR committee state after a rollback equals the state built directly", Run: runC22})
}

func runC21(c *Ctx) {
	c.R.Rule("U-effects", "for every History.Append(height, do, undo) in dpos/state: every shared-state location the do-closure writes (struct field assigned, map field inserted into / deleted from, following same-package callees) is restored by the undo-closure (assign by assign; insert by delete or assign; delete by insert or assign)")
	c.R.Rule("U-value", "what an undo-closure writes back: a scalar field is restored from a constant, from a variable captured before the change (never one the change itself assigns after writing the field), or by adjusting the field the opposite way by the same amount as the change; never from the current value of another state field; a change that may leave a field untouched is not paired with a rollback that always overwrites it with a constant or adjustment; a map entry is removed/re-inserted under a key the change used")
	c.R.Rule("U-direct", "no function on the block-processing paths (reached from ProcessBlock outside History.Append closures) writes a field or map of the serialized key frame directly: every such write is part of a history change, so it can be rolled back")
	c.R.Rule("U-order", "the histories committed while processing a block (State.History, Arbiters.History, ...) are all rolled back by Arbiters.RollbackTo, in reverse commit order where their changes overlap")
	c.uValues("U-value", "dpos/state", 1)
	c.uDirect("U-direct", "dpos/state", [][2]string{{"State", "ProcessBlock"}, {"Arbiters", "ProcessBlock"}}, map[string]bool{"StateKeyFrame": true, "RewardData": true}, map[string]string{
		"(*dpos/state.State).countArbitratorsInactivityV0|StateKeyFrame.PreBlockArbiters":          "observed, not decided: the legacy (pre-V1) inactivity counting rebuilds PreBlockArbiters directly on every block and no rollback restores it; a rolled-back state then starts the next block with the arbiter set of the rolled-back block. No failing history was demonstrated (the path is only active between PublicDPOSHeight and the V1 inactivity rules), so it is neither reported nor claimed correct",
		"(*dpos/state.Arbiters).getSortedProducersWithRandom|StateKeyFrame.LastRandomCandidateHeight": "observed, not decided: the random candidate's height is assigned outside any history change (source comment: 'todo need to use History?'); after a rollback across a re-selection the remembered height is the rolled-back one. No failing history was demonstrated",
		"(*dpos/state.Arbiters).getSortedProducersWithRandom|StateKeyFrame.LastRandomCandidateOwner":  "observed, not decided: same as LastRandomCandidateHeight",
	})
	c.uOrder("U-order", "dpos/state", c.fn("dpos/state", "Arbiters", "ProcessBlock"), c.fn("dpos/state", "Arbiters", "RollbackTo"), map[string]string{}, nil)
	c.uEffects("U-effects", "dpos/state", 85, map[string]string{
		"(*dpos/state.State).processTransactions|Producer.expiredNFTVotes:assign":      "lazy initialisation of a nil map before the insert (`if m == nil { m = make }`); the rollback deletes the inserted key and an empty map is observationally the nil map",
		"(*dpos/state.State).processVotingContent|Producer.detailedDPoSV2Votes:assign": "lazy initialisation of a nil map before the insert; the rollback deletes the inserted keys",
	})
}

func runC22(c *Ctx) {
	c.uValues("U-value", "cr/state", 1)
	c.uDirect("U-direct", "cr/state", [][2]string{{"Committee", "ProcessBlock"}}, map[string]bool{"StateKeyFrame": true, "KeyFrame": true, "ProposalKeyFrame": true}, map[string]string{
		"(*cr/state.Committee).processCurrentCandidates|StateKeyFrame.HistoryCandidates": "lazy creation of the empty per-session map before the history change fills it; after a rollback the session key stays with an empty map, which every reader treats like an absent one (the entries themselves are inserted and removed by the history change)",
	})
	c.R.Rule("U-effects", "for every History.Append(height, do, undo) in cr/state: every shared-state location the do-closure writes is restored by the undo-closure (assign by assign; insert by delete or assign; delete by insert or assign)")
	c.R.Rule("U-value", "what an undo-closure writes back (see C21): constants, values captured before the change, or the inverse adjustment; never a value derived from another state field at rollback time; map entries are undone under the keys the change used")
	c.R.Rule("U-direct", "no function reached from Committee.ProcessBlock outside History.Append closures writes a field or map of the serialized key frames directly")
	c.R.Rule("U-order", "the committee's histories are rolled back by Committee.RollbackTo; two histories whose recorded changes write a common location are rolled back in the reverse of the order in which Committee.ProcessBlock commits them")
	c.uEffects("U-effects", "cr/state", 60, map[string]string{})
	c.uOrder("U-order", "cr/state", c.fn("cr/state", "Committee", "ProcessBlock"), c.fn("cr/state", "Committee", "RollbackTo"), map[string]string{"rollbackTo": "State.History"}, map[string]string{
		"State.History<Committee.inactiveCRHistory":              "not decided: both histories write CRMember.MemberState/DepositInfo.Penalty at type granularity and inactiveCRHistory is rolled back after State.History although committed later; whether one block can make both touch the same member was not demonstrated, so this ordering is neither claimed correct nor reported",
		"Committee.committeeHistory<Committee.inactiveCRHistory": "not decided: same situation as State.History<inactiveCRHistory (type-granularity overlap, no demonstrated interference)",
	})
}
