package props

func init() {
	register(&Check{ID: "C21", Title: "DPoS state after a rollback equals the state built directly", Run: runC21})
	register(&Check{ID: "C22", Title: "CR committee state after a rollback equals the state built directly", Run: runC22})
}

func runC21(c *Ctx) {
	c.R.Rule("U-effects", "for every History.Append(height, do, undo) in dpos/state: every shared-state location the do-closure writes (struct field assigned, map field inserted into / deleted from, following same-package callees) is restored by the undo-closure (assign by assign; insert by delete or assign; delete by insert or assign)")
	c.R.Rule("U-order", "the histories committed while processing a block (State.History, Arbiters.History, ...) are all rolled back by Arbiters.RollbackTo, in reverse commit order where their changes overlap")
	c.uValues("U-value", "dpos/state", 1)
	c.uOrder("U-order", "dpos/state", c.fn("dpos/state", "Arbiters", "ProcessBlock"), c.fn("dpos/state", "Arbiters", "RollbackTo"), map[string]string{}, nil)
	c.uEffects("U-effects", "dpos/state", 85, map[string]string{
		"(*dpos/state.State).processTransactions|Producer.expiredNFTVotes:assign":      "lazy initialisation of a nil map before the insert (`if m == nil { m = make }`); the rollback deletes the inserted key and an empty map is observationally the nil map",
		"(*dpos/state.State).processVotingContent|Producer.detailedDPoSV2Votes:assign": "lazy initialisation of a nil map before the insert; the rollback deletes the inserted keys",
	})
}

func runC22(c *Ctx) {
	c.uValues("U-value", "cr/state", 1)
	c.R.Rule("U-effects", "for every History.Append(height, do, undo) in cr/state: every shared-state location the do-closure writes is restored by the undo-closure (assign by assign; insert by delete or assign; delete by insert or assign)")
	c.R.Rule("U-order", "the committee's histories are rolled back by Committee.RollbackTo; two histories whose recorded changes write a common location are rolled back in the reverse of the order in which Committee.ProcessBlock commits them")
	c.uEffects("U-effects", "cr/state", 60, map[string]string{})
	c.uOrder("U-order", "cr/state", c.fn("cr/state", "Committee", "ProcessBlock"), c.fn("cr/state", "Committee", "RollbackTo"), map[string]string{"rollbackTo": "State.History"}, map[string]string{
		"State.History<Committee.inactiveCRHistory":              "not decided: both histories write CRMember.MemberState/DepositInfo.Penalty at type granularity and inactiveCRHistory is rolled back after State.History although committed later; whether one block can make both touch the same member was not demonstrated, so this ordering is neither claimed correct nor reported",
		"Committee.committeeHistory<Committee.inactiveCRHistory": "not decided: same situation as State.History<inactiveCRHistory (type-granularity overlap, no demonstrated interference)",
	})
}
