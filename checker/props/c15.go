package props

import (
	"fmt"
	"go/token"
	"go/types"
	"sort"
	"strings"

	"elaverif/ssau"

	"golang.org/x/tools/go/ssa"
)

func init() {
	register(&Check{ID: "C15", Title: "Caches are transparent", Run: runC15})
}

// boundedInsert: every insert into a map satisfying isMap in f is dominated by a size test (len/Len() compared
// with a bound) on whose true arm an entry is deleted from the same map.
func (c *Ctx) boundedInsert(rule, key string, f *ssa.Function, isMap func(ssa.Value) bool, what string) {
	if f == nil {
		return
	}
	ins, _ := mapWrites(f, isMap)
	if len(ins) == 0 {
		c.R.Check(rule, key, false, c.pos(f.Pos()), "no insert into "+what+" found")
		return
	}
	isSize := func(v ssa.Value) bool {
		v = ssau.Unwrap(v)
		if cl, ok := v.(*ssa.Call); ok {
			if bi, ok := cl.Call.Value.(*ssa.Builtin); ok && bi.Name() == "len" {
				return true
			}
			if o := ssau.CalleeObj(&cl.Call); o != nil && o.Name() == "Len" {
				return true
			}
		}
		return false
	}
	for n, in := range ins {
		ok := false
		var at *ssa.If
		for _, i := range ssau.Ifs(f) {
			b, isB := i.Cond.(*ssa.BinOp)
			if !isB || !(b.Op == token.GEQ || b.Op == token.GTR) || !isSize(b.X) {
				continue
			}
			// dominance: without this test the insert is unreachable
			cut := ssau.NewCut()
			cut.AddInstr(i)
			if ssau.ReachFromEntry(f, cut).Instr(in) {
				continue
			}
			// a delete from the same map only on the true arm
			_, dels := mapWrites(f, isMap)
			cutT := ssau.NewCut()
			cutT.AddEdge(i.Block(), ssau.Arm(i, true))
			r := ssau.ReachFromEntry(f, cutT)
			for _, d := range dels {
				if !r.Instr(d) {
					ok = true
					at = i
				}
			}
		}
		det := fmt.Sprintf("insert into %s is behind a size test that evicts from the same map", what)
		pos := c.posOf(in)
		if at != nil {
			det += " (" + c.posOf(at) + ")"
		}
		if !ok {
			det = fmt.Sprintf("insert into %s has no dominating size test with an eviction from the same map", what)
		}
		c.R.Check(rule, fmt.Sprintf("%s#%d", key, n+1), ok, pos, det)
	}
}

// bypassConds: conditions under which one iteration of the loop containing `call` completes without executing it.
func bypassConds(f *ssa.Function, calls []ssa.CallInstruction) []string {
	if len(calls) == 0 {
		return nil
	}
	h := ssau.EnclosingLoopHeader(calls[0].Block())
	if h == nil {
		return nil
	}
	body := ssau.LoopBody(h)
	cut := ssau.NewCut()
	for _, ci := range calls {
		cut.AddInstr(ci)
	}
	set := map[string]bool{}
	// reaches the header again without the call, starting from block b (not through the header itself)
	reachesHeader := func(b *ssa.BasicBlock) bool {
		seen := map[*ssa.BasicBlock]bool{}
		var walk func(x *ssa.BasicBlock) bool
		walk = func(x *ssa.BasicBlock) bool {
			if x == h {
				return true
			}
			if seen[x] || !body[x] {
				return false
			}
			seen[x] = true
			for _, in := range x.Instrs {
				if cut.Instrs[in] {
					return false
				}
			}
			for _, s := range x.Succs {
				if walk(s) {
					return true
				}
			}
			return false
		}
		return walk(b)
	}
	// canReachCall: from block x (inside the iteration) some call of the set is still reachable
	canReachCall := func(x *ssa.BasicBlock) bool {
		seenB := map[*ssa.BasicBlock]bool{}
		var walk func(y *ssa.BasicBlock) bool
		walk = func(y *ssa.BasicBlock) bool {
			if y == h || seenB[y] || !body[y] {
				return false
			}
			seenB[y] = true
			for _, in := range y.Instrs {
				if cut.Instrs[in] {
					return true
				}
			}
			for _, sx := range y.Succs {
				if walk(sx) {
					return true
				}
			}
			return false
		}
		return walk(x)
	}
	for b := range body {
		i, ok := b.Instrs[len(b.Instrs)-1].(*ssa.If)
		if !ok || b == h {
			continue
		}
		// a decisive branch: one arm completes the iteration and can no longer reach the call, the other still can
		for k, arm := range []string{"true", "false"} {
			a, o := b.Succs[k], b.Succs[1-k]
			if reachesHeader(a) && !canReachCall(a) && canReachCall(o) {
				set[ssau.CondString(i.Cond)+"=="+arm] = true
			}
		}
	}
	return ssau.SortedKeys(set)
}

func runC15(c *Ctx) {
	c.R.Rule("K-alias", "an object handed out by a cache lookup (ChainStoreFFLDB.GetBlock and its wrappers, TxCache.GetTxn) is not written through by its callers in the node: no field store through the returned pointer (a cached answer must stay equal to the uncached one)")
	c.R.Rule("U-txcache", "UnspentIndex.ConnectBlock caches and DisconnectBlock un-caches a block's transactions under the same skip conditions (a transaction cached on connect is dropped on disconnect); the cache is trimmed before a block's transactions are inserted")
	c.R.Rule("G-sendcache", "p2p.WriteMessage caches only bytes of a buffer allocated in the same call, and serves a cached payload only for the same block hash and the same confirm variant")
	c.R.Rule("G-bound", "every insertion into a cache map (p2p block send cache outer and inner map, chain-store decoded-block cache, UTXO reference cache, UTXO transaction cache) is dominated by a size test on whose true arm an entry of the same map is deleted; TxCache.trim deletes when over the trigger")
	c.R.Rule("G1-clean", "BlockChain.reorganizeChain cleans the UTXO cache before the first block is disconnected")

	// ---- K-alias
	type getter struct {
		f   *ssa.Function
		why string
	}
	var getters []*ssa.Function
	isCacheMap := func(v ssa.Value) bool {
		v = ssau.Unwrap(v)
		return ssau.IsFieldOf(v, "ChainStoreFFLDB", "blocksCache") || ssau.IsFieldOf(v, "TxCache", "txns")
	}
	all := c.P.AllFuncs()
	returnsCached := map[*ssa.Function]bool{}
	for f := range all {
		if !nodeFunc(f) || len(f.Blocks) == 0 {
			continue
		}
		for _, ret := range ssau.Returns(f) {
			for _, rv := range ret.Results {
				if _, isPtr := rv.Type().Underlying().(*types.Pointer); !isPtr {
					continue
				}
				if ssau.DependsOn(rv, func(y ssa.Value) bool {
					lk, ok := y.(*ssa.Lookup)
					return ok && isCacheMap(lk.X)
				}) {
					returnsCached[f] = true
				}
			}
		}
	}
	// wrappers: return the (first) result of a cached getter unchanged
	names := map[string]bool{}
	for changed := true; changed; {
		changed = false
		for f := range returnsCached {
			if !names[f.Name()] {
				names[f.Name()] = true
			}
		}
		for f := range all {
			if returnsCached[f] || !nodeFunc(f) || len(f.Blocks) == 0 {
				continue
			}
			for _, ret := range ssau.Returns(f) {
				for _, rv := range ret.Results {
					if _, isPtr := rv.Type().Underlying().(*types.Pointer); !isPtr {
						continue
					}
					var leaves []ssa.Value
					for _, sv := range spillSources(rv) {
						phiLeaves(sv, map[ssa.Value]bool{}, &leaves)
					}
					for _, l := range leaves {
						v := l
						if ex, ok := v.(*ssa.Extract); ok {
							v = ex.Tuple
						}
						if cl, ok := v.(*ssa.Call); ok {
							if g := cl.Call.StaticCallee(); g != nil && returnsCached[g] {
								returnsCached[f] = true
								changed = true
							} else if cl.Call.IsInvoke() && names[cl.Call.Method.Name()] && sameResultType(cl.Call.Method, rv.Type()) {
								returnsCached[f] = true
								changed = true
							}
						}
					}
				}
			}
		}
	}
	for f := range returnsCached {
		getters = append(getters, f)
	}
	sort.Slice(getters, func(i, j int) bool { return getters[i].String() < getters[j].String() })
	var gn []string
	for _, g := range getters {
		gn = append(gn, short(fname(g)))
	}
	c.R.FloorCheck("K-alias functions returning cached objects", len(getters), 3)
	c.R.Note(fmt.Sprintf("functions returning cached objects: %v", gn))
	nSites := 0
	for f := range all {
		if !nodeFunc(f) || len(f.Blocks) == 0 {
			continue
		}
		for _, b := range f.Blocks {
			for _, in := range b.Instrs {
				cl, ok := in.(*ssa.Call)
				if !ok {
					continue
				}
				hit := false
				if g := cl.Call.StaticCallee(); g != nil && returnsCached[g] {
					hit = true
				} else if cl.Call.IsInvoke() && names[cl.Call.Method.Name()] {
					for _, g := range getters {
						if g.Name() == cl.Call.Method.Name() {
							hit = true
						}
					}
				}
				if !hit {
					continue
				}
				nSites++
				// the pointer result(s)
				var ptrs []ssa.Value
				if _, isPtr := cl.Type().Underlying().(*types.Pointer); isPtr {
					ptrs = append(ptrs, cl)
				}
				if refs := cl.Referrers(); refs != nil {
					for _, r := range *refs {
						if ex, ok := r.(*ssa.Extract); ok {
							if _, isPtr := ex.Type().Underlying().(*types.Pointer); isPtr {
								ptrs = append(ptrs, ex)
							}
						}
					}
				}
				bad := ""
				for _, p := range ptrs {
					if s := storeThrough(p, map[ssa.Value]bool{}); s != nil {
						bad = c.posOf(s)
					}
				}
				if bad != "" || c.thorough() {
					c.R.Check("K-alias", short(fname(f))+"|"+calleeName(cl)+" result not written", bad == "", c.posOf(cl), fmt.Sprintf("the object returned by the cache lookup is written through at %s", bad))
				}
			}
		}
	}
	c.R.Check("K-alias", "all call sites of cached getters scanned", nSites >= 10, "", fmt.Sprintf("%d call sites of %v scanned for stores through the returned pointer", nSites, gn))

	// ---- U-txcache
	ci, di := c.fn("blockchain/indexers", "UnspentIndex", "ConnectBlock"), c.fn("blockchain/indexers", "UnspentIndex", "DisconnectBlock")
	if ci != nil && di != nil {
		setP := callPred(R{"blockchain/indexers", "TxCache", "setTxn"})
		delP := callPred(R{"blockchain/indexers", "TxCache", "deleteTxn"})
		inTxLoop := func(f *ssa.Function, p func(*ssa.CallCommon) bool) []ssa.CallInstruction {
			var out []ssa.CallInstruction
			for _, cl := range ssau.CallsIn(f, p) {
				// the call whose argument is the loop's transaction (not the spent-out cleanup loop)
				a := cl.Common().Args
				if ssau.DependsOn(a[len(a)-1], func(y ssa.Value) bool { return ssau.IsFieldOf(y, "Block", "Transactions") }) {
					out = append(out, cl)
				}
			}
			return out
		}
		sets, dels := inTxLoop(ci, setP), inTxLoop(di, delP)
		c.R.Check("U-txcache", "cache and un-cache calls present", len(sets) == 1 && len(dels) == 1, c.pos(ci.Pos()), fmt.Sprintf("%d setTxn in ConnectBlock, %d deleteTxn in DisconnectBlock on the block's transactions", len(sets), len(dels)))
		if len(sets) == 1 && len(dels) == 1 {
			a, b := bypassConds(ci, sets), bypassConds(di, dels)
			c.R.Check("U-txcache", "same skip conditions on connect and disconnect", strings.Join(a, " | ") == strings.Join(b, " | "), c.posOf(dels[0]), fmt.Sprintf("an iteration skips setTxn when %v and skips deleteTxn when %v", a, b))
		}
		// trim before inserting
		trims := ssau.CallsIn(ci, callPred(R{"blockchain/indexers", "TxCache", "trim"}))
		okTrim := len(trims) >= 1 && len(sets) == 1
		if okTrim {
			cut := ssau.NewCut()
			for _, t := range trims {
				cut.AddInstr(t)
			}
			okTrim = !ssau.ReachFromEntry(ci, cut).Instr(sets[0])
		}
		c.R.Check("U-txcache", "trim precedes the inserts", okTrim, c.pos(ci.Pos()), "ConnectBlock trims the cache before caching the block's transactions")
	}
	if tr := c.fn("blockchain/indexers", "TxCache", "trim"); tr != nil {
		_, dels := mapWrites(tr, fieldIs("TxCache", "txns"))
		okT := len(dels) >= 1
		for _, d := range dels {
			cut := ssau.NewCut()
			n := 0
			for _, i := range ssau.Ifs(tr) {
				if b, ok := i.Cond.(*ssa.BinOp); ok && b.Op == token.GTR && isLenOf(fieldIs("TxCache", "txns"))(b.X) {
					cut.AddEdge(i.Block(), ssau.Arm(i, true))
					n++
				}
			}
			if n == 0 || ssau.ReachFromEntry(tr, cut).Instr(d) {
				okT = false
			}
		}
		c.R.Check("G-bound", "TxCache.trim|evicts when over the trigger", okT, c.pos(tr.Pos()), "entries are deleted on the true arm of len(txns) > TxCacheVolume + TrimmingInterval")
	}

	// ---- G-sendcache / G-bound for the p2p send cache
	if w := c.fn("p2p", "", "WriteMessage"); w != nil {
		isGlobal := func(name string) func(ssa.Value) bool {
			return func(v ssa.Value) bool {
				u, ok := ssau.Unwrap(v).(*ssa.UnOp)
				if !ok || u.Op != token.MUL {
					return false
				}
				g, ok := u.X.(*ssa.Global)
				return ok && g.Name() == name
			}
		}
		outer := isGlobal("blocksCache")
		inner := func(v ssa.Value) bool {
			v = ssau.Unwrap(v)
			if lk, ok := v.(*ssa.Lookup); ok && outer(lk.X) {
				return true
			}
			if ex, ok := v.(*ssa.Extract); ok {
				if lk, ok := ex.Tuple.(*ssa.Lookup); ok && outer(lk.X) {
					return true
				}
			}
			if mk, ok := v.(*ssa.MakeMap); ok {
				// the fresh inner map that is stored into the outer one
				if refs := mk.Referrers(); refs != nil {
					for _, r := range *refs {
						if u, ok := r.(*ssa.MapUpdate); ok && outer(u.Map) && u.Value == ssa.Value(mk) {
							return true
						}
					}
				}
			}
			return false
		}
		// the cache code may live in a helper WriteMessage calls
		w = c.relocateBy(w, func(g *ssa.Function) bool { ins, _ := mapWrites(g, outer); return len(ins) > 0 })
		c.boundedInsert("G-bound", "WriteMessage|send cache per-hash entries", w, outer, "blocksCache")
		c.boundedInsert("G-bound", "WriteMessage|send cache variants", w, inner, "blocksCache[hash]")
		// cached bytes come from a buffer allocated in this call
		ins, _ := mapWrites(w, inner)
		for n, in := range ins {
			u := in.(*ssa.MapUpdate)
			ok := false
			if cl, isCall := ssau.Unwrap(u.Value).(*ssa.Call); isCall && methodCallNamed(cl, "Bytes") && len(cl.Call.Args) == 1 {
				_, ok = cl.Call.Args[0].(*ssa.Alloc)
			}
			c.R.Check("G-sendcache", fmt.Sprintf("WriteMessage|cached bytes own their buffer#%d", n+1), ok, c.posOf(in), "the cached slice is Bytes() of a bytes.Buffer allocated in this call (not pooled or shared)")
		}
		c.R.FloorCheck("G-sendcache cache inserts", len(ins), 2)
		// a cached payload is served only for the same hash and variant
		okServe := false
		for _, b := range w.Blocks {
			for _, in := range b.Instrs {
				lk, ok := in.(*ssa.Lookup)
				if !ok || !inner(lk.X) {
					continue
				}
				if ssau.IsFieldOf(ssau.Unwrap(lk.Index), "DposBlock", "HaveConfirm") {
					if ol, ok := ssau.Unwrap(lk.X).(*ssa.Extract); ok {
						if l2, ok := ol.Tuple.(*ssa.Lookup); ok && methodCallNamed(ssau.Unwrap(l2.Index), "Hash") {
							okServe = true
						}
					}
				}
			}
		}
		c.R.Check("G-sendcache", "WriteMessage|hit keyed by hash and confirm variant", okServe, c.pos(w.Pos()), "a cached payload is looked up as blocksCache[block.Hash()][block.HaveConfirm]")
	}
	// ---- K-txcache: who fills and who empties the transaction cache of the unspent index
	c.R.Rule("K-txcache", "the transaction cache behind GetTransaction is filled only while a block is connected (UnspentIndex.ConnectBlock) and when it is reloaded at start (TxCache.Deserialize): a reader never inserts what it found in the store; while a block is disconnected every one of its transactions is dropped from the cache (each completed iteration of UnspentIndex.DisconnectBlock over block.Transactions, other than the skipped asset registration, passes deleteTxn)")
	if st := c.fn("blockchain/indexers", "TxCache", "setTxn"); st != nil {
		var bad []string
		n := 0
		allowedSet := map[string]bool{"(*blockchain/indexers.UnspentIndex).ConnectBlock": true, "(*blockchain/indexers.TxCache).Deserialize": true}
		var okCaller func(g *ssa.Function, depth int) bool
		okCaller = func(g *ssa.Function, depth int) bool {
			if allowedSet[fname(g)] {
				return true
			}
			// an unexported helper that is itself only called from the connect / reload paths
			if depth > 2 || token.IsExported(g.Name()) {
				return false
			}
			up := c.staticCallers(g)
			if len(up) == 0 {
				return false
			}
			for h := range up {
				if !okCaller(h, depth+1) {
					return false
				}
			}
			return true
		}
		for g := range c.staticCallers(st) {
			n++
			if !okCaller(g, 0) {
				bad = append(bad, fname(g))
			}
		}
		sort.Strings(bad)
		c.R.Check("K-txcache", "setTxn|callers", n > 0 && len(bad) == 0, c.pos(st.Pos()), fmt.Sprintf("callers outside the connect / reload paths: %v", bad))
	}
	if db := c.fn("blockchain/indexers", "UnspentIndex", "DisconnectBlock"); db != nil {
		del := callPred(R{"blockchain/indexers", "TxCache", "deleteTxn"})
		// the drop of the disconnected transaction itself: the deleteTxn call in the outer loop over block.Transactions
		for _, call := range ssau.CallsIn(db, del) {
			hs := loopHeaders(call.Block())
			if len(hs) != 1 || !loopRangesOver(hs[0], fieldIs("Block", "Transactions")) {
				continue
			}
			H := hs[0]
			cut := ssau.NewCut()
			cut.AddInstr(call)
			cut.AddInstr(H.Instrs[0])
			// the only permitted skip: the asset registration transaction
			for _, i := range ssau.Ifs(db) {
				if m, arm := condCmp(func(v ssa.Value) bool { return methodCallNamed(ssau.Unwrap(v), "TxType") }, func(v ssa.Value) bool { _, ok := v.(*ssa.Const); return ok }, token.EQL, true)(i); m {
					cut.AddEdge(i.Block(), ssau.Arm(i, arm))
				}
			}
			var body *ssa.BasicBlock
			for _, sx := range H.Succs {
				if sx == call.Block() || sx.Dominates(call.Block()) {
					body = sx
				}
			}
			ok := body != nil
			if ok {
				r := ssau.ReachFromBlock(db, body, cut)
				for _, p := range H.Preds {
					if r.EdgeReachable(p, H) && (r.Block(p) || p == body) {
						ok = false
					}
				}
			}
			c.R.Check("K-txcache", "DisconnectBlock|every disconnected transaction leaves the cache", ok, c.posOf(call), "an iteration over block.Transactions can complete without TxCache.deleteTxn(txn.Hash())")
		}
	}
	// chain store decoded-block cache
	if g := c.fn("blockchain", "ChainStoreFFLDB", "GetBlock"); g != nil {
		c.boundedInsert("G-bound", "ChainStoreFFLDB.GetBlock|decoded-block cache", g, fieldIs("ChainStoreFFLDB", "blocksCache"), "blocksCache")
		// the cached value is what was decoded from the store for that hash
		ins, _ := mapWrites(g, fieldIs("ChainStoreFFLDB", "blocksCache"))
		ok := len(ins) == 1
		if ok {
			u := ins[0].(*ssa.MapUpdate)
			ok = paramNamed(u.Key, "hash") && ssau.DependsOn(u.Value, func(y ssa.Value) bool { _, isA := y.(*ssa.Alloc); return isA })
			ok = ok && len(ssau.CallsInDeep(g, func(cm *ssa.CallCommon) bool { o := ssau.CalleeObj(cm); return o != nil && o.Name() == "FetchBlock" })) == 1
		}
		c.R.Check("G-sendcache", "ChainStoreFFLDB.GetBlock|caches the decoded row under its hash", ok, c.pos(g.Pos()), "the entry stored for `hash` is the object decoded from FetchBlock(hash) in this call")
	}
	// UTXO caches
	if f := c.fn("blockchain", "UTXOCache", "InsertReference"); f != nil {
		c.boundedInsert("G-bound", "UTXOCache.InsertReference|reference cache", f, fieldIs("UTXOCache", "Reference"), "Reference")
	}
	if f := c.fn("blockchain", "UTXOCache", "insertTransaction"); f != nil {
		c.boundedInsert("G-bound", "UTXOCache.insertTransaction|transaction cache", f, fieldIs("UTXOCache", "TxCache"), "TxCache")
	}
	// who else inserts into these maps
	for _, m := range []struct{ t, f string }{{"UTXOCache", "Reference"}, {"UTXOCache", "TxCache"}, {"ChainStoreFFLDB", "blocksCache"}} {
		var writers []string
		for f := range all {
			if !nodeFunc(f) || len(f.Blocks) == 0 {
				continue
			}
			if ins, _ := mapWrites(f, fieldIs(m.t, m.f)); len(ins) > 0 {
				writers = append(writers, f.Name())
			}
		}
		sort.Strings(writers)
		c.R.Check("G-bound", m.t+"."+m.f+"|single inserting function", len(writers) == 1, "", fmt.Sprintf("functions inserting into %s.%s: %v", m.t, m.f, writers))
	}

	// ---- G1-clean
	if r := c.fn("blockchain", "BlockChain", "reorganizeChain"); r != nil {
		clean := ssau.CallsIn(r, callPred(R{"blockchain", "UTXOCache", "CleanCache"}))
		disc := ssau.CallsIn(r, callPred(R{"blockchain", "BlockChain", "disconnectBlock"}))
		ok := len(clean) >= 1 && len(disc) >= 1
		if ok {
			cut := ssau.NewCut()
			for _, cl := range clean {
				cut.AddInstr(cl)
			}
			rr := ssau.ReachFromEntry(r, cut)
			for _, d := range disc {
				if rr.Instr(d) {
					ok = false
				}
			}
		}
		c.R.Check("G1-clean", "reorganizeChain|CleanCache before disconnectBlock", ok, c.pos(r.Pos()), fmt.Sprintf("%d disconnectBlock call(s), each reachable only after UTXOCache.CleanCache()", len(disc)))
	}
}

func sameResultType(m *types.Func, t types.Type) bool {
	sig := m.Type().(*types.Signature)
	for i := 0; i < sig.Results().Len(); i++ {
		if types.Identical(sig.Results().At(i).Type(), t) {
			return true
		}
	}
	return false
}

func calleeName(cl *ssa.Call) string {
	if g := cl.Call.StaticCallee(); g != nil {
		return g.Name()
	}
	if cl.Call.IsInvoke() {
		return cl.Call.Method.Name()
	}
	return "?"
}

// storeThrough finds a store whose address is a field of the object v points to (following phis).
func storeThrough(v ssa.Value, seen map[ssa.Value]bool) ssa.Instruction {
	if seen[v] {
		return nil
	}
	seen[v] = true
	refs := v.Referrers()
	if refs == nil {
		return nil
	}
	for _, r := range *refs {
		switch x := r.(type) {
		case *ssa.FieldAddr:
			if x.X != v {
				continue
			}
			if fr := x.Referrers(); fr != nil {
				for _, u := range *fr {
					if st, ok := u.(*ssa.Store); ok && st.Addr == ssa.Value(x) {
						return st
					}
				}
			}
		case *ssa.Phi:
			if s := storeThrough(x, seen); s != nil {
				return s
			}
		}
	}
	return nil
}

// spillSources: the values a (possibly defer-spilled) result may hold: for `*t0` loads of a result slot all
// values stored into the slot, otherwise the value itself.
func spillSources(v ssa.Value) []ssa.Value {
	if u, ok := v.(*ssa.UnOp); ok && u.Op == token.MUL {
		if al, ok := u.X.(*ssa.Alloc); ok {
			var out []ssa.Value
			for _, st := range ssau.StoresInto(al) {
				if st.Addr == ssa.Value(al) {
					out = append(out, st.Val)
				}
			}
			if len(out) > 0 {
				return out
			}
		}
	}
	return []ssa.Value{v}
}
