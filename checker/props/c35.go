package props

import (
	"fmt"
	"go/token"
	"go/types"
	"strings"

	"elaverif/ssau"

	"golang.org/x/tools/go/ssa"
)

func init() {
	register(&Check{ID: "C35", Title: "P2P framing rejects anything but well-formed, authentic messages", Run: runC35})
}

func isErrNilOf(pred func(*ssa.CallCommon) bool) IfArm {
	return func(i *ssa.If) (bool, bool) {
		x, trueIsNil, ok := ssau.NilTest(i.Cond)
		if ok && ssau.IsCallTo(ssau.Unwrap(x), pred) {
			return true, trueIsNil
		}
		return false, false
	}
}

func runC35(c *Ctx) {
	c.R.Rule("G-frame", "CheckAndCreateMessage allocates the payload buffer only behind hdr.Length > message.MaxLength() == false (full-width comparison), decodes only after io.ReadFull and hdr.Verify(payload) succeeded; ReadMessage dispatches only after the header decoded and hdr.Magic == magic; Header.Verify succeeds only when the stored checksum equals the first bytes of Sha256D(payload); Header.Deserialize rejects a command field without terminator")
	c.R.Rule("R-create", "every function of type func(p2p.Header, net.Conn) (p2p.Message, error) in the node returns a message only through CheckAndCreateMessage (or another such function); every MaxLength() constant is at most MaxMessagePayload; WriteMessage refuses payloads above MaxMessagePayload before writing; GetCMD is the command field with only trailing NULs removed")
	const pp = "p2p/peer"
	cm := c.fn(pp, "", "CheckAndCreateMessage")
	for _, name := range []string{"CheckAndCreateMessage", "CheckAndCreateTxMessage"} {
		cm := c.fn(pp, "", name)
		if cm == nil {
			continue
		}
		// allocation bound (the read-and-verify step may live in a helper that receives the header and the limit)
		n := 0
		sinks := c.sizeSinks()
		host, via := c.relocateVia(cm, func(g *ssa.Function) bool {
			for _, s := range sinks {
				if s.fn == g {
					return true
				}
			}
			return false
		})
		for _, s := range sinks {
			if s.fn != host {
				continue
			}
			n++
			s := s
			withVia(via, func() {
				ok, why := c.boundedBy(s)
				// the bound must be the message's own MaxLength()
				okBound := false
				for _, i := range ssau.Ifs(host) {
					if b, isB := i.Cond.(*ssa.BinOp); isB {
						if (methodCallNamed(ssau.Unwrap(b.Y), "MaxLength") && sameRoot(stripConv(b.X, true), s.root)) || (methodCallNamed(ssau.Unwrap(b.X), "MaxLength") && sameRoot(stripConv(b.Y, true), s.root)) {
							okBound = true
						}
					}
				}
				c.R.Check("G-frame", name+"|payload buffer bounded by MaxLength()", ok && okBound, c.posOf(s.in), why)
			})
		}
		c.R.Check("G-frame", name+"|allocation found", n == 1, c.pos(cm.Pos()), fmt.Sprintf("%d header-sized allocation(s)", n))
		des := firstCall(cm, namedCall("Deserialize"))
		c.G2("G-frame", name+"|checksum verified before decoding", cm, des, "hdr.Verify(payload) == nil", isErrNilOf(callPred(R{"p2p", "Header", "Verify"})))
		c.G2("G-frame", name+"|payload fully read before decoding", cm, des, "io.ReadFull == nil", isErrNilOf(func(cmn *ssa.CallCommon) bool {
			f := cmn.StaticCallee()
			return f != nil && f.String() == "io.ReadFull"
		}))
		c.G1s("G-frame", name+"|Deserialize checked", cm, "message.Deserialize", namedCall("Deserialize"), G1Opt{})
		// Verify is applied to the buffer that was read and that is decoded
		for _, v := range ssau.CallsIn(host, callPred(R{"p2p", "Header", "Verify"})) {
			arg := v.Common().Args[1]
			_, isMake := ssau.Unwrap(arg).(*ssa.MakeSlice)
			c.R.Check("G-frame", name+"|Verify(payload)", isMake, c.posOf(v), "the verified bytes are the allocated payload buffer")
		}
	}
	rm := c.fn("p2p", "", "ReadMessage")
	if rm != nil {
		var disp ssa.Instruction
		for _, b := range rm.Blocks {
			for _, in := range b.Instrs {
				if call, ok := in.(*ssa.Call); ok && paramNamed(call.Call.Value, "createMessage") {
					disp = call
				}
			}
		}
		c.G2("G-frame", "ReadMessage|header decoded before dispatch", rm, disp, "hdr.Deserialize == nil", isErrNilOf(callPred(R{"p2p", "Header", "Deserialize"})))
		c.G2("G-frame", "ReadMessage|magic checked before dispatch", rm, disp, "hdr.Magic != magic rejects", condCmp(fieldIs("Header", "Magic"), func(v ssa.Value) bool { return paramNamed(v, "magic") }, token.EQL, true))
		c.G2("G-frame", "ReadMessage|header fully read", rm, disp, "io.ReadFull == nil", isErrNilOf(func(cmn *ssa.CallCommon) bool {
			f := cmn.StaticCallee()
			return f != nil && f.String() == "io.ReadFull"
		}))
	}
	if hv := c.fn("p2p", "Header", "Verify"); hv != nil {
		c.GuardSuccess("G-frame", "Header.Verify|checksum equality", hv, "bytes.Equal(header.Checksum, Sha256D(buf)[:4])", func(i *ssa.If) (bool, bool) {
			x, neg := ssau.StripNot(i.Cond)
			var a, b ssa.Value
			if cl, ok := x.(*ssa.Call); ok && cl.Call.StaticCallee() != nil && cl.Call.StaticCallee().String() == "bytes.Equal" {
				a, b = cl.Call.Args[0], cl.Call.Args[1]
			} else if bo, ok := x.(*ssa.BinOp); ok && (bo.Op == token.EQL || bo.Op == token.NEQ) {
				// fixed-size checksums compared as arrays
				if _, isArr := bo.X.Type().Underlying().(*types.Array); !isArr {
					return false, false
				}
				a, b = bo.X, bo.Y
				if bo.Op == token.NEQ {
					neg = !neg
				}
			} else {
				return false, false
			}
			isSum := func(v ssa.Value) bool {
				return ssau.DependsOn(v, func(y ssa.Value) bool { return methodCallNamed(y, "Sha256D") }) && ssau.DependsOn(v, func(y ssa.Value) bool { return paramNamed(y, "buf") })
			}
			isStored := func(v ssa.Value) bool {
				return ssau.DependsOn(v, func(y ssa.Value) bool { fa, ok := y.(*ssa.FieldAddr); return ok && ownerField(fa) == "Header.Checksum" })
			}
			if (isSum(a) && isStored(b)) || (isSum(b) && isStored(a)) {
				return true, !neg
			}
			return false, false
		}, G1Opt{})
	}
	if hd := c.fn("p2p", "Header", "Deserialize"); hd != nil {
		rd := firstCall(hd, func(cmn *ssa.CallCommon) bool {
			f := cmn.StaticCallee()
			return f != nil && f.String() == "encoding/binary.Read"
		})
		c.G2("G-frame", "Header.Deserialize|command terminator required", hd, rd, "IndexByte(cmd, 0) < 0 rejects", condCmp(func(v ssa.Value) bool {
			return ssau.IsCallTo(ssau.Unwrap(v), func(cmn *ssa.CallCommon) bool {
				f := cmn.StaticCallee()
				return f != nil && f.String() == "bytes.IndexByte"
			})
		}, isConstInt(0), token.LSS, false))
	}
	if gc := c.fn("p2p", "Header", "GetCMD"); gc != nil {
		ok := false
		for _, call := range ssau.CallsIn(gc, func(cmn *ssa.CallCommon) bool {
			f := cmn.StaticCallee()
			return f != nil && (f.String() == "bytes.TrimRight" || f.String() == "bytes.TrimRightFunc")
		}) {
			if sl, isSl := call.Common().Args[0].(*ssa.Slice); isSl && sl.Low == nil && sl.High == nil {
				if fa, isFA := sl.X.(*ssa.FieldAddr); isFA && ownerField(fa) == "Header.CMD" {
					ok = true
				}
			}
		}
		noCut := len(ssau.CallsIn(gc, func(cmn *ssa.CallCommon) bool {
			f := cmn.StaticCallee()
			return f != nil && strings.HasPrefix(f.String(), "bytes.Index")
		})) == 0
		c.R.Check("R-create", "Header.GetCMD|whole field minus trailing NULs", ok && noCut, c.pos(gc.Pos()), "the dispatched command must depend on every byte of the 12-byte field (a byte after an inner NUL must change the command)")
	}
	// createMessage functions
	hdrT := c.P.NamedType("p2p", "Header")
	msgT := c.P.NamedType("p2p", "Message")
	nCreate := 0
	if hdrT != nil && msgT != nil && cm != nil {
		for f := range c.P.AllFuncs() {
			root := f
			for root.Parent() != nil {
				root = root.Parent()
			}
			if !nodeFunc(root) || len(f.Blocks) == 0 || f == cm {
				continue
			}
			sig := f.Signature
			if sig.Params().Len() != 2 || sig.Results().Len() != 2 {
				continue
			}
			if sig.Recv() != nil && f.Parent() == nil {
				// methods: params exclude receiver already
			}
			if !types.Identical(sig.Params().At(0).Type(), hdrT) || !types.Identical(sig.Results().At(0).Type(), msgT) {
				continue
			}
			nCreate++
			isCreator := func(cmn *ssa.CallCommon) bool {
				if cmn.StaticCallee() == cm {
					return true
				}
				s := cmn.Signature()
				return s.Params().Len() == 2 && s.Results().Len() == 2 && types.Identical(s.Params().At(0).Type(), hdrT) && types.Identical(s.Results().At(0).Type(), msgT)
			}
			if fname(f) == "p2p/peer.CheckAndCreateTxMessage" {
				continue // a frame reader itself, checked by G-frame
			}
			ec := &ssau.ExitClassifier{Fn: f, Idx: 1}
			if len(ec.SuccessExits(ssau.NewCut())) == 0 {
				c.R.Check("R-create", "createMessage|"+fname(f), true, c.pos(f.Pos()), "never returns a message")
				continue
			}
			c.G1s("R-create", "createMessage|"+fname(f), f, "CheckAndCreateMessage", isCreator, G1Opt{})
		}
	}
	c.R.FloorCheck("R-create createMessage functions", nCreate, 4)
	// MaxLength constants
	maxPayload, _ := c.constVal("p2p", "MaxMessagePayload")
	nMax := 0
	for f := range c.P.AllFuncs() {
		if f.Name() != "MaxLength" || f.Signature.Recv() == nil || len(f.Blocks) == 0 || !nodeFunc(f) {
			continue
		}
		nMax++
		for _, ret := range ssau.Returns(f) {
			if k, ok := constFold(ret.Results[0]); ok {
				c.R.Info("R-create", "MaxLength|"+fname(f), c.posOf(ret), fmt.Sprintf("declared maximum %d (writer limit %d)", k, maxPayload))
			} else {
				c.R.Info("R-create", "MaxLength|"+fname(f), c.posOf(ret), "non-constant maximum (computed from configuration limits)")
			}
		}
	}
	c.R.FloorCheck("R-create MaxLength implementations", nMax, 25)
	c.R.Rule("R-maxlen", "for every message type whose Serialize writes a statically determined number of bytes (fixed-width writes, optionally one loop over a list whose length the writer bounds by a constant), the constant MaxLength() is at least that number")
	c.maxLengthCoversWire("R-maxlen", 5)
	// WriteMessage
	if wm := c.fn("p2p", "", "WriteMessage"); wm != nil {
		for _, w := range ssau.CallsIn(wm, namedCall("Write")) {
			if !ssau.DependsOn(w.Common().Value, func(x ssa.Value) bool { return paramNamed(x, "w") }) && !paramNamed(w.Common().Value, "w") {
				continue
			}
			c.G2("R-create", "WriteMessage|size limit before writing", wm, w, "len(payload) > MaxMessagePayload rejects", condCmp(isLenOf(anyVal), isConstInt(maxPayload), token.GTR, false))
		}
	}
}
