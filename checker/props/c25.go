package props

import (
	"fmt"
	"go/constant"
	"go/token"
	"go/types"

	"elaverif/ssau"

	"golang.org/x/tools/go/ssa"
)

func init() {
	register(&Check{ID: "C25", Title: "A block confirmation needs a two-thirds quorum of distinct current arbiters", Run: runC25})
}

func fieldIs(t, f string) func(ssa.Value) bool {
	return func(v ssa.Value) bool { return ssau.IsFieldOf(ssau.Unwrap(v), t, f) }
}

func dependsOnFieldOf(t, f string) func(ssa.Value) bool {
	return func(v ssa.Value) bool {
		return ssau.DependsOn(v, func(x ssa.Value) bool { return ssau.IsFieldOf(x, t, f) })
	}
}

// membershipCheck verifies the shape of VoteContextCheck / ProposalContextCheck:
// success only through bytes.Equal(arbiter.NodePublicKey, <raw field>) == true,
// the comparison only for IsNormal arbiters of GetArbitrators().
func (c *Ctx) membershipCheck(rule, name, ownerType, field string) {
	f := c.fn("blockchain", "", name)
	if f == nil {
		return
	}
	isEq := func(cm *ssa.CallCommon) bool { g := cm.StaticCallee(); return g != nil && g.String() == "bytes.Equal" }
	c.GuardSuccess(rule, name+"|success only when a key matches", f, "bytes.Equal(arbiter key, "+field+")", func(i *ssa.If) (bool, bool) {
		x, neg := ssau.StripNot(i.Cond)
		if ssau.IsCallTo(x, isEq) {
			return true, !neg
		}
		return false, false
	}, G1Opt{})
	calls := callsVia(f, isEq) // the arbiter scan may live in a predicate helper of the package
	c.R.Check(rule, name+"|single comparison", len(calls) == 1, c.pos(f.Pos()), fmt.Sprintf("%d bytes.Equal call(s)", len(calls)))
	for _, vc := range calls {
		vc := vc
		call := vc.call
		host := call.Parent()
		vc.with(func() {
			a := call.Common().Args
			arb := func(v ssa.Value) bool {
				return ssau.DependsOn(v, func(x ssa.Value) bool { return ssau.IsFieldOf(x, "ArbiterInfo", "NodePublicKey") }) &&
					ssau.DependsOn(v, func(x ssa.Value) bool { return methodCallNamed(x, "GetArbitrators") })
			}
			raw := fieldIs(ownerType, field)
			ok := (arb(a[0]) && raw(a[1])) || (arb(a[1]) && raw(a[0]))
			c.R.Check(rule, name+"|compares the raw "+field, ok, c.posOf(call), fmt.Sprintf("the arbiter key from GetArbitrators() must be compared with the unmodified %s.%s bytes (the same bytes that are counted/verified), not a re-encoding", ownerType, field))
			c.G2(rule, name+"|only normal arbiters", host, call, "arbiter.IsNormal", func(i *ssa.If) (bool, bool) {
				x, neg := ssau.StripNot(i.Cond)
				if ssau.IsFieldOf(ssau.Unwrap(x), "ArbiterInfo", "IsNormal") {
					return true, !neg
				}
				return false, false
			})
		})
	}
}

func runC25(c *Ctx) {
	c.R.Rule("G-quorum", "ConfirmContextCheck: success only through the false arm of len(signers) <= GetArbitersMajorityCount(), signers being a map keyed by a function of vote.Signer and filled only for accepting votes; every completed iteration over confirm.Votes passed VoteContextCheck; ProposalContextCheck(&confirm.Proposal) passed")
	c.R.Rule("G-member", "VoteContextCheck / ProposalContextCheck succeed only when bytes.Equal(normal arbiter key, raw Signer/Sponsor) holds for an arbiter of GetArbitrators()")
	c.R.Rule("G-sanity", "ConfirmSanityCheck: per vote, the iteration completes only with Accept, ProposalHash equal to confirm.Proposal.Hash() and VoteSanityCheck passed; ProposalSanityCheck passed; VoteSanityCheck/ProposalSanityCheck verify the signature over Data() with the key decoded from Signer/Sponsor")
	c.R.Rule("A-threshold", "GetArbitersMajorityCount returns int(float64(n) * Numerator / Denominator) with the constants 2 and 3 and n the current arbiter count; with the strict comparison this is > 2n/3 rounded down")
	c.R.Rule("G-pipeline", "connectBlock reaches SaveBlock only after checkBlockWithConfirmation passed or through one of the four recognised no-confirmation conditions; checkBlockWithConfirmation succeeds only if block.Hash() equals the confirmed BlockHash and ConfirmContextCheck passed; BlockPool.appendConfirm runs ConfirmSanityCheck before storing the confirm")

	cc := c.fn("blockchain", "", "ConfirmContextCheck")
	if cc != nil {
		mapsOf := func(f *ssa.Function) []*ssa.MakeMap {
			var out []*ssa.MakeMap
			for _, b := range f.Blocks {
				for _, in := range b.Instrs {
					if m, ok := in.(*ssa.MakeMap); ok {
						out = append(out, m)
					}
				}
			}
			return out
		}
		// the counting may live in a helper of the package that returns the size of the set
		setFn, setVia := c.relocateVia(cc, func(g *ssa.Function) bool { return len(mapsOf(g)) == 1 })
		sets := mapsOf(setFn)
		if len(sets) != 1 {
			c.R.Check("G-quorum", "ConfirmContextCheck|signer set", false, c.pos(cc.Pos()), fmt.Sprintf("%d maps", len(sets)))
		} else {
			set := sets[0]
			isSet := func(v ssa.Value) bool { return v == ssa.Value(set) }
			c.GuardSuccess("G-quorum", "ConfirmContextCheck|len(signers) > majority", cc, "len(signers) <= GetArbitersMajorityCount()",
				condCmp(viaHelperResult(isLenOf(isSet)), func(v ssa.Value) bool { return methodCallNamed(ssau.Unwrap(v), "GetArbitersMajorityCount") }, token.LEQ, false), G1Opt{})
			n := 0
			for _, b := range setFn.Blocks {
				for _, in := range b.Instrs {
					up, ok := in.(*ssa.MapUpdate)
					if !ok || !isSet(up.Map) {
						continue
					}
					n++
					okKey := dependsOnFieldOf("DPOSProposalVote", "Signer")(up.Key) && !dependsOnFieldOf("DPOSProposalVote", "Sign")(up.Key)
					c.R.Check("G-quorum", "ConfirmContextCheck|distinctness key = f(vote.Signer)", okKey, c.posOf(up), "signers must be keyed by a function of vote.Signer only")
					c.G2("G-quorum", "ConfirmContextCheck|only accepting votes counted", setFn, up, "vote.Accept", func(i *ssa.If) (bool, bool) {
						x, neg := ssau.StripNot(i.Cond)
						if ssau.IsFieldOf(ssau.Unwrap(x), "DPOSProposalVote", "Accept") {
							return true, !neg
						}
						return false, false
					})
					hs := loopHeaders(up.Block())
					okVotes := false
					withVia(setVia, func() { okVotes = len(hs) == 1 && loopRangesOver(hs[0], fieldIs("Confirm", "Votes")) })
					c.R.Check("G-quorum", "ConfirmContextCheck|counting loop over confirm.Votes", okVotes, c.posOf(up), "the counting loop ranges over confirm.Votes")
				}
			}
			c.R.Check("G-quorum", "ConfirmContextCheck|single insertion site", n == 1, c.pos(cc.Pos()), fmt.Sprintf("%d insertion sites", n))
		}
		vcc := callPred(R{"blockchain", "", "VoteContextCheck"})
		c.iterMustPass("G-quorum", "ConfirmContextCheck|VoteContextCheck per vote", cc, "VoteContextCheck", vcc, true)
		for _, call := range ssau.CallsIn(cc, vcc) {
			hs := loopHeaders(call.Block())
			okDom := len(hs) == 1 && loopRangesOver(hs[0], fieldIs("Confirm", "Votes"))
			c.R.Check("G-quorum", "ConfirmContextCheck|membership loop over confirm.Votes", okDom, c.posOf(call), "the membership loop ranges over confirm.Votes")
			if okDom {
				bad := c.earlyLoopExits(cc, hs[0])
				c.R.Check("G-quorum", "ConfirmContextCheck|membership loop runs to exhaustion", len(bad) == 0, c.posOf(call), fmt.Sprintf("every vote that was counted is checked for membership: the loop is left only when exhausted or with an error (early exits: %v)", bad))
			}
		}
		pcc := callPred(R{"blockchain", "", "ProposalContextCheck"})
		c.G1s("G-quorum", "ConfirmContextCheck|ProposalContextCheck", cc, "ProposalContextCheck", pcc, G1Opt{})
		for _, call := range ssau.CallsIn(cc, pcc) {
			fa, ok := call.Common().Args[0].(*ssa.FieldAddr)
			c.R.Check("G-quorum", "ConfirmContextCheck|proposal arg", ok && paramNamed(fa.X, "confirm"), c.posOf(call), "ProposalContextCheck(&confirm.Proposal)")
		}
	}
	c.membershipCheck("G-member", "VoteContextCheck", "DPOSProposalVote", "Signer")
	c.membershipCheck("G-member", "ProposalContextCheck", "DPOSProposal", "Sponsor")

	// sanity
	cs := c.fn("blockchain", "", "ConfirmSanityCheck")
	if cs != nil {
		c.G1s("G-sanity", "ConfirmSanityCheck|ProposalSanityCheck", cs, "ProposalSanityCheck", callPred(R{"blockchain", "", "ProposalSanityCheck"}), G1Opt{})
		c.iterMustPass("G-sanity", "ConfirmSanityCheck|VoteSanityCheck per vote", cs, "VoteSanityCheck", callPred(R{"blockchain", "", "VoteSanityCheck"}), true)
		for _, vc := range callsVia(cs, callPred(R{"blockchain", "", "VoteSanityCheck"})) {
			vc := vc
			vc.with(func() {
				hs := loopHeaders(vc.call.Block())
				loopFn := vc.call.Parent()
				if len(hs) == 0 && vc.via != nil {
					// a per-vote helper: the loop is the one around its call
					hs = loopHeaders(vc.via.Block())
					loopFn = cs
				}
				okDom := len(hs) >= 1 && loopRangesOver(hs[0], fieldIs("Confirm", "Votes"))
				c.R.Check("G-sanity", "ConfirmSanityCheck|signature loop over confirm.Votes", okDom, c.posOf(vc.call), "the loop that verifies the vote signatures ranges over confirm.Votes itself (every vote, each through its own element)")
				if okDom {
					bad := c.earlyLoopExits(loopFn, hs[0])
					c.R.Check("G-sanity", "ConfirmSanityCheck|signature loop runs to exhaustion", len(bad) == 0, c.posOf(vc.call), fmt.Sprintf("the loop is left only when every vote was verified or with an error (early exits: %v)", bad))
				}
			})
		}
		c.iterGuard("G-sanity", "ConfirmSanityCheck|reject votes rejected", cs, "vote.Accept", func(i *ssa.If) (bool, bool) {
			x, neg := ssau.StripNot(i.Cond)
			if ssau.IsFieldOf(ssau.Unwrap(x), "DPOSProposalVote", "Accept") {
				return true, !neg
			}
			return false, false
		}, 0)
		c.iterGuard("G-sanity", "ConfirmSanityCheck|vote is for the confirmed proposal", cs, "confirm.Proposal.Hash().IsEqual(vote.ProposalHash)", func(i *ssa.If) (bool, bool) {
			x, neg := ssau.StripNot(i.Cond)
			call, ok := x.(*ssa.Call)
			if !ok || !methodCallNamed(x, "IsEqual") || len(call.Call.Args) != 2 {
				return false, false
			}
			isPH := func(v ssa.Value) bool {
				return ssau.DependsOn(v, func(y ssa.Value) bool { return methodCallNamed(y, "Hash") })
			}
			isVH := dependsOnFieldOf("DPOSProposalVote", "ProposalHash")
			a, b := call.Call.Args[0], call.Call.Args[1]
			if (isPH(a) && isVH(b) && !isVH(a)) || (isPH(b) && isVH(a) && !isVH(b)) {
				return true, !neg
			}
			return false, false
		}, 0)
		// the hash is that of confirm.Proposal
		okh := false
		for _, call := range ssau.CallsIn(cs, namedCall("Hash")) {
			if fa, ok := call.Common().Args[0].(*ssa.FieldAddr); ok && paramNamed(fa.X, "confirm") {
				okh = true
			}
		}
		c.R.Check("G-sanity", "ConfirmSanityCheck|hash of confirm.Proposal", okh, c.pos(cs.Pos()), "the reference hash is confirm.Proposal.Hash()")
	}
	for _, sp := range [][3]string{{"VoteSanityCheck", "DPOSProposalVote", "Signer"}, {"ProposalSanityCheck", "DPOSProposal", "Sponsor"}} {
		f := c.fn("blockchain", "", sp[0])
		if f == nil {
			continue
		}
		ver := callPred(R{"crypto", "", "Verify"})
		c.G1s("G-sanity", sp[0]+"|crypto.Verify", f, "crypto.Verify", ver, G1Opt{})
		for _, call := range ssau.CallsIn(f, ver) {
			a := call.Common().Args
			ok := ssau.DependsOn(a[0], func(x ssa.Value) bool { return methodCallNamed(x, "DecodePoint") }) && dependsOnFieldOf(sp[1], sp[2])(a[0]) &&
				methodCallNamed(ssau.Unwrap(a[1]), "Data") && fieldIs(sp[1], "Sign")(a[2])
			c.R.Check("G-sanity", sp[0]+"|Verify args", ok, c.posOf(call), "Verify(DecodePoint("+sp[2]+"), Data(), Sign)")
		}
	}

	// threshold
	c.majorityShape()

	// pipeline
	cb := c.fn("blockchain", "BlockChain", "connectBlock")
	if cb != nil {
		save := firstCall(cb, namedCall("SaveBlock"))
		cbc := callPred(R{"blockchain", "", "checkBlockWithConfirmation"})
		calls := ssau.CallsIn(cb, cbc)
		if save == nil || len(calls) == 0 {
			c.R.Check("G-pipeline", "connectBlock|confirmation before SaveBlock", false, c.pos(cb.Pos()), "SaveBlock or checkBlockWithConfirmation call missing")
		} else {
			cut, _ := ssau.CheckedCut(cb, calls, true)
			nSkip := 0
			for _, i := range ssau.Ifs(cb) {
				base, neg := ssau.StripNot(i.Cond)
				skipArm, isSkip := false, false
				if b, ok := base.(*ssa.BinOp); ok {
					switch {
					case b.Op == token.GEQ && fieldIs("Header", "Height")(b.X) && fieldIs("Configuration", "CRCOnlyDPOSHeight")(b.Y):
						isSkip, skipArm = true, false
					case b.Op == token.NEQ && fieldIs("", "ConsensusAlgorithm")(b.X):
						if _, isC := b.Y.(*ssa.Const); isC {
							isSkip, skipArm = true, false
						}
					}
				}
				if x, trueIsNil, ok := ssau.NilTest(i.Cond); ok && paramNamed(x, "confirm") {
					cut.AddEdge(i.Block(), ssau.Arm(i, trueIsNil))
					nSkip++
					continue
				}
				if ph, ok := base.(*ssa.Phi); ok && ph.Comment == "revertToPOW" {
					isSkip, skipArm = true, true
				}
				if isSkip {
					nSkip++
					cut.AddEdge(i.Block(), ssau.Arm(i, skipArm != neg))
				}
			}
			r := ssau.ReachFromEntry(cb, cut)
			ok := !r.Instr(save)
			det := fmt.Sprintf("%d recognised no-confirmation conditions", nSkip)
			if !ok {
				det += "; SaveBlock reachable without a passed confirmation check via " + ssau.DescribePath(cb, r.Path(save.Block()), c.pos)
			}
			c.R.Check("G-pipeline", "connectBlock|confirmation before SaveBlock", ok, c.posOf(save), det)
			for _, call := range calls {
				a := call.Common().Args
				c.R.Check("G-pipeline", "connectBlock|confirmation args", paramNamed(a[0], "block") && paramNamed(a[1], "confirm"), c.posOf(call), "checkBlockWithConfirmation(block, confirm, ...)")
			}
		}
	}
	cw := c.fn("blockchain", "", "checkBlockWithConfirmation")
	if cw != nil {
		c.G1s("G-pipeline", "checkBlockWithConfirmation|ConfirmContextCheck", cw, "ConfirmContextCheck", callPred(R{"blockchain", "", "ConfirmContextCheck"}), G1Opt{})
		c.GuardSuccess("G-pipeline", "checkBlockWithConfirmation|block hash binding", cw, "block.Hash() != confirm.Proposal.BlockHash", func(i *ssa.If) (bool, bool) {
			return condCmp(func(v ssa.Value) bool { return methodCallNamed(ssau.Unwrap(v), "Hash") }, dependsOnFieldOf("DPOSProposal", "BlockHash"), token.EQL, true)(i)
		}, G1Opt{})
	}
	if ac := c.fn("mempool", "BlockPool", "appendConfirm"); ac != nil {
		c.G1s("G-pipeline", "BlockPool.appendConfirm|ConfirmSanityCheck", ac, "ConfirmSanityCheck", callPred(R{"blockchain", "", "ConfirmSanityCheck"}), G1Opt{IgnoreExit: func(ret *ssa.Return) bool {
			// results are (inMainChain bool, isOrphan bool, err error): judge the error only
			return false
		}})
	}
}

// majorityShape checks the expression returned by GetArbitersMajorityCount.
func (c *Ctx) majorityShape() {
	f := c.fn("dpos/state", "Arbiters", "GetArbitersMajorityCount")
	if f == nil {
		return
	}
	num, _ := c.P.Object("dpos/state", "MajoritySignRatioNumerator").(*types.Const)
	den, _ := c.P.Object("dpos/state", "MajoritySignRatioDenominator").(*types.Const)
	okConst := num != nil && den != nil && constant.Compare(num.Val(), token.EQL, constant.MakeInt64(2)) && constant.Compare(den.Val(), token.EQL, constant.MakeInt64(3))
	c.R.Check("A-threshold", "constants|2/3", okConst, "", "MajoritySignRatioNumerator == 2 and MajoritySignRatioDenominator == 3")
	isF := func(v ssa.Value, want int64) bool {
		k, ok := v.(*ssa.Const)
		return ok && k.Value != nil && constant.Compare(constant.ToFloat(k.Value), token.EQL, constant.MakeInt64(want))
	}
	ok := false
	detail := "return value is not int(float64(n) * 2 / 3)"
	for _, ret := range ssau.Returns(f) {
		cv, isC := ret.Results[0].(*ssa.Convert)
		if !isC {
			continue
		}
		q, isQ := cv.X.(*ssa.BinOp)
		if !isQ || q.Op != token.QUO || !isF(q.Y, 3) {
			continue
		}
		m, isM := q.X.(*ssa.BinOp)
		if !isM || m.Op != token.MUL || !isF(m.Y, 2) {
			continue
		}
		cn, isCn := m.X.(*ssa.Convert)
		if !isCn {
			continue
		}
		// n: len(CurrentArbitrators) or the configured fallback
		if ssau.DependsOn(cn.X, func(x ssa.Value) bool { return ssau.IsFieldOf(x, "", "CurrentArbitrators") }) {
			ok = true
			detail = "int(float64(len(CurrentArbitrators) | configured count) * 2 / 3)"
		}
	}
	c.R.Check("A-threshold", "GetArbitersMajorityCount|shape", ok, c.pos(f.Pos()), detail)
}
