package props

import (
	"strings"

	"elaverif/ssau"

	"golang.org/x/tools/go/ssa"
)

func callsNamed(f *ssa.Function, name string) []ssa.CallInstruction {
	return ssau.CallsIn(f, namedCall(name))
}

func init() {
	register(&Check{ID: "C23", Title: "Saved state checkpoints are lossless", Run: runC23})
}

var ckptPkgs = []string{"dpos/state", "cr/state", "mempool", "wallet", "blockchain/indexers"}

func runC23(c *Ctx) {
	c.R.Rule("S-coverage", "every field of every checkpoint struct with a Serialize/Deserialize pair (dpos/state, cr/state, mempool, wallet, indexers) is referenced by both sides (following same-package helpers), or is tabled as not persisted with its reason; fields encoded under a version condition are decoded under the same condition")
	c.R.Rule("S-fill", "decode helpers returning a map store the entries they read (an insertion inside the read loop); a slice allocated with a non-zero length in a decode function is not filled by append")
	c.R.Rule("S-copy", "the capture functions (CheckPoint.initFromArbitrators, Checkpoint.initFromCommittee) assign, and the restore functions (Arbiters.recoverFromCheckPoints, Committee.Recover) read, every persisted field of the checkpoint struct")
	exempt := map[string]string{
		"dpos/state.CheckPoint.arbitrators":            "back pointer to the live arbiters, set by the constructor",
		"cr/state.Checkpoint.committee":                "back pointer to the live committee, set by the constructor",
		"mempool.txPoolCheckpoint.txPool":              "back pointer",
		"mempool.txPoolCheckpoint.initConflictManager": "function hook installed by the constructor",
		"mempool.txFeeOrderedList.maxSize":             "configuration, set by the constructor",
		"mempool.txFeeOrderedList.onPopBack":           "function hook installed by the constructor",
		"blockchain/indexers.TxCache.params":           "configuration pointer",
		"blockchain/indexers.TxCache.RWMutex":          "lock",
		"dpos/state.Producer.info":                     "",
	}
	delete(exempt, "dpos/state.Producer.info")
	c.sCoverage("S-coverage", ckptPkgs, exempt, 15, true)
	c.R.Rule("K-snapshot", "the object the checkpoint manager hands to the asynchronous file writer (fileChannels.Save) is the value returned by the point's Snapshot() (a copy taken at that height), never the live checkpoint, which keeps changing while the file is written")
	nSave := 0
	for f := range c.P.AllFuncs() {
		if !nodeFunc(f) || f.Pkg == nil || !strings.HasSuffix(f.Pkg.Pkg.Path(), "core/checkpoint") {
			continue
		}
		for _, call := range ssau.CallsIn(f, func(cm *ssa.CallCommon) bool {
			o := ssau.CalleeObj(cm)
			return o != nil && o.Name() == "Save" && ssau.RecvName(o) == "fileChannels"
		}) {
			nSave++
			a := call.Common().Args
			arg := ssau.Unwrap(a[1])
			if ci, ok := arg.(*ssa.ChangeInterface); ok {
				arg = ssau.Unwrap(ci.X)
			}
			c.R.Check("K-snapshot", "Save argument|"+fname(f), methodCallNamed(arg, "Snapshot"), c.posOf(call), "fileChannels.Save must receive the result of Snapshot(), not the live checkpoint")
		}
	}
	c.R.FloorCheck("K-snapshot Save call sites", nSave, 1)
	c.R.Rule("S-order", "for every checkpoint struct the encoder and the decoder first touch any two equally typed fields in the same relative order in the source (calls of same-package helpers expanded in place): equally typed fields are not read in swapped wire positions")
	c.sOrder("S-order", ckptPkgs, map[string]string{})
	c.sFill("S-fill", ckptPkgs, 8)
	c.sAppend("S-fill", ckptPkgs)

	cpT := c.P.NamedType("dpos/state", "CheckPoint")
	c.R.Anchor("type dpos/state.CheckPoint", cpT != nil)
	ex := map[string]string{
		"CheckPoint.Height":                      "set by the checkpoint manager through SetHeight",
		"CheckPoint.arbitrators":                 "back pointer",
		"CheckPoint.CurrentOnDutyCRCArbitersMap": "serialized for format compatibility only: the live Arbiters type has no such field, so nothing is captured or restored",
	}
	c.sCopy("S-copy", c.fn("dpos/state", "CheckPoint", "initFromArbitrators"), cpT, true, ex)
	c.sCopy("S-copy", c.fn("dpos/state", "Arbiters", "recoverFromCheckPoints"), cpT, false, ex)
	ccT := c.P.NamedType("cr/state", "Checkpoint")
	c.R.Anchor("type cr/state.Checkpoint", ccT != nil)
	exc := map[string]string{
		"Checkpoint.Height":    "set by the checkpoint manager through SetHeight",
		"Checkpoint.committee": "back pointer",
	}
	c.sCopy("S-copy", c.fn("cr/state", "Checkpoint", "initFromCommittee"), ccT, true, exc)
	c.sCopy("S-copy", c.fn("cr/state", "Committee", "Recover"), ccT, false, exc)
	// the captured StateKeyFrame is the whole live struct, not the partial in-memory snapshot()
	if f := c.fn("dpos/state", "CheckPoint", "initFromArbitrators"); f != nil {
		bad := len(callsNamed(f, "snapshot")) > 0
		c.R.Check("S-copy", "initFromArbitrators|whole StateKeyFrame", !bad, c.pos(f.Pos()), "the checkpoint must copy *ar.State.StateKeyFrame (the partial StateKeyFrame.snapshot() omits the scalar fields)")
	}
	// Snapshot() = capture + serialize + deserialize
	for _, t := range [][2]string{{"dpos/state", "CheckPoint"}, {"cr/state", "Checkpoint"}} {
		if f := c.fn(t[0], t[1], "Snapshot"); f != nil {
			ok := len(callsNamed(f, "Serialize")) > 0 && len(callsNamed(f, "Deserialize")) > 0 && (len(callsNamed(f, "initFromArbitrators"))+len(callsNamed(f, "initFromCommittee")) > 0)
			c.R.Check("S-copy", t[1]+".Snapshot|capture then codec round trip", ok, c.pos(f.Pos()), "Snapshot = initFrom...(live state); Serialize; Deserialize into a fresh checkpoint")
		}
	}
}
