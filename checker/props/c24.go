package props

import (
	"fmt"
	"go/types"
	"strings"

	"elaverif/core"
	"elaverif/ssau"

	"golang.org/x/tools/go/ssa"
)

func init() {
	register(&Check{ID: "C24", Title: "Consensus decisions do not depend on scheduling or process-local randomness", Run: runC24})
	register(&Check{ID: "C38", Title: "Secret key material comes from a secure random source", Run: runC38})
}

// mathRandUses lists uses of math/rand package-level functions (the process-global source) and time-seeded sources per package.
type randUse struct {
	fn   *ssa.Function
	in   ssa.Instruction
	what string
}

func (c *Ctx) mathRandUses(pkgFilter func(rel string) bool) []randUse {
	var out []randUse
	for f := range c.P.AllFuncs() {
		root := f
		for root.Parent() != nil {
			root = root.Parent()
		}
		if !nodeFunc(root) || !pkgFilter(core.RelPath(root.Pkg.Pkg.Path())) {
			continue
		}
		for _, b := range f.Blocks {
			for _, in := range b.Instrs {
				ci, ok := in.(ssa.CallInstruction)
				if !ok {
					continue
				}
				g := ci.Common().StaticCallee()
				if g == nil || g.Pkg == nil || g.Pkg.Pkg.Path() != "math/rand" {
					continue
				}
				if g.Signature.Recv() != nil {
					continue // method on a private *rand.Rand / Source
				}
				switch g.Name() {
				case "init":
					continue // package initialiser dependency
				case "New":
					continue
				case "NewSource":
					// seeded from the clock?
					if ssau.DependsOn(ci.Common().Args[0], func(x ssa.Value) bool {
						cl, ok := x.(*ssa.Call)
						return ok && cl.Call.StaticCallee() != nil && cl.Call.StaticCallee().String() == "time.Now"
					}) {
						out = append(out, randUse{root, in, "rand.NewSource(time.Now...)"})
					}
					continue
				}
				out = append(out, randUse{root, in, "math/rand." + g.Name() + " (process-global source)"})
			}
		}
	}
	return out
}

// sameExpr: structural equality of two side-effect-free expression trees (accessor calls, loads, index expressions).
func sameExpr(a, b ssa.Value, depth int) bool {
	if a == b {
		return true
	}
	if depth > 8 {
		return false
	}
	switch x := a.(type) {
	case *ssa.Call:
		y, ok := b.(*ssa.Call)
		if !ok || len(x.Call.Args) != len(y.Call.Args) {
			return false
		}
		if x.Call.IsInvoke() != y.Call.IsInvoke() {
			return false
		}
		if x.Call.IsInvoke() {
			if x.Call.Method != y.Call.Method || !sameExpr(x.Call.Value, y.Call.Value, depth+1) {
				return false
			}
		} else if x.Call.StaticCallee() == nil || x.Call.StaticCallee() != y.Call.StaticCallee() {
			return false
		}
		for i := range x.Call.Args {
			if !sameExpr(x.Call.Args[i], y.Call.Args[i], depth+1) {
				return false
			}
		}
		return true
	case *ssa.UnOp:
		y, ok := b.(*ssa.UnOp)
		return ok && x.Op == y.Op && sameExpr(x.X, y.X, depth+1)
	case *ssa.IndexAddr:
		y, ok := b.(*ssa.IndexAddr)
		return ok && sameExpr(x.X, y.X, depth+1) && sameExpr(x.Index, y.Index, depth+1)
	case *ssa.FieldAddr:
		y, ok := b.(*ssa.FieldAddr)
		return ok && x.Field == y.Field && sameExpr(x.X, y.X, depth+1)
	case *ssa.Field:
		y, ok := b.(*ssa.Field)
		return ok && x.Field == y.Field && sameExpr(x.X, y.X, depth+1)
	case *ssa.Slice:
		y, ok := b.(*ssa.Slice)
		return ok && sameExpr(x.X, y.X, depth+1) && x.Low == y.Low && x.High == y.High
	case *ssa.Convert:
		y, ok := b.(*ssa.Convert)
		return ok && sameExpr(x.X, y.X, depth+1)
	case *ssa.MakeInterface:
		y, ok := b.(*ssa.MakeInterface)
		return ok && sameExpr(x.X, y.X, depth+1)
	case *ssa.Const:
		y, ok := b.(*ssa.Const)
		return ok && x.Value == y.Value && types.Identical(x.Type(), y.Type())
	case *ssa.Lookup:
		y, ok := b.(*ssa.Lookup)
		return ok && sameExpr(x.X, y.X, depth+1) && sameExpr(x.Index, y.Index, depth+1)
	}
	return false
}

// selfComparisons: comparison calls/operators whose two operands are the same expression, inside sort comparators.
func (c *Ctx) selfComparisons(rule string, rels []string) {
	n := 0
	for f := range c.P.AllFuncs() {
		root := f
		for root.Parent() != nil {
			root = root.Parent()
		}
		if !nodeFunc(root) || f.Parent() == nil {
			continue
		}
		rel := core.RelPath(root.Pkg.Pkg.Path())
		okPkg := false
		for _, r := range rels {
			if r == rel {
				okPkg = true
			}
		}
		// comparator literal: func(i, j int) bool
		sig := f.Signature
		if !okPkg || sig.Params().Len() != 2 || sig.Results().Len() != 1 || !strings.HasSuffix(sig.Results().At(0).Type().String(), "bool") {
			continue
		}
		n++
		bad := ""
		for _, b := range f.Blocks {
			for _, in := range b.Instrs {
				switch x := in.(type) {
				case *ssa.BinOp:
					switch x.Op.String() {
					case "<", ">", "<=", ">=", "==", "!=":
						if _, isC := x.X.(*ssa.Const); !isC && sameExpr(x.X, x.Y, 0) {
							bad = c.posOf(x)
						}
					}
				case *ssa.Call:
					g := x.Call.StaticCallee()
					if g != nil && (g.String() == "bytes.Compare" || g.String() == "strings.Compare" || g.String() == "bytes.Equal") && len(x.Call.Args) == 2 && sameExpr(x.Call.Args[0], x.Call.Args[1], 0) {
						bad = c.posOf(x)
					}
				}
			}
		}
		c.R.Check(rule, "comparator|"+fname(f), bad == "", c.pos(f.Pos()), "a sort comparator compares an element with itself at "+bad+" (ties then keep map-iteration order)")
	}
	c.R.FloorCheck(rule+" sort comparators", n, 10)
}

func runC24(c *Ctx) {
	c.R.Rule("F-rand", "the consensus packages (dpos/state, cr/state, blockchain, core/..., dpos/manager, pow) never call a package-level math/rand function (they share the process-global source) nor seed a source from the clock; only methods of a private *rand.Rand are used, and its seed derives from block data")
	c.R.Rule("A-tiebreak", "no sort comparator in dpos/state or cr/state compares an element with itself (a tie-break on i and i leaves equal-vote producers in map-iteration order)")
	c.R.Rule("K-global", "other users of the process-global math/rand source in the node are recorded: they are the interleaving partners that make an F-rand violation observable")
	consensus := func(rel string) bool {
		for _, p := range []string{"dpos/state", "cr/state", "blockchain", "core", "dpos/manager", "pow"} {
			if rel == p || strings.HasPrefix(rel, p+"/") {
				return true
			}
		}
		return false
	}
	tabled := map[string]string{
		"(*pow.Service).CreateCoinbaseTx":      "miner-local coinbase nonce of a block this node builds; validators never recompute it",
		"(*pow.Service).CreateRecordSponsorTx": "miner-local nonce of a transaction this node builds; validators never recompute it",
	}
	all := c.mathRandUses(consensus)
	var uses []randUse
	for _, u := range all {
		if why, ok := tabled[fname(u.fn)]; ok {
			c.R.Info("F-rand", "tabled|"+fname(u.fn)+"|"+u.what, c.posOf(u.in), why)
			continue
		}
		uses = append(uses, u)
	}
	for _, u := range uses {
		c.R.Check("F-rand", "global-rand|"+fname(u.fn)+"|"+u.what, false, c.posOf(u.in), fmt.Sprintf("%s uses %s", fname(u.fn), u.what))
	}
	if len(uses) == 0 {
		c.R.Check("F-rand", "global-rand|none", true, "", "no package-level math/rand call and no clock-seeded source in the consensus packages")
	}
	// positive control: the rule must see the known global users elsewhere
	others := c.mathRandUses(func(rel string) bool { return !consensus(rel) })
	c.R.FloorCheck("F-rand positive control (global math/rand users outside consensus)", len(others), 5)
	for _, u := range others {
		c.R.Info("K-global", "partner|"+fname(u.fn)+"|"+u.what, c.posOf(u.in), "uses the process-global source concurrently with consensus code")
	}
	// private generators in dpos/state are seeded from block data
	n := 0
	for f := range c.P.AllFuncs() {
		root := f
		for root.Parent() != nil {
			root = root.Parent()
		}
		if !nodeFunc(root) || core.RelPath(root.Pkg.Pkg.Path()) != "dpos/state" {
			continue
		}
		for _, b := range f.Blocks {
			for _, in := range b.Instrs {
				call, ok := in.(*ssa.Call)
				if !ok || call.Call.StaticCallee() == nil || call.Call.StaticCallee().String() != "math/rand.NewSource" {
					continue
				}
				fromHash := func(v ssa.Value) bool {
					return ssau.DependsOn(v, func(x ssa.Value) bool { return methodCallNamed(x, "Hash") || methodCallNamed(x, "HashWithAux") })
				}
				ok2 := fromHash(call.Call.Args[0])
				sites := 1
				if !ok2 {
					// the generator is built in a helper from one of its parameters: every caller must pass block data
					for pi, prm := range f.Params {
						if !ssau.DependsOn(call.Call.Args[0], func(x ssa.Value) bool { return x == ssa.Value(prm) }) {
							continue
						}
						callers := c.staticCallers(f)
						k, allOK := 0, true
						for _, ss := range callers {
							for _, s := range ss {
								k++
								if !fromHash(s.Common().Args[pi]) {
									allOK = false
								}
							}
						}
						if k > 0 && allOK {
							ok2 = true
							sites = k
						}
					}
				}
				n += sites
				c.R.Check("F-rand", "seed|"+fname(root), ok2, c.posOf(call), "the generator's seed must derive from a block hash")
			}
		}
	}
	c.R.FloorCheck("F-rand private generators in dpos/state", n, 2)
	c.selfComparisons("A-tiebreak", []string{"dpos/state", "cr/state"})
}

func runC38(c *Ctx) {
	c.R.Rule("F-rand-keys", "the key-material packages (account, crypto, crypto/...) never reference math/rand at all")
	c.R.Rule("T-reader", "every call of ecdsa.GenerateKey, ecdsa.Sign, ecies.GenerateKey/Encrypt and rand.Prime in the node passes crypto/rand.Reader as its entropy source")
	keyPkgs := func(rel string) bool { return rel == "account" || rel == "crypto" || strings.HasPrefix(rel, "crypto/") }
	n := 0
	for f := range c.P.AllFuncs() {
		root := f
		for root.Parent() != nil {
			root = root.Parent()
		}
		if !nodeFunc(root) || !keyPkgs(core.RelPath(root.Pkg.Pkg.Path())) {
			continue
		}
		for _, b := range f.Blocks {
			for _, in := range b.Instrs {
				ci, ok := in.(ssa.CallInstruction)
				if !ok {
					continue
				}
				g := ci.Common().StaticCallee()
				if g == nil || g.Pkg == nil {
					continue
				}
				if g.Pkg.Pkg.Path() == "math/rand" && g.Name() != "init" {
					n++
					name := g.Name()
					if g.Signature.Recv() != nil {
						name = "(*rand.Rand)." + name
					}
					c.R.Check("F-rand-keys", "math-rand|"+fname(root)+"|"+name, false, c.posOf(in), fmt.Sprintf("%s uses math/rand.%s in a key-material package", fname(root), name))
				}
			}
		}
	}
	if n == 0 {
		c.R.Check("F-rand-keys", "math-rand|none", true, "", "no math/rand reference in account, crypto, crypto/...")
	}
	// positive control: math/rand is visible to the rule elsewhere
	all := 0
	for f := range c.P.AllFuncs() {
		if !nodeFunc(f) {
			continue
		}
		for _, b := range f.Blocks {
			for _, in := range b.Instrs {
				if ci, ok := in.(ssa.CallInstruction); ok {
					if g := ci.Common().StaticCallee(); g != nil && g.Pkg != nil && g.Pkg.Pkg.Path() == "math/rand" {
						all++
					}
				}
			}
		}
	}
	c.R.FloorCheck("F-rand-keys positive control (math/rand calls in the node)", all, 10)
	// entropy arguments
	nr := 0
	for f := range c.P.AllFuncs() {
		root := f
		for root.Parent() != nil {
			root = root.Parent()
		}
		if !nodeFunc(root) {
			continue
		}
		for _, b := range f.Blocks {
			for _, in := range b.Instrs {
				call, ok := in.(*ssa.Call)
				if !ok || call.Call.StaticCallee() == nil {
					continue
				}
				name := call.Call.StaticCallee().String()
				idx := -1
				switch name {
				case "crypto/ecdsa.GenerateKey":
					idx = 1
				case "crypto/ecdsa.Sign", "crypto/rand.Prime":
					idx = 0
				case "github.com/elastos/Elastos.ELA/crypto/ecies.GenerateKey", "github.com/elastos/Elastos.ELA/crypto/ecies.Encrypt":
					idx = 0
				}
				if idx < 0 {
					continue
				}
				nr++
				arg := call.Call.Args[idx]
				isReader := ssau.DependsOn(arg, func(x ssa.Value) bool {
					g, ok := x.(*ssa.Global)
					return ok && g.Pkg != nil && g.Pkg.Pkg.Path() == "crypto/rand" && g.Name() == "Reader"
				})
				if p, ok := arg.(*ssa.Parameter); ok && strings.HasSuffix(p.Type().String(), "io.Reader") {
					// the entropy source is the caller's own io.Reader parameter: the outer call sites are checked
					c.R.Info("T-reader", "entropy-passthrough|"+fname(root)+"|"+short(name), c.posOf(call), "passes on its own io.Reader parameter")
					continue
				}
				c.R.Check("T-reader", "entropy|"+fname(root)+"|"+short(name), isReader, c.posOf(call), "the entropy source must be crypto/rand.Reader")
			}
		}
	}
	c.R.FloorCheck("T-reader call sites", nr, 4)

	// T-fill: buffers handed to the system random source are not empty and the error is looked at
	c.R.Rule("T-fill", "every crypto/rand.Read (and io.ReadFull(rand.Reader, ..)) call in the key-material packages fills a buffer of non-zero length (not a zero-length slice that is re-sliced afterwards)")
	nf := 0
	for f := range c.P.AllFuncs() {
		root := f
		for root.Parent() != nil {
			root = root.Parent()
		}
		if !nodeFunc(root) || !keyPkgs(core.RelPath(root.Pkg.Pkg.Path())) {
			continue
		}
		for _, b := range f.Blocks {
			for _, in := range b.Instrs {
				call, ok := in.(*ssa.Call)
				if !ok || call.Call.StaticCallee() == nil {
					continue
				}
				var buf ssa.Value
				switch call.Call.StaticCallee().String() {
				case "crypto/rand.Read":
					buf = call.Call.Args[0]
				case "io.ReadFull":
					if ssau.DependsOn(call.Call.Args[0], func(x ssa.Value) bool {
						g, ok := x.(*ssa.Global)
						return ok && g.Pkg != nil && g.Pkg.Pkg.Path() == "crypto/rand" && g.Name() == "Reader"
					}) {
						buf = call.Call.Args[1]
					}
				}
				if buf == nil {
					continue
				}
				nf++
				empty := ssau.DependsOn(buf, func(x ssa.Value) bool {
					mk, ok := x.(*ssa.MakeSlice)
					return ok && isConstInt(0)(mk.Len)
				})
				// error tested: the error result reaches a branch or a return
				errUsed := false
				if refs := call.Referrers(); refs != nil {
					for _, r := range *refs {
						if ex, ok := r.(*ssa.Extract); ok && ex.Index == 1 {
							if er := ex.Referrers(); er != nil && len(*er) > 0 {
								errUsed = true
							}
						}
					}
				}
				key := fmt.Sprintf("fill|%s|%s", fname(root), short(call.Call.StaticCallee().String()))
				det := "reads into a buffer of non-zero length and tests the error"
				if empty {
					det = "the buffer handed to the random source has length 0 (nothing is read; the bytes used afterwards are not random)"
				} else if !errUsed {
					det = "the error of the random read is ignored"
				}
				c.R.Check("T-fill", key, !empty, c.posOf(call), det)
				if !errUsed {
					c.R.Info("T-fill", key+"|error ignored", c.posOf(call), "the error result of the random read is not looked at (cannot be shown to fail here; not decided)")
				}
			}
		}
	}
	c.R.FloorCheck("T-fill random reads in key packages", nf, 2)
}
