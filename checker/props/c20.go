package props

import (
	"fmt"
	"go/token"

	"elaverif/ssau"

	"golang.org/x/tools/go/ssa"
)

func init() {
	register(&Check{ID: "C20", Title: "Height-indexed change history rolls back exactly", Run: runC20})
}

// loopDirection classifies the index used by instruction `at` (an IndexAddr into a slice) as ascending/descending.
func loopDirection(idx ssa.Value) string {
	idx = ssau.Unwrap(idx)
	// rangeindex lowering: idx = phi + 1
	if b, ok := idx.(*ssa.BinOp); ok && b.Op == token.ADD && isConstInt(1)(b.Y) {
		if ph, ok := b.X.(*ssa.Phi); ok {
			for _, e := range ph.Edges {
				if e == ssa.Value(b) {
					return "ascending"
				}
			}
		}
	}
	ph, ok := idx.(*ssa.Phi)
	if !ok {
		return "unknown"
	}
	for _, e := range ph.Edges {
		if b, ok := e.(*ssa.BinOp); ok && b.X == ssa.Value(ph) && isConstInt(1)(b.Y) {
			if b.Op == token.ADD {
				return "ascending"
			}
			if b.Op == token.SUB {
				return "descending"
			}
		}
	}
	return "unknown"
}

// fieldCallSites: dynamic calls of a func-typed struct field named fld (change.execute / change.rollback).
func fieldCallSites(fn *ssa.Function, fld string) []*ssa.Call {
	var out []*ssa.Call
	for _, b := range fn.Blocks {
		for _, in := range b.Instrs {
			call, ok := in.(*ssa.Call)
			if !ok || call.Call.IsInvoke() || call.Call.StaticCallee() != nil {
				continue
			}
			v := ssau.Unwrap(call.Call.Value)
			if ssau.IsFieldOf(v, "change", fld) {
				out = append(out, call)
				continue
			}
			if f, ok := v.(*ssa.Field); ok {
				_ = f
				if ssau.IsFieldOf(v, "change", fld) {
					out = append(out, call)
				}
			}
		}
	}
	return out
}

// indexOfElement finds the slice index feeding value v (the element whose field/method is used).
func indexOfElement(v ssa.Value) ssa.Value {
	var idx ssa.Value
	ssau.DependsOn(v, func(x ssa.Value) bool {
		if ia, ok := x.(*ssa.IndexAddr); ok && idx == nil {
			idx = ia.Index
			return true
		}
		return false
	})
	return idx
}

func runC20(c *Ctx) {
	c.R.Rule("A-order", "undo order mirrors do order: HeightChanges.commit walks its changes ascending and HeightChanges.rollback descending; History.RollbackTo and the rollback arm of SeekTo walk heights descending, Commit's replay and the commit arm of SeekTo ascending")
	c.R.Rule("G-order", "History.Commit replays seeked-back heights before evicting the oldest height; History.RollbackTo and History.Append undo pending temporary changes before touching per-height changes")
	const u = "utils"
	// HeightChanges
	if f := c.fn(u, "HeightChanges", "commit"); f != nil {
		calls := fieldCallSites(f, "execute")
		dir := "missing"
		if len(calls) == 1 {
			dir = loopDirection(indexOfElement(calls[0].Call.Value))
		}
		c.R.Check("A-order", "HeightChanges.commit|ascending", dir == "ascending", c.pos(f.Pos()), "changes of a height are executed in "+dir+" order")
	}
	if f := c.fn(u, "HeightChanges", "rollback"); f != nil {
		calls := fieldCallSites(f, "rollback")
		dir := "missing"
		if len(calls) == 1 {
			dir = loopDirection(indexOfElement(calls[0].Call.Value))
		}
		c.R.Check("A-order", "HeightChanges.rollback|descending", dir == "descending", c.pos(f.Pos()), "changes of a height are rolled back in "+dir+" order (must be the reverse of commit)")
	}
	hcCommit := callPred(R{u, "HeightChanges", "commit"})
	hcRollback := callPred(R{u, "HeightChanges", "rollback"})
	dirOf := func(ci ssa.CallInstruction) string {
		return loopDirection(indexOfElement(ci.Common().Args[0]))
	}
	if f := c.fn(u, "History", "RollbackTo"); f != nil {
		cs := ssau.CallsIn(f, hcRollback)
		ok := len(cs) == 1 && dirOf(cs[0]) == "descending"
		c.R.Check("A-order", "History.RollbackTo|heights descending", ok, c.pos(f.Pos()), fmt.Sprintf("%d per-height rollback call(s), descending: %v", len(cs), ok))
		// temp changes first
		tmp := tempRollbackSites(f)
		okOrder := len(tmp) == 1 && len(cs) == 1
		if okOrder {
			ra := ssau.ReachAfter(f, cs[0], nil)
			okOrder = !ra.Instr(tmp[0])
		}
		c.R.Check("G-order", "History.RollbackTo|temporary changes undone first", okOrder, c.pos(f.Pos()), "the rollback of pending temporary changes is not reachable after a per-height rollback")
		// height bookkeeping
		c.mustCallAllStores("G-order", "History.RollbackTo|height updated", f, "History", "height")
	}
	if f := c.fn(u, "History", "SeekTo"); f != nil {
		// the walking loops may live in helpers of History that SeekTo calls
		rs := callsVia(f, hcRollback)
		cs := callsVia(f, hcCommit)
		ok := len(rs) == 1 && len(cs) == 1 && dirOf(rs[0].call) == "descending" && dirOf(cs[0].call) == "ascending"
		c.R.Check("A-order", "History.SeekTo|rollback descending, commit ascending", ok, c.pos(f.Pos()), "seek back walks heights down, seek forward walks them up")
	}
	if f := c.fn(u, "History", "Commit"); f != nil {
		var replay, cached ssa.Instruction
		replayDir := "unknown"
		for _, vc := range callsVia(f, hcCommit) {
			if indexOfElement(vc.call.Common().Args[0]) != nil {
				replay = vc.anchor()
				replayDir = dirOf(vc.call)
			} else {
				cached = vc.anchor()
			}
		}
		ok := replay != nil && cached != nil && replayDir == "ascending"
		c.R.Check("A-order", "History.Commit|replay ascending", ok, c.pos(f.Pos()), "the replay of seeked-back heights walks them ascending; the cached changes are committed afterwards")
		// eviction = a store to h.changes of a re-slice of h.changes (in Commit, or in a helper of History it calls:
		// then the call stands for it)
		evictIn := func(g *ssa.Function) ssa.Instruction {
			for _, b := range g.Blocks {
				for _, in := range b.Instrs {
					if st, isS := in.(*ssa.Store); isS && ssau.IsFieldOf(st.Addr, "History", "changes") {
						if sl, isSl := st.Val.(*ssa.Slice); isSl && sl.Low != nil {
							return st
						}
					}
				}
			}
			return nil
		}
		evict := evictIn(f)
		if evict == nil {
			for _, b := range f.Blocks {
				for _, in := range b.Instrs {
					if cl, ok := in.(*ssa.Call); ok {
						if h := cl.Call.StaticCallee(); h != nil && h.Pkg == f.Pkg && h != f && len(h.Blocks) > 0 && evictIn(h) != nil {
							evict = cl
						}
					}
				}
			}
		}
		okEv := evict != nil && replay != nil
		if okEv {
			okEv = !ssau.ReachAfter(f, evict, nil).Instr(replay)
		}
		c.R.Check("G-order", "History.Commit|replay before eviction", okEv, c.pos(f.Pos()), "the replay loop indexes h.changes from its end and is not reachable after the oldest height was evicted")
		if cached != nil && replay != nil {
			c.R.Check("G-order", "History.Commit|cached changes after replay", ssau.ReachAfter(f, replay, nil).Instr(cached), c.pos(f.Pos()), "the new height's changes are applied after the replay")
		}
	}
	if f := c.fn(u, "History", "Append"); f != nil {
		tmp := tempRollbackSites(f)
		app := ssau.CallsIn(f, callPred(R{u, "HeightChanges", "append"}))
		ok := len(tmp) == 1 && len(app) == 1
		if ok {
			ok = !ssau.ReachAfter(f, app[0], nil).Instr(tmp[0])
		}
		c.R.Check("G-order", "History.Append|temporary changes undone before caching", ok, c.pos(f.Pos()), "pending temporary changes are rolled back before a new height's change is cached")
		// ... on every path: the append of a height's change is reached only after tempChanges was emptied (the
		// reset itself, a helper that performs it, or the test that found it empty)
		if len(app) == 1 {
			isTmp := func(v ssa.Value) bool { return ssau.IsFieldOf(v, "History", "tempChanges") }
			resets := func(g *ssa.Function) []ssa.Instruction {
				var out []ssa.Instruction
				for _, b := range g.Blocks {
					for _, in := range b.Instrs {
						if st, ok := in.(*ssa.Store); ok && isTmp(st.Addr) && ssau.IsNilConst(st.Val) {
							out = append(out, st)
						}
					}
				}
				return out
			}
			cut := ssau.NewCut()
			n := 0
			for _, in := range resets(f) {
				cut.AddInstr(in)
				n++
			}
			for _, b := range f.Blocks {
				for _, in := range b.Instrs {
					if cl, ok := in.(*ssa.Call); ok {
						if h := cl.Call.StaticCallee(); h != nil && h.Pkg == f.Pkg && h != f && len(h.Blocks) > 0 && len(resets(h)) > 0 {
							cut.AddInstr(cl)
							n++
						}
					}
				}
			}
			for _, i := range ssau.Ifs(f) {
				if m, arm := condCmp(isLenOf(func(v ssa.Value) bool { return isTmp(ssau.Unwrap(v)) }), isConstInt(0), token.GTR, false)(i); m {
					cut.AddEdge(i.Block(), ssau.Arm(i, arm))
					n++
				}
			}
			okAll := n > 0 && !ssau.ReachFromEntry(f, cut).Instr(app[0].(ssa.Instruction))
			c.R.Check("G-order", "History.Append|temporary changes emptied on every path to the append", okAll, c.posOf(app[0]), "a change of a height can be cached while temporary changes are still pending (they would be re-executed by the next Commit and never rolled back)")
		}
	}
}

// mustCallAllStores: every return of fn that is not the early no-op exit stores to Owner.field.
func (c *Ctx) mustCallAllStores(rule, key string, fn *ssa.Function, owner, field string) {
	n := 0
	for _, b := range fn.Blocks {
		for _, in := range b.Instrs {
			if st, ok := in.(*ssa.Store); ok && ssau.IsFieldOf(st.Addr, owner, field) {
				n++
			}
		}
	}
	c.R.Check(rule, key, n >= 1, c.pos(fn.Pos()), fmt.Sprintf("%d store(s) to %s.%s", n, owner, field))
}

// tempRollbackSites: the places in f where the pending temporary changes are rolled back: a direct call of the
// rollback closure of a tempChanges element, or a call of a same-package helper that does it.
func tempRollbackSites(f *ssa.Function) []ssa.Instruction {
	var out []ssa.Instruction
	for _, cl := range fieldCallSites(f, "rollback") {
		out = append(out, cl)
	}
	for _, b := range f.Blocks {
		for _, in := range b.Instrs {
			cl, ok := in.(*ssa.Call)
			if !ok {
				continue
			}
			h := cl.Call.StaticCallee()
			if h == nil || h.Pkg != f.Pkg || h == f || len(fieldCallSites(h, "rollback")) == 0 {
				continue
			}
			touchesTemp := false
			for _, hb := range h.Blocks {
				for _, hi := range hb.Instrs {
					if fa, ok := hi.(*ssa.FieldAddr); ok && ssau.IsFieldOf(fa, "History", "tempChanges") {
						touchesTemp = true
					}
				}
			}
			if touchesTemp {
				out = append(out, cl)
			}
		}
	}
	return out
}
