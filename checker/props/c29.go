package props

import (
	"fmt"
	"go/token"

	"elaverif/ssau"

	"golang.org/x/tools/go/ssa"
)

func init() {
	register(&Check{ID: "C29", Title: "Proposal spending stays within approved budgets", Run: runC29})
}

// regionCut removes the edges that leave the arm selected by `PayloadVersion() == k` (required value want).
func versionRegion(f *ssa.Function, isK func(ssa.Value) bool) (*ssau.Cut, int) {
	cut := ssau.NewCut()
	n := 0
	for _, i := range ssau.Ifs(f) {
		b, ok := i.Cond.(*ssa.BinOp)
		if !ok || b.Op != token.EQL || !methodCallNamed(ssau.Unwrap(b.X), "PayloadVersion") || !isK(b.Y) {
			continue
		}
		cut.AddEdge(i.Block(), ssau.Arm(i, false))
		n++
	}
	return cut, n
}

func runC29(c *Ctx) {
	c.R.Rule("G-withdraw", "CRCProposalWithdraw.SpecialContextCheck accepts only for an existing proposal in a withdrawable status, owned by the payload's owner key, with AvailableWithdrawalAmount(hash) != 0; on the default-version arm only when Outputs()[0].Value + fee == that amount, at most two outputs, output 0 to the recipient; on the version-01 arm only when payload.Amount == that amount and the payload recipient is the proposal's recipient")
	c.R.Rule("G-once", "availableWithdrawalAmount and proposalWithdraw take a stage only on the absent arm of the WithdrawnBudgets lookup, over the whole WithdrawableBudgets map; proposalWithdraw marks exactly the collected stages withdrawn in the change and unmarks exactly them in the rollback; its rollback does not restore an in-place mutated map by re-assigning an alias")
	c.R.Rule("O-budget", "checkNormalOrELIPProposal adds a stage to the total only behind `stage amount >= 0`, tests the running total for wrap after every addition, and accepts only with total <= 10% of the unspent stage amount and total <= stage amount - committee used - amounts of the proposals already pending")

	const tx = "core/transaction"
	w := c.fn(tx, "CRCProposalWithdrawTransaction", "SpecialContextCheck")
	if w != nil {
		isAvail := func(v ssa.Value) bool {
			cl, ok := ssau.Unwrap(v).(*ssa.Call)
			if !ok || !methodCallNamed(cl, "AvailableWithdrawalAmount") {
				return false
			}
			a := cl.Call.Args
			return ssau.IsFieldOf(ssau.Unwrap(a[len(a)-1]), "CRCProposalWithdraw", "ProposalHash")
		}
		opt := G1Opt{}
		c.GuardSuccess("G-withdraw", "proposal exists", w, "GetProposal(hash) != nil", func(i *ssa.If) (bool, bool) {
			x, trueIsNil, ok := ssau.NilTest(i.Cond)
			if ok && methodCallNamed(ssau.Unwrap(x), "GetProposal") {
				return true, !trueIsNil
			}
			return false, false
		}, opt)
		c.GuardSuccess("G-withdraw", "something to withdraw", w, "AvailableWithdrawalAmount(hash) != 0", condCmp(isAvail, isConstInt(0), token.NEQ, true), opt)
		c.GuardSuccess("G-withdraw", "owner of the proposal", w, "bytes.Equal(ProposalOwner, payload.OwnerKey)", func(i *ssa.If) (bool, bool) {
			x, neg := ssau.StripNot(i.Cond)
			cl := staticCalleeNamed(x, "bytes.Equal")
			if cl == nil {
				return false, false
			}
			a, b := ssau.Unwrap(cl.Call.Args[0]), ssau.Unwrap(cl.Call.Args[1])
			po := func(v ssa.Value) bool { return ssau.IsFieldOf(v, "ProposalState", "ProposalOwner") }
			ok := func(v ssa.Value) bool { return ssau.IsFieldOf(v, "CRCProposalWithdraw", "OwnerKey") }
			if (po(a) && ok(b)) || (po(b) && ok(a)) {
				return true, !neg
			}
			return false, false
		}, opt)
		// status: success only with one of the four withdrawable statuses: enumerate by abstract walk over the status atom
		statusVals := map[string]int64{}
		for _, n := range []string{"Registered", "CRAgreed", "VoterAgreed", "Finished", "CRCanceled", "VoterCanceled", "Terminated", "Aborted"} {
			if v, ok := c.constVal("cr/state", n); ok {
				statusVals[n] = v
			}
		}
		allowed := map[int64]bool{statusVals["VoterAgreed"]: true, statusVals["Finished"]: true, statusVals["Aborted"]: true, statusVals["Terminated"]: true}
		// for every status value: with the branches that the status decides resolved (comparisons of the Status field
		// with constants, directly or inside a predicate helper it is passed to), a success exit is reachable exactly
		// for the four withdrawable statuses
		okStatus := len(statusVals) == 8
		syms := &Symbols{Int: func(v ssa.Value) (string, bool) {
			if ssau.IsFieldOf(ssau.Unwrap(v), "ProposalState", "Status") {
				return "status", true
			}
			return "", false
		}}
		seen := map[int64]bool{}
		ecw := c.classifier(w, opt)
		decided := 0
		for _, sv := range statusVals {
			env := Env{B: map[string]bool{}, I: map[string]int64{"status": sv}, S: map[string]string{}}
			cut := ssau.NewCut()
			for _, i := range ssau.Ifs(w) {
				if !ssau.DependsOn(i.Cond, func(x ssa.Value) bool { return ssau.IsFieldOf(x, "ProposalState", "Status") }) {
					continue
				}
				if val, known := syms.evalCond(i.Cond, env, 0, ""); known {
					decided++
					cut.AddEdge(i.Block(), ssau.Arm(i, !val))
				}
			}
			r := ssau.ReachFromEntry(w, cut)
			accepts := len(ecw.SuccessExitsIn(r, cut)) > 0
			if accepts {
				seen[sv] = true
			}
			if accepts != allowed[sv] {
				okStatus = false
			}
		}
		if decided == 0 {
			okStatus = false
		}
		c.R.Check("G-withdraw", "status is withdrawable", okStatus && len(seen) == 4, c.pos(w.Pos()), fmt.Sprintf("a success exit is reachable for %d status values; it must be reachable exactly for VoterAgreed, Finished, Aborted and Terminated", len(seen)))

		vDefault, _ := c.constVal("core/types/payload", "CRCProposalWithdrawDefault")
		v01, _ := c.constVal("core/types/payload", "CRCProposalWithdrawVersion01")
		isConstByte := func(k int64) func(ssa.Value) bool {
			return func(v ssa.Value) bool { x, ok := constVal64(v); return ok && x == k }
		}
		fee := func(v ssa.Value) bool {
			return ssau.IsCallTo(ssau.Unwrap(v), callPred(R{tx, "", "getTransactionFee"}))
		}
		if cut, n := versionRegion(w, isConstByte(vDefault)); n >= 1 {
			o := G1Opt{Base: cut}
			c.GuardSuccess("G-withdraw", "default|output + fee == available", w, "Outputs()[0].Value + fee == AvailableWithdrawalAmount(hash)", condCmp(func(v ssa.Value) bool {
				add, ok := ssau.Unwrap(v).(*ssa.BinOp)
				if !ok || add.Op != token.ADD {
					return false
				}
				out0 := func(x ssa.Value) bool { return outputFieldOf(x, 0, "Value") }
				return (out0(add.X) && fee(add.Y)) || (out0(add.Y) && fee(add.X))
			}, isAvail, token.EQL, true), o)
			c.GuardSuccess("G-withdraw", "default|at most two outputs", w, "len(Outputs()) <= 2", condCmp(func(v ssa.Value) bool {
				return isLenOf(func(x ssa.Value) bool { return methodCallNamed(x, "Outputs") })(ssau.Unwrap(v))
			}, isConstInt(2), token.LEQ, true), o)
			c.GuardSuccess("G-withdraw", "default|output 0 pays the recipient", w, "Outputs()[0].ProgramHash == proposal.Recipient", condCmp(func(v ssa.Value) bool { return outputFieldOf(v, 0, "ProgramHash") }, func(v ssa.Value) bool {
				return ssau.IsFieldOf(ssau.Unwrap(v), "ProposalState", "Recipient")
			}, token.EQL, true), o)
			c.iterGuard("G-withdraw", "default|every input from the committee expenses address", w, "reference.ProgramHash == CRExpensesProgramHash", condCmp(func(v ssa.Value) bool {
				return ssau.IsFieldOf(ssau.Unwrap(v), "Output", "ProgramHash")
			}, func(v ssa.Value) bool {
				return ssau.DependsOn(v, func(y ssa.Value) bool { return ssau.IsFieldOf(y, "CRConfiguration", "CRExpensesProgramHash") })
			}, token.EQL, true), 0)
		} else {
			c.R.Check("G-withdraw", "default|arm", false, c.pos(w.Pos()), "no PayloadVersion() == CRCProposalWithdrawDefault arm")
		}
		if cut, n := versionRegion(w, isConstByte(v01)); n >= 1 {
			// the default-version arm is a different region
			for _, i := range ssau.Ifs(w) {
				if b, ok := i.Cond.(*ssa.BinOp); ok && b.Op == token.EQL && methodCallNamed(ssau.Unwrap(b.X), "PayloadVersion") && isConstByte(vDefault)(b.Y) {
					// only the second test selects between the two arms; the first guards the input loop and rejoins
					if _, isIf := ssau.Arm(i, false).Instrs[len(ssau.Arm(i, false).Instrs)-1].(*ssa.If); isIf {
						cut.AddEdge(i.Block(), ssau.Arm(i, true))
					}
				}
			}
			o := G1Opt{Base: cut}
			amt := func(v ssa.Value) bool { return ssau.IsFieldOf(ssau.Unwrap(v), "CRCProposalWithdraw", "Amount") }
			c.GuardSuccess("G-withdraw", "v01|payload amount == available", w, "payload.Amount == AvailableWithdrawalAmount(hash)", condCmp(amt, isAvail, token.EQL, true), o)
			c.GuardSuccess("G-withdraw", "v01|payload recipient is the proposal's", w, "payload.Recipient == proposal.Recipient", condCmp(func(v ssa.Value) bool {
				return ssau.IsFieldOf(ssau.Unwrap(v), "CRCProposalWithdraw", "Recipient")
			}, func(v ssa.Value) bool { return ssau.IsFieldOf(ssau.Unwrap(v), "ProposalState", "Recipient") }, token.EQL, true), o)
		} else {
			c.R.Check("G-withdraw", "v01|arm", false, c.pos(w.Pos()), "no PayloadVersion() == CRCProposalWithdrawVersion01 arm")
		}
	}

	// ---- O-reserve: what the committee keeps reserved for proposals
	c.R.Rule("O-reserve", "the committee's used amount keeps covering what proposals can still withdraw: proposalTracking releases (adds to the unused amount) only stages that never became withdrawable (absent from WithdrawableBudgets); resetCRCCommitteeUsedAmount leaves out only CRCanceled, VoterCanceled and Aborted proposals and counts a budget for every other status")
	if pt := c.fn("cr/state", "ProposalManager", "proposalTracking"); pt != nil {
		isWithdrawable := func(v ssa.Value) bool { return ssau.IsFieldOf(ssau.Unwrap(v), "ProposalState", "WithdrawableBudgets") }
		n := 0
		for _, b := range pt.Blocks {
			for _, in := range b.Instrs {
				add, ok := in.(*ssa.BinOp)
				if !ok || add.Op != token.ADD || ssau.TypeName(add.Type()) != "Fixed64" || len(loopHeaders(b)) == 0 {
					continue
				}
				if !ssau.DependsOn(add.Y, func(x ssa.Value) bool { return ssau.IsFieldOf(x, "Budget", "Amount") }) && !ssau.DependsOn(add.X, func(x ssa.Value) bool { return ssau.IsFieldOf(x, "Budget", "Amount") }) {
					continue
				}
				n++
				c.G2("O-reserve", fmt.Sprintf("proposalTracking|released stage#%d never became withdrawable", n), pt, in, "WithdrawableBudgets[stage] absent", lookupAbsent(isWithdrawable))
			}
		}
		c.R.FloorCheck("O-reserve released-budget additions in proposalTracking", n, 2)
	}
	if rf := c.fn("cr/state", "Committee", "resetCRCCommitteeUsedAmount"); rf != nil {
		statusVals := map[string]int64{}
		for _, n := range []string{"Registered", "CRAgreed", "VoterAgreed", "Finished", "CRCanceled", "VoterCanceled", "Terminated", "Aborted"} {
			if v, ok := c.constVal("cr/state", n); ok {
				statusVals[n] = v
			}
		}
		skip := map[string]bool{"CRCanceled": true, "VoterCanceled": true, "Aborted": true}
		syms := &Symbols{Int: func(v ssa.Value) (string, bool) {
			if ssau.IsFieldOf(ssau.Unwrap(v), "ProposalState", "Status") {
				return "status", true
			}
			return "", false
		}}
		var adds []ssa.Instruction
		for _, b := range rf.Blocks {
			for _, in := range b.Instrs {
				if add, ok := in.(*ssa.BinOp); ok && add.Op == token.ADD && ssau.TypeName(add.Type()) == "Fixed64" && len(loopHeaders(b)) > 0 {
					adds = append(adds, add)
				}
			}
		}
		okAll := len(statusVals) == 8 && len(adds) > 0
		detail := ""
		for name, sv := range statusVals {
			env := Env{B: map[string]bool{}, I: map[string]int64{"status": sv}, S: map[string]string{}}
			cut := ssau.NewCut()
			for _, i := range ssau.Ifs(rf) {
				if !ssau.DependsOn(i.Cond, func(x ssa.Value) bool { return ssau.IsFieldOf(x, "ProposalState", "Status") }) {
					continue
				}
				if val, known := syms.evalCond(i.Cond, env, 0, ""); known {
					cut.AddEdge(i.Block(), ssau.Arm(i, !val))
				}
			}
			r := ssau.ReachFromEntry(rf, cut)
			counted := false
			for _, a := range adds {
				if r.Instr(a) {
					counted = true
				}
			}
			if counted == skip[name] {
				okAll = false
				detail += fmt.Sprintf(" %s: counted=%v", name, counted)
			}
		}
		c.R.Check("O-reserve", "resetCRCCommitteeUsedAmount|statuses counted", okAll, c.pos(rf.Pos()), "a budget is counted for every status except CRCanceled, VoterCanceled, Aborted;"+detail)
	}
	// ---- G-once
	isWithdrawn := func(v ssa.Value) bool { return ssau.IsFieldOf(ssau.Unwrap(v), "ProposalState", "WithdrawnBudgets") }
	if f := c.fn("cr/state", "ProposalManager", "availableWithdrawalAmount"); f != nil {
		n := 0
		var viaCollector *ssa.Function
		for _, b := range f.Blocks {
			for _, in := range b.Instrs {
				add, ok := in.(*ssa.BinOp)
				if !ok || add.Op != token.ADD || ssau.TypeName(add.Type()) != "Fixed64" {
					continue
				}
				n++
				// the sum may run over the set a collector helper returns (stages not yet withdrawn only)
				if cols := callsToCollector(f, isWithdrawn); len(cols) > 0 && sumsOverResultOf(in, cols) {
					viaCollector = cols[0].Call.StaticCallee()
					c.R.Check("G-once", fmt.Sprintf("availableWithdrawalAmount|sum#%d only stages not yet withdrawn", n), true, c.posOf(in), "the sum ranges over the set returned by "+viaCollector.Name()+", which holds only stages absent from WithdrawnBudgets")
					continue
				}
				c.G2("G-once", fmt.Sprintf("availableWithdrawalAmount|sum#%d only stages not yet withdrawn", n), f, in, "WithdrawnBudgets[stage] absent", lookupAbsent(isWithdrawn))
			}
		}
		c.R.FloorCheck("G-once additions in availableWithdrawalAmount", n, 1)
		rangesF := f
		if viaCollector != nil {
			rangesF = viaCollector
		}
		c.R.Check("G-once", "availableWithdrawalAmount|ranges over WithdrawableBudgets", rangesOverMapField(rangesF, "WithdrawableBudgets"), c.pos(f.Pos()), "the loop ranges over the proposal's WithdrawableBudgets")
	}
	if f := c.fn("cr/state", "ProposalManager", "proposalWithdraw"); f != nil {
		collect, mk := collectedSetIn(f, isWithdrawn)
		rangesAll := rangesOverMapField(f, "WithdrawableBudgets")
		if collect == nil {
			// the collection may live in a helper that returns the collected set
			for _, cl := range callsToCollector(f, isWithdrawn) {
				collect, mk = collectedSetIn(cl.Call.StaticCallee(), isWithdrawn)
				rangesAll = rangesOverMapField(cl.Call.StaticCallee(), "WithdrawableBudgets")
			}
		}
		c.R.Check("G-once", "proposalWithdraw|collects only stages not yet withdrawn", collect != nil, c.pos(f.Pos()), "the set of stages being withdrawn is filled behind the absent arm of the WithdrawnBudgets lookup")
		c.R.Check("G-once", "proposalWithdraw|ranges over WithdrawableBudgets", rangesAll, c.pos(f.Pos()), "the collection loop ranges over the proposal's WithdrawableBudgets")
		// do marks exactly the collected set; undo unmarks exactly it
		for _, s := range c.appendSites("cr/state") {
			if s.fn != f || s.do == nil || s.undo == nil {
				continue
			}
			rangesCollected := func(g *ssa.Function) bool {
				for _, b := range g.Blocks {
					for _, in := range b.Instrs {
						if rg, ok := in.(*ssa.Range); ok {
							if ld, ok := rg.X.(*ssa.UnOp); ok {
								if fv, ok := ld.X.(*ssa.FreeVar); ok && fv.Name() == "withdrawingBudgets" {
									return true
								}
							}
						}
					}
				}
				return false
			}
			ins, _ := mapWrites(s.do, isWithdrawn)
			_, del := mapWrites(s.undo, isWithdrawn)
			okDo := len(ins) == 1 && rangesCollected(s.do) && ssau.EnclosingLoopHeader(ins[0].Block()) != nil
			okUndo := len(del) == 1 && rangesCollected(s.undo) && ssau.EnclosingLoopHeader(del[0].Block()) != nil
			c.R.Check("G-once", "proposalWithdraw|change marks the collected stages withdrawn", okDo && mk != nil, c.posOf(s.call), "the change ranges over the collected set and inserts each stage into WithdrawnBudgets")
			c.R.Check("G-once", "proposalWithdraw|rollback unmarks the collected stages", okUndo, c.posOf(s.call), "the rollback ranges over the same set and deletes each stage from WithdrawnBudgets")
			eng := &effectEngine{c: c, pkg: f.Pkg, memo: map[*ssa.Function]effectSet{}, busy: map[*ssa.Function]bool{}}
			de, ue := eng.of(s.do, 0), eng.of(s.undo, 0)
			al := aliasRestores(s, de)
			c.R.Check("G-once", "proposalWithdraw|no alias restore", len(al) == 0, c.posOf(s.call), fmt.Sprintf("rollback restores by inverse operations or copies (alias re-assignments: %v)", al))
			var missing []string
			for d := range de {
				if !covered(d, ue) {
					missing = append(missing, d.String())
				}
			}
			c.R.Check("G-once", "proposalWithdraw|rollback covers the change", len(missing) == 0, c.posOf(s.call), fmt.Sprintf("change writes %v, rollback writes %v", de.list(), ue.list()))
		}
	}

	// ---- O-budget
	if f := c.fn(tx, "CRCProposalTransaction", "checkNormalOrELIPProposal"); f != nil {
		n := 0
		isAmt := func(v ssa.Value) bool { return ssau.IsFieldOf(ssau.Unwrap(v), "Budget", "Amount") }
		var total *ssa.Phi
		for _, b := range f.Blocks {
			h := ssau.EnclosingLoopHeader(b)
			if h == nil {
				continue
			}
			for _, in := range b.Instrs {
				add, ok := in.(*ssa.BinOp)
				if !ok || add.Op != token.ADD || ssau.TypeName(add.Type()) != "Fixed64" || !isAmt(add.Y) {
					continue
				}
				acc, isPhi := add.X.(*ssa.Phi)
				if !isPhi {
					continue
				}
				n++
				total = acc
				c.G2("O-budget", "checkNormalOrELIPProposal|every stage non-negative", f, in, "b.Amount >= 0", condCmp(isAmt, isConstInt(0), token.GEQ, true))
				// wrap test after the addition, before the next iteration
				cut := ssau.NewCut()
				k := 0
				for _, i := range ssau.Ifs(f) {
					if m, arm := condCmp(func(v ssa.Value) bool { return v == ssa.Value(add) }, isConstInt(0), token.GEQ, true)(i); m {
						cut.AddEdge(i.Block(), ssau.Arm(i, arm))
						k++
					}
				}
				r := ssau.ReachAfter(f, in, cut)
				c.R.Check("O-budget", "checkNormalOrELIPProposal|wrap test after every addition", k > 0 && !r.Block(acc.Block()), c.posOf(in), "the loop continues only through total >= 0 tested on the freshly added total")
			}
		}
		c.R.FloorCheck("O-budget budget additions", n, 1)
		c.R.Check("O-budget", "checkNormalOrELIPProposal|ranges over every budget", rangeOverLocalCopyOf(f, "Budgets"), c.pos(f.Pos()), "the total runs over a copy of all proposal.Budgets")
		if total != nil {
			isTotal := func(v ssa.Value) bool { return v == ssa.Value(total) }
			dep := func(names ...string) func(ssa.Value) bool {
				return func(v ssa.Value) bool {
					for _, nme := range names {
						if !ssau.DependsOn(v, func(y ssa.Value) bool {
							return ssau.IsFieldOf(y, "Committee", nme) || ssau.IsFieldOf(y, "KeyFrame", nme) || ssau.IsFieldOf(y, "", nme)
						}) {
							return false
						}
					}
					return true
				}
			}
			c.GuardSuccess("O-budget", "checkNormalOrELIPProposal|total within 10% of the unspent stage amount", f, "total <= (CRCCurrentStageAmount - CommitteeUsedAmount) * pct / 100", condCmp(isTotal, func(v ssa.Value) bool {
				q, ok := ssau.Unwrap(v).(*ssa.BinOp)
				return ok && q.Op == token.QUO && dep("CRCCurrentStageAmount", "CommitteeUsedAmount")(q.X)
			}, token.LEQ, true), G1Opt{})
			c.GuardSuccess("O-budget", "checkNormalOrELIPProposal|total within the uncommitted balance", f, "total <= CRCCurrentStageAmount - CRCCommitteeUsedAmount - proposalsUsedAmount", condCmp(isTotal, func(v ssa.Value) bool {
				s, ok := ssau.Unwrap(v).(*ssa.BinOp)
				return ok && s.Op == token.SUB && paramNamed(s.Y, "proposalsUsedAmount") && dep("CRCCurrentStageAmount", "CRCCommitteeUsedAmount")(s.X)
			}, token.LEQ, true), G1Opt{})
		}
	}
}

func containsIf(l []*ssa.If, x *ssa.If) bool {
	for _, i := range l {
		if i == x {
			return true
		}
	}
	return false
}

// outputFieldOf: v is t.Outputs()[k].<field> (any receiver)
func outputFieldOf(v ssa.Value, k int64, field string) bool {
	v = ssau.Unwrap(v)
	u, ok := v.(*ssa.UnOp)
	if !ok || u.Op != token.MUL {
		return false
	}
	fa, ok := u.X.(*ssa.FieldAddr)
	if !ok || !ssau.IsFieldOf(fa, "Output", field) {
		return false
	}
	pl, ok := fa.X.(*ssa.UnOp)
	if !ok || pl.Op != token.MUL {
		return false
	}
	ia, ok := pl.X.(*ssa.IndexAddr)
	if !ok || !isConstInt(k)(ia.Index) {
		return false
	}
	return methodCallNamed(ia.X, "Outputs")
}

// rangesOverMapField: fn ranges over a map loaded from a field called name.
func rangesOverMapField(fn *ssa.Function, name string) bool {
	for _, b := range fn.Blocks {
		for _, in := range b.Instrs {
			if rg, ok := in.(*ssa.Range); ok && ssau.IsFieldOf(ssau.Unwrap(rg.X), "", name) {
				return true
			}
		}
	}
	return false
}

// rangeOverLocalCopyOf: fn fills a local slice of len(x.<field>) from a whole range over x.<field> and ranges over that slice.
func rangeOverLocalCopyOf(fn *ssa.Function, field string) bool {
	whole := rangesWholeField(fn, field)
	var mk *ssa.MakeSlice
	for _, b := range fn.Blocks {
		for _, in := range b.Instrs {
			if m, ok := in.(*ssa.MakeSlice); ok && isLenOf(func(v ssa.Value) bool { return ssau.IsFieldOf(ssau.Unwrap(v), "", field) })(m.Len) {
				mk = m
			}
		}
	}
	if mk == nil || !whole {
		return false
	}
	// a rangeindex loop bounded by len(mk)
	for _, i := range ssau.Ifs(fn) {
		b, ok := i.Cond.(*ssa.BinOp)
		if !ok || b.Op != token.LSS || blockComment(i) != "rangeindex.loop" {
			continue
		}
		if isLenOf(func(v ssa.Value) bool {
			if v == ssa.Value(mk) {
				return true
			}
			// captured by the sort closure: load of the cell holding the slice
			if ld, ok := v.(*ssa.UnOp); ok {
				if al, ok := ld.X.(*ssa.Alloc); ok {
					for _, st := range ssau.StoresInto(al) {
						if st.Val == ssa.Value(mk) {
							return true
						}
					}
				}
			}
			return false
		})(b.Y) {
			return true
		}
	}
	return false
}

// collectedSetIn finds in f a local map that is filled only behind the absent arm of a lookup in the map field
// recognised by isDone (the set of stages not yet withdrawn).
func collectedSetIn(f *ssa.Function, isDone func(ssa.Value) bool) (*ssa.MapUpdate, *ssa.MakeMap) {
	var collect *ssa.MapUpdate
	var mk *ssa.MakeMap
	if f == nil {
		return nil, nil
	}
	for _, b := range f.Blocks {
		for _, in := range b.Instrs {
			u, ok := in.(*ssa.MapUpdate)
			if !ok {
				continue
			}
			m, ok := ssau.Unwrap(u.Map).(*ssa.MakeMap)
			if !ok {
				// captured local: load of alloc holding the MakeMap
				if ld, isLd := ssau.Unwrap(u.Map).(*ssa.UnOp); isLd {
					if al, isAl := ld.X.(*ssa.Alloc); isAl {
						for _, st := range ssau.StoresInto(al) {
							if mm, isM := st.Val.(*ssa.MakeMap); isM {
								m = mm
							}
						}
					}
				}
			}
			if m == nil {
				continue
			}
			cut := ssau.NewCut()
			hit := 0
			for _, i := range ssau.Ifs(f) {
				if mt, arm := lookupAbsent(isDone)(i); mt {
					cut.AddEdge(i.Block(), ssau.Arm(i, arm))
					hit++
				}
			}
			if hit > 0 && !ssau.ReachFromEntry(f, cut).Instr(in) {
				collect, mk = u, m
			}
		}
	}
	return collect, mk
}

// callsToCollector lists the calls in f of same-package helpers that return (on every path) a map they fill only
// behind the absent arm of the isDone lookup.
func callsToCollector(f *ssa.Function, isDone func(ssa.Value) bool) []*ssa.Call {
	var out []*ssa.Call
	for _, b := range f.Blocks {
		for _, in := range b.Instrs {
			cl, ok := in.(*ssa.Call)
			if !ok {
				continue
			}
			h := cl.Call.StaticCallee()
			if h == nil || h.Pkg != f.Pkg || len(h.Blocks) == 0 || h == f {
				continue
			}
			_, mk := collectedSetIn(h, isDone)
			if mk == nil {
				continue
			}
			all := true
			for _, ret := range ssau.Returns(h) {
				if len(ret.Results) != 1 || ssau.Unwrap(ret.Results[0]) != ssa.Value(mk) {
					all = false
				}
			}
			if all {
				out = append(out, cl)
			}
		}
	}
	return out
}

// sumsOverResultOf: the addition sits in a loop that ranges over the result of one of the given calls and adds
// the ranged value.
func sumsOverResultOf(add ssa.Instruction, calls []*ssa.Call) bool {
	for _, h := range loopHeaders(add.Block()) {
		for _, in := range h.Instrs {
			nx, ok := in.(*ssa.Next)
			if !ok {
				continue
			}
			rg, ok := nx.Iter.(*ssa.Range)
			if !ok {
				continue
			}
			for _, cl := range calls {
				if ssau.Unwrap(rg.X) == ssa.Value(cl) {
					return true
				}
			}
		}
	}
	return false
}
