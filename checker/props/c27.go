package props

import (
	"fmt"
	"go/token"
	"go/types"

	"elaverif/ssau"

	"golang.org/x/tools/go/ssa"
)

func init() {
	register(&Check{ID: "C27", Title: "DPoS reward distribution never pays out more than the pool", Run: runC27})
}

func isFloatType(t types.Type) bool {
	bt, ok := t.Underlying().(*types.Basic)
	return ok && bt.Info()&types.IsFloat != 0
}

// floorToFixed: v is Fixed64(math.Floor(x)); returns x.
func floorToFixed(v ssa.Value) (ssa.Value, bool) {
	cv, ok := v.(*ssa.Convert)
	if !ok || isFloatType(cv.Type()) {
		return nil, false
	}
	cl := staticCalleeNamed(cv.X, "math.Floor")
	if cl == nil {
		return nil, false
	}
	return cl.Call.Args[0], true
}

type eraFn struct {
	c      *Ctx
	f      *ssa.Function
	mp     ssa.Value   // the round reward map
	reward ssa.Value   // the reward parameter
	ctx    []*ssa.Call // helper calls being looked into (innermost last)
}

// deref replaces a parameter of a helper that is being looked into by the argument of the call.
func (e *eraFn) deref(v ssa.Value) ssa.Value {
	for k := len(e.ctx) - 1; k >= 0; k-- {
		p, ok := v.(*ssa.Parameter)
		if !ok {
			return v
		}
		h := e.ctx[k].Call.StaticCallee()
		idx := -1
		for i, hp := range h.Params {
			if hp == p {
				idx = i
			}
		}
		if idx < 0 {
			return v
		}
		v = e.ctx[k].Call.Args[idx]
	}
	return v
}

// accOf: the accumulator phi of the loop headed by h: a Fixed64 phi whose back edge is phi + q.
func accOf(h *ssa.BasicBlock) (acc *ssa.Phi, adds []*ssa.BinOp) {
	body := ssau.LoopBody(h)
	for _, in := range h.Instrs {
		p, ok := in.(*ssa.Phi)
		if !ok {
			break
		}
		if ssau.TypeName(p.Type()) != "Fixed64" {
			continue
		}
		var as []*ssa.BinOp
		okAll := true
		for k, e := range p.Edges {
			if !body[h.Preds[k]] {
				continue
			}
			var leaves []ssa.Value
			phiLeaves(e, map[ssa.Value]bool{ssa.Value(p): true}, &leaves)
			for _, l := range leaves {
				add, ok := l.(*ssa.BinOp)
				if !ok || add.Op != token.ADD || (add.X != ssa.Value(p) && add.Y != ssa.Value(p)) {
					okAll = false
					continue
				}
				as = append(as, add)
			}
		}
		if okAll && len(as) > 0 {
			return p, as
		}
	}
	return nil, nil
}

// payoutShape classifies a payout value; returns a description and whether the shape is the floor-of-float form.
func (e *eraFn) payoutShape(v ssa.Value, depth int) (string, bool) {
	if depth > 6 {
		return "too deep", false
	}
	if k, ok := v.(*ssa.Const); ok {
		if n, ok := constInt(k); ok && n == 0 {
			return "0", true
		}
	}
	v = e.deref(v)
	if cl, ok := v.(*ssa.Call); ok {
		if h := cl.Call.StaticCallee(); h != nil && h.Pkg == e.f.Pkg && len(h.Blocks) == 1 {
			if ret, ok := h.Blocks[0].Instrs[len(h.Blocks[0].Instrs)-1].(*ssa.Return); ok && len(ret.Results) == 1 {
				e.ctx = append(e.ctx, cl)
				s, ok2 := e.payoutShape(ret.Results[0], depth+1)
				e.ctx = e.ctx[:len(e.ctx)-1]
				return s, ok2
			}
		}
	}
	if x, ok := floorToFixed(v); ok {
		switch b := x.(type) {
		case *ssa.BinOp:
			if b.Op == token.QUO && isFloatType(b.Type()) {
				return "floor(pool share / seats)", true
			}
			if b.Op == token.MUL && isFloatType(b.Type()) {
				// votes * rewardPerVote
				votes := func(y ssa.Value) bool {
					cv, ok := y.(*ssa.Convert)
					return ok && ssau.DependsOn(e.deref(cv.X), func(z ssa.Value) bool { return ssau.IsFieldOf(z, "RewardData", "OwnerVotesInRound") })
				}
				rpv := func(y ssa.Value) bool {
					return ssau.DependsOn(e.deref(y), func(z ssa.Value) bool { return ssau.IsFieldOf(z, "RewardData", "TotalVotesInRound") })
				}
				if (votes(b.X) && rpv(b.Y)) || (votes(b.Y) && rpv(b.X)) {
					return "floor(votes * rewardPerVote)", true
				}
			}
		}
		return "floor of an unrecognised float expression " + canonExpr(x, nil, 0), false
	}
	switch b := v.(type) {
	case *ssa.BinOp:
		if b.Op == token.ADD {
			s1, ok1 := e.payoutShape(b.X, depth+1)
			s2, ok2 := e.payoutShape(b.Y, depth+1)
			return s1 + " + " + s2, ok1 && ok2
		}
		return fmt.Sprintf("integer %s of Fixed64 operands (may wrap or go negative): %s", b.Op, canonExpr(b, nil, 0)), false
	case *ssa.Phi:
		desc := ""
		all := true
		for _, ed := range b.Edges {
			s, ok := e.payoutShape(ed, depth+1)
			if desc == "" {
				desc = s
			}
			all = all && ok
			if !ok {
				desc = s
			}
		}
		return desc, all
	}
	return fmt.Sprintf("unrecognised payout value %s", canonExpr(v, nil, 0)), false
}

func runC27(c *Ctx) {
	c.R.Rule("G2-change", "distributeDPOSReward returns success only when the era function returned no error and change = reward - realDPOSReward (the era function's second result) is not negative")
	c.R.Rule("U-pair", "in every era function each credit to the round-reward map inside the arbiter / candidate loops adds the same value to the returned accumulator on every iteration that performs it; the all-to-one exits return exactly the credited amount; credits without accumulator update exist only in the destroy-vacant-seat loop")
	c.R.Rule("A-seats", "the number of block-confirm shares handed out (one per on-duty arbiter plus one per destroy-loop iteration) equals the divisor the share was computed with")
	c.R.Rule("T-payout", "every payout is 0, floor(pool part / seats), floor(votes * rewardPerVote) or a sum of these (no integer multiplication or division of Fixed64 amounts); every float division by the round's vote total is guarded by total > 0; in the eras dividing by len(CurrentArbitrators) the division is behind the len == 0 rejection")

	const pkg = "dpos/state"
	d := c.fn(pkg, "Arbiters", "distributeDPOSReward")
	eras := []string{"distributeWithNormalArbitratorsV0", "distributeWithNormalArbitratorsV1", "distributeWithNormalArbitratorsV2", "distributeWithNormalArbitratorsV3"}
	if d != nil {
		var refs []R
		for _, n := range eras {
			refs = append(refs, R{pkg, "Arbiters", n})
		}
		eraP := callPred(refs...)
		calls := ssau.CallsIn(d, eraP)
		c.R.Check("G2-change", "distributeDPOSReward|selects one era function", len(calls) == len(eras), c.pos(d.Pos()), fmt.Sprintf("%d era calls", len(calls)))
		// err == nil arm
		c.GuardSuccess("G2-change", "distributeDPOSReward|era error propagated", d, "era err == nil", func(i *ssa.If) (bool, bool) {
			x, trueIsNil, ok := ssau.NilTest(i.Cond)
			if !ok {
				return false, false
			}
			// err is a phi over the third results
			dep := ssau.DependsOn(x, func(y ssa.Value) bool {
				ex, ok := y.(*ssa.Extract)
				return ok && ex.Index == 2 && ssau.IsCallTo(ex, eraP)
			})
			return dep, trueIsNil
		}, G1Opt{HasIdx: true, Idx: 2})
		isChange := func(v ssa.Value) bool {
			sub, ok := ssau.Unwrap(v).(*ssa.BinOp)
			if !ok || sub.Op != token.SUB || !paramNamed(sub.X, "reward") {
				return false
			}
			var leaves []ssa.Value
			phiLeaves(sub.Y, map[ssa.Value]bool{}, &leaves)
			if len(leaves) == 0 {
				return false
			}
			for _, l := range leaves {
				ex, ok := l.(*ssa.Extract)
				if !ok || ex.Index != 1 || !ssau.IsCallTo(ex, eraP) {
					return false
				}
			}
			return len(leaves) == len(eras)
		}
		isReal := func(v ssa.Value) bool {
			var leaves []ssa.Value
			phiLeaves(ssau.Unwrap(v), map[ssa.Value]bool{}, &leaves)
			if len(leaves) != len(eras) {
				return false
			}
			for _, l := range leaves {
				ex, ok := l.(*ssa.Extract)
				if !ok || ex.Index != 1 || !ssau.IsCallTo(ex, eraP) {
					return false
				}
			}
			return true
		}
		c.GuardSuccess("G2-change", "distributeDPOSReward|change >= 0", d, "reward - realDPOSReward >= 0 (or realDPOSReward <= reward)", func(i *ssa.If) (bool, bool) {
			if m, arm := condCmp(isChange, isConstInt(0), token.GEQ, true)(i); m {
				return m, arm
			}
			return condCmp(isReal, func(v ssa.Value) bool { return paramNamed(v, "reward") }, token.LEQ, true)(i)
		}, G1Opt{HasIdx: true, Idx: 2})
		// the returned change is that difference
		okRet := false
		ec := c.classifier(d, G1Opt{HasIdx: true, Idx: 2})
		for _, ret := range ec.SuccessExits(ssau.NewCut()) {
			okRet = isChange(ssau.ResolveSpill(ret.Results[1]))
		}
		c.R.Check("G2-change", "distributeDPOSReward|returned change is the difference", okRet, c.pos(d.Pos()), "the carried remainder is reward - realDPOSReward")
	}

	nCredits := 0
	for _, name := range eras {
		f := c.fn(pkg, "Arbiters", name)
		if f == nil {
			continue
		}
		e := &eraFn{c: c, f: f}
		for _, p := range f.Params {
			if p.Name() == "reward" {
				e.reward = p
			}
		}
		// the map: first result of the success returns
		for _, ret := range ssau.Returns(f) {
			if mk, ok := ret.Results[0].(*ssa.MakeMap); ok {
				e.mp = mk
			}
		}
		if e.mp == nil || e.reward == nil {
			c.R.Undecided("U-pair", name+"|shape", c.pos(f.Pos()), "round reward map or reward parameter not found")
			continue
		}
		ibcrDiv := map[ssa.Value]bool{} // divisors (int) of block-confirm shares
		var destroyLoops []*ssa.BasicBlock
		k := 0
		for _, b := range f.Blocks {
			for _, in := range b.Instrs {
				u, ok := in.(*ssa.MapUpdate)
				if !ok || u.Map != e.mp {
					continue
				}
				k++
				nCredits++
				key := fmt.Sprintf("%s|credit#%d", name, k)
				p := u.Value
				if add, ok := p.(*ssa.BinOp); ok && add.Op == token.ADD {
					if lk, ok := add.X.(*ssa.Lookup); ok && lk.X == e.mp {
						p = add.Y
					} else if lk, ok := add.Y.(*ssa.Lookup); ok && lk.X == e.mp {
						p = add.X
					}
				}
				if p == e.reward {
					// all-to-one exit
					ok := false
					if ret, isRet := b.Instrs[len(b.Instrs)-1].(*ssa.Return); isRet {
						ok = ret.Results[1] == e.reward
					}
					c.R.Check("U-pair", key+"|whole pool to one address", ok, c.posOf(u), "the credited amount is the whole reward and exactly that is returned as attributed")
					continue
				}
				shape, okShape := e.payoutShape(p, 0)
				c.R.Check("T-payout", key+"|payout shape", okShape, c.posOf(u), "payout = "+shape)
				// collect the seat divisor
				ssau.DependsOn(p, func(y ssa.Value) bool {
					if x, ok := floorToFixed(y); ok {
						if q, ok := x.(*ssa.BinOp); ok && q.Op == token.QUO {
							if cv, ok := q.Y.(*ssa.Convert); ok {
								ibcrDiv[cv.X] = true
							}
						}
					}
					return false
				})
				if kc, isC := p.(*ssa.Const); isC {
					if n, ok := constInt(kc); ok && n == 0 {
						continue
					}
				}
				h := ssau.EnclosingLoopHeader(b)
				if h == nil {
					c.R.Check("U-pair", key+"|in a distribution loop", false, c.posOf(u), "a non-zero credit outside the distribution loops is not attributed")
					continue
				}
				acc, adds := accOf(h)
				if acc == nil {
					destroyLoops = append(destroyLoops, h)
					isDestroy := ssau.DependsOn(u.Key, func(y ssa.Value) bool { return ssau.IsFieldOf(y, "Configuration", "DestroyELAProgramHash") })
					c.R.Check("U-pair", key+"|unattributed credit only to the destroy address", isDestroy, c.posOf(u), "loop without accumulator credits the destroy address only (vacant seats)")
					c.R.Info("U-pair", key+"|vacant-seat shares are not counted as paid", c.posOf(u), "the shares of vacant seats are credited to the destroy address but not added to the attributed total, so they are also part of the carried change (historical accounting; the property speaks of the attributed amount)")
					continue
				}
				// same value added to the accumulator on every iteration performing the credit
				var match *ssa.BinOp
				for _, a := range adds {
					other := a.Y
					if a.Y == ssa.Value(acc) {
						other = a.X
					}
					if other == p {
						match = a
					}
					// the added value is a phi joining the arms: the arm performing this credit must carry the credited value
					if ph, isPhi := other.(*ssa.Phi); isPhi {
						n, okEdges := 0, true
						for kk, ed := range ph.Edges {
							pred := ph.Block().Preds[kk]
							if pred == b || b.Dominates(pred) {
								n++
								if ed != p {
									okEdges = false
								}
							}
						}
						if n > 0 && okEdges {
							match = a
						}
					}
				}
				if match == nil {
					c.R.Check("U-pair", key+"|same amount attributed", false, c.posOf(u), "the loop's accumulator is not increased by the credited value")
					continue
				}
				cut := ssau.NewCut()
				cut.AddInstr(match)
				r := ssau.ReachAfter(f, u, cut)
				escaped := r.Block(h) && match.Block() != b
				if match.Block() == b {
					escaped = false
				}
				c.R.Check("U-pair", key+"|same amount attributed", !escaped, c.posOf(u), "every iteration that credits the map adds the same value to the attributed total")
			}
		}
		// returned attributed total: the last loop's accumulator chain or the reward
		for j, ret := range ssau.Returns(f) {
			if _, isMap := ret.Results[0].(*ssa.MakeMap); !isMap {
				continue
			}
			v := ret.Results[1]
			ok := v == e.reward
			if p, isPhi := v.(*ssa.Phi); isPhi {
				if acc, _ := accOf(p.Block()); acc == p {
					ok = true
				}
			}
			c.R.Check("U-pair", fmt.Sprintf("%s|return#%d attributed total", name, j+1), ok, c.posOf(ret), "the second result is the running attributed total (or the whole reward)")
		}
		// accumulators chain: each loop's accumulator starts from the previous one or 0
		for _, b := range f.Blocks {
			acc, _ := accOf(b)
			if acc == nil {
				continue
			}
			body := ssau.LoopBody(b)
			for kk, ed := range acc.Edges {
				if body[b.Preds[kk]] {
					continue
				}
				ok := false
				if kc, isC := ed.(*ssa.Const); isC {
					n, _ := constInt(kc)
					ok = n == 0
				}
				if p, isPhi := ed.(*ssa.Phi); isPhi {
					if a2, _ := accOf(p.Block()); a2 == p {
						ok = true
					}
				}
				c.R.Check("U-pair", fmt.Sprintf("%s|accumulator of loop at %s starts from the previous total", name, c.pos(b.Instrs[0].Pos())), ok, c.pos(f.Pos()), "no attributed amount is dropped between the loops")
			}
		}
		// A-seats
		var divs []ssa.Value
		for dv := range ibcrDiv {
			divs = append(divs, dv)
		}
		if len(divs) != 1 {
			c.R.Check("A-seats", name+"|one seat divisor", false, c.pos(f.Pos()), fmt.Sprintf("%d distinct divisors of the block-confirm share", len(divs)))
		} else {
			div := divs[0]
			lenArb := func(v ssa.Value) bool { return isLenOf(fieldIs("Arbiters", "CurrentArbitrators"))(v) }
			if len(destroyLoops) == 0 {
				c.R.Check("A-seats", name+"|seats = on-duty arbiters", lenArb(div), c.pos(f.Pos()), "no vacant-seat loop: the share is the pool part divided by len(CurrentArbitrators), one share per arbiter")
				// and the division is behind the emptiness rejection
				var q ssa.Instruction
				for _, b := range f.Blocks {
					for _, in := range b.Instrs {
						if bo, ok := in.(*ssa.BinOp); ok && bo.Op == token.QUO && isFloatType(bo.Type()) {
							if cv, ok := bo.Y.(*ssa.Convert); ok && cv.X == div {
								q = in
							}
						}
					}
				}
				if q != nil {
					c.G2("T-payout", name+"|seat division behind the empty-set rejection", f, q, "len(CurrentArbitrators) != 0", condCmp(lenArb, isConstInt(0), token.NEQ, true))
				}
			} else {
				ok := true
				for _, h := range destroyLoops {
					// for i := len(CurrentArbitrators); i < N; i++
					var cond *ssa.BinOp
					if iff, isIf := h.Instrs[len(h.Instrs)-1].(*ssa.If); isIf {
						cond, _ = iff.Cond.(*ssa.BinOp)
					}
					if cond == nil || cond.Op != token.LSS || cond.Y != div {
						ok = false
						continue
					}
					phi, isPhi := cond.X.(*ssa.Phi)
					if !isPhi {
						ok = false
						continue
					}
					start, step := false, false
					for _, ed := range phi.Edges {
						if lenArb(ed) {
							start = true
						}
						if add, isAdd := ed.(*ssa.BinOp); isAdd && add.Op == token.ADD && add.X == ssa.Value(phi) && isConstInt(1)(add.Y) {
							step = true
						}
					}
					if !start || !step {
						ok = false
					}
				}
				c.R.Check("A-seats", name+"|seats = on-duty arbiters + vacant seats", ok && rangesWholeField(f, "CurrentArbitrators"), c.pos(f.Pos()), "the vacant-seat loop runs from len(CurrentArbitrators) to the very count the share was divided by")
			}
		}
		// T-div: divisions by the vote total
		nq := 0
		for _, b := range f.Blocks {
			for _, in := range b.Instrs {
				bo, ok := in.(*ssa.BinOp)
				if !ok || bo.Op != token.QUO {
					continue
				}
				tv := func(y ssa.Value) bool { return ssau.IsFieldOf(y, "RewardData", "TotalVotesInRound") }
				if !ssau.DependsOn(bo.Y, tv) {
					continue
				}
				nq++
				c.G2("T-payout", fmt.Sprintf("%s|division by the vote total #%d guarded", name, nq), f, in, "TotalVotesInRound > 0", condCmp(func(v ssa.Value) bool { return tv(ssau.Unwrap(v)) }, isConstInt(0), token.GTR, true))
			}
		}
		c.R.Check("T-payout", name+"|vote-total division present", nq >= 1, c.pos(f.Pos()), fmt.Sprintf("%d division(s) by TotalVotesInRound", nq))
	}
	c.R.FloorCheck("U-pair credits to the round reward map", nCredits, 12)
	// a return that declares the whole pool as paid out carries a map without other credits
	c.R.Rule("T-whole", "a distribute function returns the whole reward as the paid amount (and the pool as its only destroy-address entry) only on a path on which nothing else was credited to the round reward map before")
	nW := 0
	for _, name := range []string{"distributeWithNormalArbitratorsV0", "distributeWithNormalArbitratorsV1", "distributeWithNormalArbitratorsV2", "distributeWithNormalArbitratorsV3"} {
		f := c.fn("dpos/state", "Arbiters", name)
		if f == nil {
			continue
		}
		var credits []ssa.Instruction
		for _, b := range f.Blocks {
			for _, in := range b.Instrs {
				if u, ok := in.(*ssa.MapUpdate); ok && ssau.TypeName(u.Value.Type()) == "Fixed64" {
					// a credit other than "destroy address := whole reward"
					if paramNamed(u.Value, "reward") {
						continue
					}
					credits = append(credits, u)
				}
			}
		}
		for _, ret := range ssau.Returns(f) {
			if len(ret.Results) < 2 || !paramNamed(ssau.ResolveSpill(ret.Results[1]), "reward") {
				continue
			}
			nW++
			bad := ""
			for _, u := range credits {
				if ssau.ReachAfter(f, u, nil).Instr(ret) {
					bad = c.posOf(u)
				}
			}
			c.R.Check("T-whole", name+"|whole-pool return carries no other credit", bad == "", c.posOf(ret), "the credit at "+bad+" can precede the return that reports the whole pool as paid: the map then sums to more than the pool")
		}
	}
	c.R.FloorCheck("T-whole whole-pool returns", nW, 1)
}
