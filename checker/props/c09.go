package props

import (
	"fmt"
	"go/constant"
	"go/token"

	"elaverif/ssau"

	"golang.org/x/tools/go/ssa"
)

func init() {
	register(&Check{ID: "C09", Title: "Proof-of-work target encoding and retargeting are well-behaved", Run: runC09})
}

// evalU evaluates an unsigned integer / boolean SSA expression under an assignment of leaf values.
func evalU(v ssa.Value, env map[ssa.Value]uint64, depth int) (uint64, bool) {
	if x, ok := env[v]; ok {
		return x, true
	}
	if depth > 12 {
		return 0, false
	}
	switch x := v.(type) {
	case *ssa.Const:
		if x.Value == nil {
			return 0, false
		}
		if x.Value.Kind() == constant.Bool {
			if constant.BoolVal(x.Value) {
				return 1, true
			}
			return 0, true
		}
		u, ok := constant.Uint64Val(constant.ToInt(x.Value))
		return u, ok
	case *ssa.Convert:
		return evalU(x.X, env, depth+1)
	case *ssa.BinOp:
		a, ok1 := evalU(x.X, env, depth+1)
		b, ok2 := evalU(x.Y, env, depth+1)
		if !ok1 || !ok2 {
			return 0, false
		}
		bo := func(c bool) (uint64, bool) {
			if c {
				return 1, true
			}
			return 0, true
		}
		switch x.Op {
		case token.AND:
			return a & b, true
		case token.OR:
			return a | b, true
		case token.SHL:
			return (a << b) & 0xffffffff, true
		case token.SHR:
			return a >> b, true
		case token.ADD:
			return a + b, true
		case token.SUB:
			return a - b, true
		case token.EQL:
			return bo(a == b)
		case token.NEQ:
			return bo(a != b)
		case token.LSS:
			return bo(a < b)
		case token.LEQ:
			return bo(a <= b)
		case token.GTR:
			return bo(a > b)
		case token.GEQ:
			return bo(a >= b)
		}
	}
	return 0, false
}

func runC09(c *Ctx) {
	c.R.Rule("G-pow", "CheckProofOfWork returns nil only through target.Sign() > 0, target.Cmp(powLimit) <= 0 and HashToBig(parent header hash).Cmp(target) <= 0, with target = CompactToBig(header.Bits) and the hash that of header.AuxPow.ParBlockHeader; CheckBlockSanity rejects unless it returns nil for the configured PowLimit; CheckBlockContext rejects unless header.Bits equals CalcNextRequiredDifficulty for the parent")
	c.R.Rule("G-clamp", "CalcNextRequiredDifficulty encodes the retargeted value only after the clamp to PowLimit (the false arm of newTarget.Cmp(PowLimit) > 0, or Set(PowLimit)); the timespan multiplier is the raw timespan only between the configured minimum and maximum, else the bound itself; the encoded value is old target * multiplier / target timespan")
	c.R.Rule("T-compact", "BigToCompact moves a mantissa with bit 23 set (and only such a mantissa) one byte down before packing, so the sign bit is never produced by magnitude; BigToCompact and CompactToBig agree on the layout constants (mantissa mask 0x007fffff, sign bit 0x00800000, exponent in the top byte)")

	const bc = "blockchain"
	bigCall := func(v ssa.Value, name string) *ssa.Call {
		cl, ok := ssau.Unwrap(v).(*ssa.Call)
		if !ok {
			return nil
		}
		if f := cl.Call.StaticCallee(); f != nil && f.String() == "(*math/big.Int)."+name {
			return cl
		}
		return nil
	}
	if f := c.fn(bc, "", "CheckProofOfWork"); f != nil {
		isTarget := func(v ssa.Value) bool {
			cl := staticCalleeNamed(ssau.Unwrap(v), "github.com/elastos/Elastos.ELA/blockchain.CompactToBig")
			return cl != nil && ssau.IsFieldOf(ssau.Unwrap(cl.Call.Args[0]), "Header", "Bits")
		}
		isHashNum := func(v ssa.Value) bool {
			cl := staticCalleeNamed(ssau.Unwrap(v), "github.com/elastos/Elastos.ELA/blockchain.HashToBig")
			if cl == nil {
				return false
			}
			return ssau.DependsOn(cl.Call.Args[0], func(y ssa.Value) bool {
				h, ok := y.(*ssa.Call)
				return ok && methodCallNamed(h, "Hash") && len(h.Call.Args) > 0 && ssau.DependsOn(h.Call.Args[0], func(z ssa.Value) bool { return ssau.IsFieldOf(z, "AuxPow", "ParBlockHeader") })
			})
		}
		c.GuardSuccess("G-pow", "CheckProofOfWork|target positive", f, "target.Sign() > 0", condCmp(func(v ssa.Value) bool {
			cl := bigCall(v, "Sign")
			return cl != nil && isTarget(cl.Call.Args[0])
		}, isConstInt(0), token.GTR, true), G1Opt{})
		leq := func(c int) bool { return c <= 0 }
		c.GuardSuccess("G-pow", "CheckProofOfWork|target within the limit", f, "target <= powLimit (big.Int.Cmp)", bigRelArm(isTarget, func(v ssa.Value) bool { return paramNamed(v, "powLimit") }, leq), G1Opt{})
		c.GuardSuccess("G-pow", "CheckProofOfWork|hash at most the target", f, "HashToBig(parent hash) <= target (big.Int.Cmp)", bigRelArm(isHashNum, isTarget, leq), G1Opt{})
	}
	if f := c.fn(bc, "BlockChain", "CheckBlockSanity"); f != nil {
		pw := callPred(R{bc, "", "CheckProofOfWork"})
		c.G1s("G-pow", "CheckBlockSanity|CheckProofOfWork", f, "CheckProofOfWork", pw, G1Opt{})
		for _, cl := range ssau.CallsIn(f, pw) {
			a := cl.Common().Args
			c.R.Check("G-pow", "CheckBlockSanity|limit is the configured PowLimit", ssau.IsFieldOf(ssau.Unwrap(a[1]), "PowConfiguration", "PowLimit"), c.posOf(cl), "powLimit = chainParams.PowConfiguration.PowLimit")
		}
	}
	if f := c.fn(bc, "BlockChain", "CheckBlockContext"); f != nil {
		calc := callPred(R{bc, "BlockChain", "CalcNextRequiredDifficulty"})
		c.GuardSuccess("G-pow", "CheckBlockContext|bits equal the required difficulty", f, "header.Bits == CalcNextRequiredDifficulty(prevNode, ..)", condCmp(func(v ssa.Value) bool {
			return ssau.IsFieldOf(ssau.Unwrap(v), "Header", "Bits")
		}, func(v ssa.Value) bool { return ssau.IsCallTo(ssau.Unwrap(v), calc) }, token.EQL, true), G1Opt{IgnoreExit: func(r *ssa.Return) bool {
			// the genesis short-cut (prevNode == nil)
			return false
		}, Base: genesisCut(f)})
		for _, cl := range ssau.CallsIn(f, calc) {
			a := cl.Common().Args
			c.R.Check("G-pow", "CheckBlockContext|difficulty computed for the parent", paramNamed(a[1], "prevNode"), c.posOf(cl), "CalcNextRequiredDifficulty(prevNode, ..)")
		}
	}

	// ---- G-clamp
	if f := c.fn(bc, "BlockChain", "CalcNextRequiredDifficulty"); f != nil {
		enc := ssau.CallsIn(f, callPred(R{bc, "", "BigToCompact"}))
		c.R.Check("G-clamp", "CalcNextRequiredDifficulty|encodes once", len(enc) == 1, c.pos(f.Pos()), fmt.Sprintf("%d BigToCompact call(s)", len(enc)))
		isLimit := func(v ssa.Value) bool { return ssau.IsFieldOf(ssau.Unwrap(v), "PowConfiguration", "PowLimit") }
		for _, e := range enc {
			nt := e.Common().Args[0]
			cut := ssau.NewCut()
			n := 0
			for _, i := range ssau.Ifs(f) {
				if m, arm := bigRelArm(func(v ssa.Value) bool { return sameBig(v, nt) }, isLimit, func(c int) bool { return c <= 0 })(i); m {
					cut.AddEdge(i.Block(), ssau.Arm(i, arm))
					n++
				}
			}
			for _, b := range f.Blocks {
				for _, in := range b.Instrs {
					if cl, ok := in.(*ssa.Call); ok {
						if s := bigCall(cl, "Set"); s != nil && sameBig(s.Call.Args[0], nt) && isLimit(s.Call.Args[1]) {
							cut.AddInstr(in)
							n++
						}
					}
				}
			}
			// start after the value was computed (the Div)
			var div ssa.Instruction
			for _, b := range f.Blocks {
				for _, in := range b.Instrs {
					if cl, ok := in.(*ssa.Call); ok {
						if d := bigCall(cl, "Div"); d != nil && sameBig(d.Call.Args[0], nt) {
							div = in
						}
					}
				}
			}
			ok := n >= 2 && div != nil
			if ok {
				ok = !ssau.ReachAfter(f, div, cut).Instr(e)
			}
			c.R.Check("G-clamp", "CalcNextRequiredDifficulty|clamped to PowLimit before encoding", ok, c.posOf(e), "between the division and BigToCompact every path passes newTarget.Cmp(PowLimit) <= 0 or newTarget.Set(PowLimit)")
			// value = old * multiplier / targetTimespan
			var mul *ssa.Call
			ssau.DependsOn(nt, func(y ssa.Value) bool {
				if cl, ok := y.(*ssa.Call); ok {
					if m := bigCall(cl, "Mul"); m != nil {
						mul = m
					}
				}
				return false
			})
			okMul := false
			var multiplier ssa.Value
			if mul != nil {
				old := staticCalleeNamed(ssau.Unwrap(mul.Call.Args[1]), "github.com/elastos/Elastos.ELA/blockchain.CompactToBig")
				ni := staticCalleeNamed(ssau.Unwrap(mul.Call.Args[2]), "math/big.NewInt")
				if old != nil && ni != nil && ssau.IsFieldOf(ssau.Unwrap(old.Call.Args[0]), "BlockNode", "Bits") {
					okMul = true
					multiplier = ni.Call.Args[0]
				}
			}
			c.R.Check("G-clamp", "CalcNextRequiredDifficulty|new = old target * multiplier", okMul, c.posOf(e), "the product is CompactToBig(prevNode.Bits) * big.NewInt(adjusted timespan)")
			if multiplier != nil {
				minF, maxF := fieldIs("BlockChain", "minRetargetTimespan"), fieldIs("BlockChain", "maxRetargetTimespan")
				isRaw := func(v ssa.Value) bool {
					return !minF(v) && !maxF(v) && ssau.DependsOn(v, func(y ssa.Value) bool { return ssau.IsFieldOf(y, "BlockNode", "Timestamp") })
				}
				// the sources the multiplier may come from, each with a test "is this source reachable under a cut"
				type source struct {
					val   ssa.Value
					reach func(cut *ssau.Cut) bool
				}
				clampOK := func(g *ssa.Function, srcs []source) bool {
					hasMin, hasMax, hasRaw := false, false, false
					for _, sc := range srcs {
						switch {
						case minF(sc.val):
							hasMin = true
						case maxF(sc.val):
							hasMax = true
						case isRaw(sc.val):
							hasRaw = true
						default:
							return false
						}
					}
					if !hasMin || !hasMax || !hasRaw {
						return false
					}
					for _, gd := range []struct {
						bound func(ssa.Value) bool
						op    token.Token
					}{{minF, token.GEQ}, {maxF, token.LEQ}} {
						one := ssau.NewCut()
						k := 0
						for _, i := range ssau.Ifs(g) {
							if m, arm := condCmp(isRaw, gd.bound, gd.op, true)(i); m {
								one.AddEdge(i.Block(), ssau.Arm(i, arm))
								k++
							}
						}
						if k == 0 {
							return false
						}
						for _, sc := range srcs {
							if isRaw(sc.val) && sc.reach(one) {
								return false
							}
						}
					}
					return true
				}
				okClamp := false
				switch m := multiplier.(type) {
				case *ssa.Phi:
					var srcs []source
					for kk, ed := range m.Edges {
						kk := kk
						srcs = append(srcs, source{ed, func(cut *ssau.Cut) bool {
							return ssau.ReachFromEntry(f, cut).EdgeReachable(m.Block().Preds[kk], m.Block())
						}})
					}
					okClamp = clampOK(f, srcs)
				case *ssa.Call:
					// the clamp was extracted into a helper: judge its returns with the parameters standing for the arguments
					if h := m.Call.StaticCallee(); h != nil && h.Pkg == f.Pkg && len(h.Blocks) > 0 {
						ssau.WithParamSubst(m, func() {
							var srcs []source
							for _, ret := range ssau.Returns(h) {
								ret := ret
								var leaves []ssa.Value
								phiLeaves(ret.Results[0], map[ssa.Value]bool{}, &leaves)
								for _, l := range leaves {
									srcs = append(srcs, source{l, func(cut *ssau.Cut) bool { return ssau.ReachFromEntry(h, cut).Instr(ret) }})
								}
							}
							okClamp = clampOK(h, srcs)
						})
					}
				}
				c.R.Check("G-clamp", "CalcNextRequiredDifficulty|multiplier clamped to [min,max] timespan", okClamp, c.posOf(e), "the multiplier is min, max or the raw timespan, the latter only when min <= raw <= max")
			}
		}
	}

	// ---- T-compact
	if f := c.fn(bc, "", "BigToCompact"); f != nil {
		// the normalisation branch: the arm that shifts the mantissa right by 8 and increments the exponent
		var norm *ssa.If
		var mant ssa.Value
		for _, i := range ssau.Ifs(f) {
			arm := ssau.Arm(i, true)
			for _, in := range arm.Instrs {
				if sh, ok := in.(*ssa.BinOp); ok && sh.Op == token.SHR && isConstInt(8)(sh.Y) {
					if _, isPhi := sh.X.(*ssa.Phi); isPhi {
						norm = i
						mant = sh.X
					}
				}
			}
		}
		c.R.Check("T-compact", "BigToCompact|normalisation branch", norm != nil, c.pos(f.Pos()), "a branch shifts the mantissa down by one byte and increments the exponent")
		if norm != nil {
			ok := true
			var bad uint64
			for _, m := range []uint64{0, 1, 0x7fffff, 0x800000, 0x800001, 0x8000ff, 0xabcdef, 0xffffff} {
				got, known := evalU(norm.Cond, map[ssa.Value]uint64{mant: m}, 0)
				if !known {
					ok = false
					bad = m
					break
				}
				want := uint64(0)
				if m&0x800000 != 0 {
					want = 1
				}
				if got != want {
					ok = false
					bad = m
				}
			}
			det := "the branch is taken exactly for mantissas with bit 23 set (condition evaluated on the boundary values 0x7fffff, 0x800000, 0x800001, 0xffffff, ..)"
			if !ok {
				det = fmt.Sprintf("for mantissa %#x the normalisation condition does not equal (mantissa & 0x800000 != 0)", bad)
			}
			c.R.Check("T-compact", "BigToCompact|shift taken iff bit 23 set", ok, c.posOf(norm), det)
		}
	}
	consts := func(f *ssa.Function) map[uint64]bool {
		set := map[uint64]bool{}
		if f == nil {
			return set
		}
		for _, b := range f.Blocks {
			for _, in := range b.Instrs {
				bo, ok := in.(*ssa.BinOp)
				if !ok {
					continue
				}
				for _, op := range []ssa.Value{bo.X, bo.Y} {
					if k, ok := op.(*ssa.Const); ok && k.Value != nil && k.Value.Kind() == constant.Int {
						if u, ok := constant.Uint64Val(k.Value); ok {
							set[u] = true
						}
					}
				}
			}
		}
		return set
	}
	b2c, c2b := consts(c.fn(bc, "", "BigToCompact")), consts(c.fn(bc, "", "CompactToBig"))
	c.R.Check("T-compact", "layout constants agree", b2c[0x00800000] && b2c[24] && c2b[0x00800000] && c2b[0x007fffff] && c2b[24], "blockchain/difficulty.go", "both functions use the sign bit 0x00800000 and the exponent shift 24; the decoder masks the mantissa with 0x007fffff")
}

// sameBig: two *big.Int operands denote the same object (same SSA value after unwrapping loads).
func sameBig(a, b ssa.Value) bool {
	return ssau.Unwrap(a) == ssau.Unwrap(b)
}

// genesisCut removes the `prevNode == nil` short-cut of CheckBlockContext from consideration.
func genesisCut(f *ssa.Function) *ssau.Cut {
	cut := ssau.NewCut()
	for _, i := range ssau.Ifs(f) {
		if x, trueIsNil, ok := ssau.NilTest(i.Cond); ok && paramNamed(x, "prevNode") {
			cut.AddEdge(i.Block(), ssau.Arm(i, trueIsNil))
		}
	}
	return cut
}

// bigRelArm matches `x.Cmp(y) op k` where (x,y) are (A,B) or (B,A) and returns the arm on which the relation rel
// (a predicate on sign(A-B) in {-1,0,1}) is guaranteed. Equivalent spellings (swapped receiver, mirrored operator,
// comparison with -1/1) all match.
func bigRelArm(isA, isB func(ssa.Value) bool, rel func(c int) bool) IfArm {
	return func(i *ssa.If) (bool, bool) {
		cond, neg := ssau.StripNot(i.Cond)
		b, ok := cond.(*ssa.BinOp)
		if !ok {
			return false, false
		}
		var call *ssa.Call
		var k int64
		op := b.Op
		if cl, ok := ssau.Unwrap(b.X).(*ssa.Call); ok {
			if kv, ok := constVal64(b.Y); ok {
				call, k = cl, kv
			}
		} else if cl, ok := ssau.Unwrap(b.Y).(*ssa.Call); ok {
			if kv, ok := constVal64(b.X); ok {
				call, k = cl, kv
				op = mirror(op)
			}
		}
		if call == nil {
			return false, false
		}
		f := call.Call.StaticCallee()
		if f == nil || f.String() != "(*math/big.Int).Cmp" {
			return false, false
		}
		x, y := call.Call.Args[0], call.Call.Args[1]
		flip := 1
		switch {
		case isA(x) && isB(y):
		case isB(x) && isA(y):
			flip = -1
		default:
			return false, false
		}
		for _, arm := range []bool{true, false} {
			all, any := true, false
			for _, c := range []int{-1, 0, 1} {
				v, okc := cmp(op, int64(c), k)
				if !okc {
					return false, false
				}
				if (v != neg) == arm {
					any = true
					if !rel(c * flip) {
						all = false
					}
				}
			}
			if any && all {
				return true, arm
			}
		}
		return false, false
	}
}
