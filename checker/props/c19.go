package props

import (
	"fmt"
	"go/token"

	"elaverif/ssau"

	"golang.org/x/tools/go/ssa"
)

func init() {
	register(&Check{ID: "C19", Title: "Treaps behave as ordered maps; immutable treaps are persistent", Run: runC19})
}

const treapPkg = "database/internal/treap"

// freshNode: v is a *treapNode created in the current call: the result of newTreapNode / cloneTreapNode, an element
// of a local parent stack into which only fresh nodes were pushed, nil, or a phi of such values.
func freshNode(f *ssa.Function, v ssa.Value, seen map[ssa.Value]bool) bool {
	if seen[v] {
		return true // optimistic on cycles
	}
	seen[v] = true
	switch x := v.(type) {
	case *ssa.Const:
		return x.IsNil()
	case *ssa.Phi:
		for _, e := range x.Edges {
			if !freshNode(f, e, seen) {
				return false
			}
		}
		return true
	case *ssa.Call:
		g := x.Call.StaticCallee()
		if g == nil {
			return false
		}
		switch g.Name() {
		case "cloneTreapNode", "newTreapNode":
			return true
		default:
			// a package-level helper of the treap package all of whose returns are fresh nodes
			if g.Signature.Recv() == nil && g.Pkg == f.Pkg && len(g.Blocks) > 0 && len(g.Blocks) <= 20 {
				rets := ssau.Returns(g)
				if len(rets) == 0 {
					return false
				}
				for _, ret := range rets {
					if len(ret.Results) != 1 || !freshNode(g, ret.Results[0], seen) {
						return false
					}
				}
				return true
			}
		case "At", "Pop":
			if ssau.RecvName(ssau.CalleeObj(&x.Call)) != "parentStack" {
				return false
			}
			stack := x.Call.Args[0]
			// every Push on this stack pushes a fresh node
			n := 0
			for _, ci := range ssau.CallsIn(f, callPred(R{treapPkg, "parentStack", "Push"})) {
				if ci.Common().Args[0] != stack {
					continue
				}
				n++
				if !freshNode(f, ci.Common().Args[1], seen) {
					return false
				}
			}
			return n > 0
		}
	}
	return false
}

func runC19(c *Ctx) {
	c.R.Rule("O-persist", "no method of the immutable treap writes a field of a node that may be shared with an earlier version: the base of every treapNode field store in Immutable.Put / Delete is a node created in the same call (newTreapNode, cloneTreapNode, or taken from a local parent stack that only received such nodes); read-only methods store nothing")
	c.R.Rule("U-count", "in the mutable treap every change of the node count is paired with a change of totalSize on all paths through it, and both are reset together; Len and Size return exactly these fields; the immutable constructors receive count and size derived from the receiver's")
	c.R.Rule("G-range", "the positioning methods of the range iterator (First, Last, Next, Prev, Seek) report success only with the verdict of limitIterator() or seek() (which ends in limitIterator), never a bare true: a key outside [start, limit) is never handed out")
	for _, name := range []string{"First", "Last", "Next", "Prev", "Seek"} {
		f := c.fn(treapPkg, "Iterator", name)
		if f == nil {
			continue
		}
		bad := ""
		for _, ret := range ssau.Returns(f) {
			var leaves []ssa.Value
			phiLeaves(ssau.ResolveSpill(ret.Results[0]), map[ssa.Value]bool{}, &leaves)
			for _, l := range leaves {
				if k, ok := l.(*ssa.Const); ok {
					if k.Value != nil && k.Value.String() == "false" {
						continue
					}
					bad = c.posOf(ret)
					continue
				}
				if cl, ok := l.(*ssa.Call); ok {
					if g := cl.Call.StaticCallee(); g != nil && (g.Name() == "limitIterator" || g.Name() == "seek" || g.Name() == "First" || g.Name() == "Last") {
						continue
					}
				}
				bad = c.posOf(ret)
			}
		}
		det := "every result is false or the verdict of limitIterator()/seek()"
		if bad != "" {
			det = "the return at " + bad + " reports success without checking the node against the range"
		}
		c.R.Check("G-range", "Iterator."+name+"|success only through the range check", bad == "", c.pos(f.Pos()), det)
	}
	if f := c.fn(treapPkg, "Iterator", "seek"); f != nil {
		bad := ""
		for _, ret := range ssau.Returns(f) {
			var leaves []ssa.Value
			phiLeaves(ssau.ResolveSpill(ret.Results[0]), map[ssa.Value]bool{}, &leaves)
			for _, l := range leaves {
				if k, ok := l.(*ssa.Const); ok && k.Value != nil && k.Value.String() == "false" {
					continue
				}
				if cl, ok := l.(*ssa.Call); ok {
					if g := cl.Call.StaticCallee(); g != nil && g.Name() == "limitIterator" {
						continue
					}
				}
				bad = c.posOf(ret)
			}
		}
		c.R.Check("G-range", "Iterator.seek|success only through limitIterator", bad == "", c.pos(f.Pos()), "seek ends in limitIterator() on every successful path")
	}
	// A-bounds: First/Last seek their bound with the exact-match flag that agrees with how limitIterator treats
	// that bound (inclusive start, exclusive limit) and in the matching direction
	c.R.Rule("A-bounds", "Iterator.First seeks the start key and Iterator.Last the limit key with exactMatch equal to the inclusiveness limitIterator gives that bound (a key equal to an inclusive bound is in range, equal to an exclusive bound is not), First towards greater keys, Last towards smaller keys")
	if li := c.fn(treapPkg, "Iterator", "limitIterator"); li != nil {
		inclusive := map[string]*bool{}
		for _, i := range ssau.Ifs(li) {
			b, ok := i.Cond.(*ssa.BinOp)
			if !ok || !isConstInt(0)(b.Y) {
				continue
			}
			cl := staticCalleeNamed(ssau.Unwrap(b.X), "bytes.Compare")
			if cl == nil {
				continue
			}
			bound := ""
			for _, n := range []string{"startKey", "limitKey"} {
				if ssau.IsFieldOf(ssau.Unwrap(cl.Call.Args[1]), "Iterator", n) {
					bound = n
				}
			}
			if bound == "" {
				continue
			}
			// the true arm of the test invalidates the iterator; is equality (Compare == 0) on that arm?
			eqRejected, known := cmp(b.Op, 0, 0)
			if !known {
				continue
			}
			inc := !eqRejected
			inclusive[bound] = &inc
		}
		for _, m := range []struct {
			fn, bound string
			greater   bool
		}{{"First", "startKey", true}, {"Last", "limitKey", false}} {
			f := c.fn(treapPkg, "Iterator", m.fn)
			if f == nil {
				continue
			}
			inc := inclusive[m.bound]
			var site *ssa.Call
			for _, cl := range ssau.CallsIn(f, callPred(R{treapPkg, "Iterator", "seek"})) {
				if call, ok := cl.(*ssa.Call); ok && ssau.IsFieldOf(ssau.Unwrap(call.Call.Args[1]), "Iterator", m.bound) {
					site = call
				}
			}
			if inc == nil || site == nil {
				c.R.Undecided("A-bounds", "Iterator."+m.fn+"|seek of "+m.bound, c.pos(f.Pos()), "bound test in limitIterator or seek call not found")
				continue
			}
			exact, ok1 := site.Call.Args[2].(*ssa.Const)
			greater, ok2 := site.Call.Args[3].(*ssa.Const)
			ok := ok1 && ok2 && exact.Value.String() == fmt.Sprint(*inc) && greater.Value.String() == fmt.Sprint(m.greater)
			c.R.Check("A-bounds", "Iterator."+m.fn+"|seek flags agree with the range test", ok, c.posOf(site), fmt.Sprintf("limitIterator treats %s as inclusive=%v; %s seeks it with exactMatch=%v, greater=%v", m.bound, *inc, m.fn, site.Call.Args[2], site.Call.Args[3]))
		}
	}
	// R-reseek: a forced re-seek is consumed by the step that honours it
	c.R.Rule("R-reseek", "Iterator.Next and Iterator.Prev, when a forced re-seek is pending (seekKey != nil), clear seekKey before they re-seek: the re-seek happens once, later steps advance from the node found")
	for _, name := range []string{"Next", "Prev"} {
		f := c.fn(treapPkg, "Iterator", name)
		if f == nil {
			continue
		}
		isSeekKey := func(v ssa.Value) bool { return ssau.IsFieldOf(v, "Iterator", "seekKey") }
		var clears []ssa.Instruction
		for _, b := range f.Blocks {
			for _, in := range b.Instrs {
				if st, ok := in.(*ssa.Store); ok && isSeekKey(st.Addr) && ssau.IsNilConst(st.Val) {
					clears = append(clears, st)
				}
			}
		}
		cut := ssau.NewCut()
		for _, in := range clears {
			cut.AddInstr(in)
		}
		// a helper of the iterator that takes the pending key and clears it
		for _, b := range f.Blocks {
			for _, in := range b.Instrs {
				if cl, ok := in.(*ssa.Call); ok {
					if h := cl.Call.StaticCallee(); h != nil && h.Pkg == f.Pkg && h != f && len(h.Blocks) > 0 && len(h.Blocks) <= 12 {
						for _, hb := range h.Blocks {
							for _, hin := range hb.Instrs {
								if st, ok := hin.(*ssa.Store); ok && isSeekKey(st.Addr) && ssau.IsNilConst(st.Val) {
									cut.AddInstr(cl)
								}
							}
						}
					}
				}
			}
		}
		// the seek calls that take the pending key (an argument loaded from seekKey)
		n, bad := 0, ""
		r := ssau.ReachFromEntry(f, cut)
		for _, call := range ssau.CallsIn(f, callPred(R{treapPkg, "Iterator", "seek"})) {
			a := call.Common().Args
			if len(a) < 2 || !ssau.DependsOn(a[1], func(x ssa.Value) bool {
				u, ok := x.(*ssa.UnOp)
				return ok && u.Op == token.MUL && isSeekKey(u.X)
			}) {
				continue
			}
			n++
			if r.Instr(call) {
				bad = c.posOf(call)
			}
		}
		c.R.Check("R-reseek", "Iterator."+name+"|pending re-seek cleared before seeking", n > 0 && bad == "", c.pos(f.Pos()), fmt.Sprintf("%d re-seek call(s) on the pending key; reachable without seekKey = nil first: %q", n, bad))
	}
	nStores := 0
	for _, f := range c.pkgFuncs(treapPkg) {
		root := f
		for root.Parent() != nil {
			root = root.Parent()
		}
		if root.Signature.Recv() == nil || ssau.TypeName(root.Signature.Recv().Type()) != "Immutable" {
			continue
		}
		k := 0
		for _, b := range f.Blocks {
			for _, in := range b.Instrs {
				st, ok := in.(*ssa.Store)
				if !ok {
					continue
				}
				fa, ok := st.Addr.(*ssa.FieldAddr)
				if !ok || ssau.TypeName(fa.X.Type()) != "treapNode" {
					continue
				}
				// only *treapNode bases
				nStores++
				k++
				ok2 := freshNode(f, fa.X, map[ssa.Value]bool{})
				det := "the written node was created in this call"
				if !ok2 {
					det = "the written node may be one that earlier versions of the treap still reference (not provably created in this call)"
				}
				c.R.Check("O-persist", fmt.Sprintf("%s|store#%d to treapNode.%s", short(fname(root)), k, ownerFieldName(fa)), ok2, c.posOf(st), det)
			}
		}
	}
	// node field stores in package-level helpers that Immutable methods call: a store through a parameter is
	// judged at every call site in an Immutable method by the freshness of the argument
	for _, f := range c.pkgFuncs(treapPkg) {
		if f.Parent() != nil || f.Signature.Recv() == nil || ssau.TypeName(f.Signature.Recv().Type()) != "Immutable" {
			continue
		}
		seenH := map[*ssa.Function]bool{}
		for _, b := range f.Blocks {
			for _, in := range b.Instrs {
				cl, ok := in.(*ssa.Call)
				if !ok {
					continue
				}
				h := cl.Call.StaticCallee()
				if h == nil || h.Pkg != f.Pkg || h.Signature.Recv() != nil || len(h.Blocks) == 0 || h.Name() == "cloneTreapNode" || h.Name() == "newTreapNode" {
					continue
				}
				k := 0
				for _, hb := range h.Blocks {
					for _, hin := range hb.Instrs {
						st, ok := hin.(*ssa.Store)
						if !ok {
							continue
						}
						fa, ok := st.Addr.(*ssa.FieldAddr)
						if !ok || ssau.TypeName(fa.X.Type()) != "treapNode" {
							continue
						}
						k++
						ok2 := false
						if p, isP := fa.X.(*ssa.Parameter); isP {
							for pi, hp := range h.Params {
								if hp == p && pi < len(cl.Call.Args) {
									ok2 = freshNode(f, cl.Call.Args[pi], map[ssa.Value]bool{})
								}
							}
						} else {
							ok2 = freshNode(h, fa.X, map[ssa.Value]bool{})
						}
						if !seenH[h] {
							nStores++
						}
						c.R.Check("O-persist", fmt.Sprintf("%s|via %s store#%d to treapNode.%s", short(fname(f)), h.Name(), k, ownerFieldName(fa)), ok2, c.posOf(cl),
							"the node written inside the helper is an argument created in this call (or created in the helper)")
					}
				}
				seenH[h] = true
			}
		}
	}
	c.R.FloorCheck("O-persist node field stores in Immutable methods", nStores, 10)

	// U-count
	isCount := func(v ssa.Value) bool { return ssau.IsFieldOf(v, "Mutable", "count") }
	isSize := func(v ssa.Value) bool { return ssau.IsFieldOf(v, "Mutable", "totalSize") }
	nc := 0
	for _, f := range c.pkgFuncs(treapPkg) {
		if f.Signature.Recv() == nil || ssau.TypeName(f.Signature.Recv().Type()) != "Mutable" {
			continue
		}
		var cs, ss []ssa.Instruction
		for _, b := range f.Blocks {
			for _, in := range b.Instrs {
				if st, ok := in.(*ssa.Store); ok {
					if isCount(st.Addr) {
						cs = append(cs, in)
					}
					if isSize(st.Addr) {
						ss = append(ss, in)
					}
				}
			}
		}
		for k, cst := range cs {
			nc++
			cut := ssau.NewCut()
			for _, s := range ss {
				cut.AddInstr(s)
			}
			after := ssau.ReachAfter(f, cst, cut)
			bad := false
			for _, ret := range ssau.Returns(f) {
				if after.Instr(ret) {
					bad = true
				}
			}
			// the size store may precede the count store in the same block
			if bad {
				for _, s := range ss {
					if s.Block() == cst.Block() {
						bad = false
					}
				}
			}
			detP := "every path through the count change also changes totalSize"
			if bad {
				detP = "a path changes the node count without changing totalSize"
			}
			c.R.Check("U-count", fmt.Sprintf("%s|count change#%d paired with totalSize", short(fname(f)), k+1), !bad, c.posOf(cst), detP)
			// direction agrees: count+1 with size += nodeSize, count-1 with size -=
			st := cst.(*ssa.Store)
			if bo, ok := st.Val.(*ssa.BinOp); ok {
				var dir token.Token = bo.Op
				okDir := false
				for _, s := range ss {
					if s.Block() != cst.Block() {
						continue
					}
					if sb, ok := s.(*ssa.Store).Val.(*ssa.BinOp); ok && sb.Op == dir && ssau.IsCallTo(ssau.Unwrap(sb.Y), callPred(R{treapPkg, "", "nodeSize"})) {
						okDir = true
					}
				}
				c.R.Check("U-count", fmt.Sprintf("%s|count change#%d same direction as totalSize by nodeSize", short(fname(f)), k+1), okDir, c.posOf(cst), "count "+dir.String()+" 1 goes with totalSize "+dir.String()+" nodeSize(node)")
			}
		}
	}
	c.R.FloorCheck("U-count count stores in Mutable", nc, 4)
	for _, g := range []struct{ recv, name, field string }{{"Mutable", "Len", "count"}, {"Mutable", "Size", "totalSize"}, {"Immutable", "Len", "count"}, {"Immutable", "Size", "totalSize"}} {
		f := c.fn(treapPkg, g.recv, g.name)
		if f == nil {
			continue
		}
		ok := true
		for _, ret := range ssau.Returns(f) {
			if !ssau.IsFieldOf(ssau.Unwrap(ret.Results[0]), g.recv, g.field) {
				ok = false
			}
		}
		c.R.Check("U-count", g.recv+"."+g.name+"|returns "+g.field, ok, c.pos(f.Pos()), "the accessor returns the accounting field itself")
	}
	// immutable constructors: Put/Delete derive the new count/size from the receiver's
	for _, name := range []string{"Put", "Delete"} {
		f := c.fn(treapPkg, "Immutable", name)
		if f == nil {
			continue
		}
		n := 0
		ok := true
		for _, cl := range ssau.CallsIn(f, callPred(R{treapPkg, "", "newImmutable"})) {
			a := cl.Common().Args
			if isNilOrZero(a[0]) {
				continue // the empty treap
			}
			n++
			if isConstInt(1)(a[1]) && ssau.IsCallTo(ssau.Unwrap(a[2]), callPred(R{treapPkg, "", "nodeSize"})) {
				continue // first node of an empty treap
			}
			if !ssau.DependsOn(a[1], func(y ssa.Value) bool { return ssau.IsFieldOf(y, "Immutable", "count") }) || !ssau.DependsOn(a[2], func(y ssa.Value) bool { return ssau.IsFieldOf(y, "Immutable", "totalSize") }) {
				ok = false
			}
		}
		c.R.Check("U-count", "Immutable."+name+"|new version's count and size derive from the receiver's", ok && n >= 1, c.pos(f.Pos()), fmt.Sprintf("%d non-empty newImmutable call(s)", n))
	}
}

func isNilOrZero(v ssa.Value) bool {
	k, ok := v.(*ssa.Const)
	return ok && (k.IsNil() || isConstInt(0)(v))
}

func ownerFieldName(fa *ssa.FieldAddr) string {
	s := ownerField(fa)
	for i := len(s) - 1; i >= 0; i-- {
		if s[i] == '.' {
			return s[i+1:]
		}
	}
	return s
}
