// Package props holds one file per property: the rule instances (anchors,
// tables, idioms) evaluated with the generic engines.
package props

import (
	"fmt"
	"go/token"
	"go/types"
	"sort"
	"strings"

	"elaverif/core"
	"elaverif/ssau"

	"golang.org/x/tools/go/ssa"
)

// Ctx is handed to every property check.
type Ctx struct {
	iterDepth int // recursion guard of iterMustPass into helpers
	P         *core.Program
	R         *core.Report
	Tier      string
}

// Check is a property check entry point.
type Check struct {
	ID    string
	Title string
	Run   func(c *Ctx)
	// NeedsCG marks checks that use the VTA call graph (slower).
	NeedsCG bool
}

var registry = map[string]*Check{}

func register(ch *Check) { registry[ch.ID] = ch }

// Lookup returns the registered check.
func Lookup(id string) *Check { return registry[id] }

// IDs lists registered property ids.
func IDs() []string {
	var out []string
	for k := range registry {
		out = append(out, k)
	}
	sort.Strings(out)
	return out
}

type R = ssau.FuncRef

func (c *Ctx) thorough() bool { return c.Tier == "thorough" }

// fn resolves an anchor function; unresolved anchors are recorded as failures.
func (c *Ctx) fn(rel, recv, name string) *ssa.Function {
	f := c.P.Func(rel, recv, name)
	if (f == nil || len(f.Blocks) == 0) && recv != "" {
		// the method may have been turned into a plain function of the package taking its receiver's data
		if g := c.P.Func(rel, "", name); g != nil && len(g.Blocks) > 0 {
			f = g
		}
	}
	label := rel + "." + name
	if recv != "" {
		label = rel + ".(" + recv + ")." + name
	}
	if !c.R.Anchor(label, f != nil && len(f.Blocks) > 0) {
		return nil
	}
	return f
}

func (c *Ctx) pos(p token.Pos) string { return c.P.Pos(p) }

func (c *Ctx) posOf(in ssa.Instruction) string {
	if in == nil {
		return "?"
	}
	if in.Pos().IsValid() {
		return c.P.Pos(in.Pos())
	}
	// fall back to any instruction in the block
	for _, x := range in.Block().Instrs {
		if x.Pos().IsValid() {
			return c.P.Pos(x.Pos())
		}
	}
	return c.P.Pos(in.Parent().Pos())
}

func fname(f *ssa.Function) string { return core.FuncName(f) }

// G1Opt tunes a must-pass rule.
type G1Opt struct {
	// PassVal is the boolean meaning "passed" for bool-returning required calls.
	PassVal bool
	// Idx overrides the verdict index of the analysed function when HasIdx.
	Idx    int
	HasIdx bool
	// BoolSuccess: for bool-returning analysed functions, which value is "accept".
	BoolSuccess bool
	// Base is an extra cut applied before the query (e.g. removing an exempt exit).
	Base *ssau.Cut
	// IgnoreExit filters success exits that the rule does not cover.
	IgnoreExit func(*ssa.Return) bool
	// AllowUnchecked: a required call with no verdict use still counts as pass-through (plain G1).
	Plain bool
	// Extra exit classifier hook.
	Extra func(v ssa.Value) int
}

func (c *Ctx) classifier(fn *ssa.Function, opt G1Opt) *ssau.ExitClassifier {
	idx := ssau.VerdictIndex(fn.Signature)
	if opt.HasIdx {
		idx = opt.Idx
	}
	return &ssau.ExitClassifier{Fn: fn, Idx: idx, BoolSuccess: opt.BoolSuccess, Extra: opt.Extra}
}

// G1s: every success exit of fn is reached only after one of the calls
// matched by pred has been made AND has passed (its verdict is tested and the
// failing arm cannot reach a success exit, or its verdict is returned).
func (c *Ctx) G1s(rule, key string, fn *ssa.Function, what string, pred func(*ssa.CallCommon) bool, opt G1Opt) bool {
	if fn == nil {
		return false
	}
	calls := ssau.CallsIn(fn, pred)
	if len(calls) == 0 {
		c.R.Check(rule, key, false, c.pos(fn.Pos()), fmt.Sprintf("%s: no call to %s", fname(fn), what))
		return false
	}
	var cut *ssau.Cut
	var unchecked []ssa.CallInstruction
	if opt.Plain {
		cut = ssau.NewCut()
		for _, ci := range calls {
			cut.AddInstr(ci)
		}
	} else {
		cut, unchecked = ssau.CheckedCut(fn, calls, opt.PassVal)
	}
	if opt.Base != nil {
		for e := range opt.Base.Edges {
			cut.Edges[e] = true
		}
		for i := range opt.Base.Instrs {
			cut.Instrs[i] = true
		}
	}
	ec := c.classifier(fn, opt)
	r := ssau.ReachFromEntry(fn, cut)
	succ := ec.SuccessExitsIn(r, cut)
	var bad []*ssa.Return
	for _, s := range succ {
		if opt.IgnoreExit != nil && opt.IgnoreExit(s) {
			continue
		}
		bad = append(bad, s)
	}
	if len(bad) == 0 {
		c.R.Check(rule, key, true, c.posOf(calls[0]), fmt.Sprintf("%s: every success exit passes a checked call to %s (%d call sites)", fname(fn), what, len(calls)))
		return true
	}
	det := fmt.Sprintf("%s: success exit at %s reachable without a passed call to %s; path %s", fname(fn), c.posOf(bad[0]), what,
		ssau.DescribePath(fn, r.Path(bad[0].Block()), c.pos))
	if len(unchecked) > 0 {
		det += fmt.Sprintf("; verdict of call at %s is neither tested nor returned", c.posOf(unchecked[0]))
	}
	c.R.Check(rule, key, false, c.posOf(bad[0]), det)
	return false
}

// IfArm selects, for an If instruction, whether it is relevant and which arm
// value (true/false) is the *required* arm.
type IfArm func(i *ssa.If) (match bool, requiredArm bool)

// G2: instruction target is reachable only through the required arm of at
// least one... precisely: after deleting the required-arm edge of every
// matching If, target is unreachable. Requires >=1 matching If.
func (c *Ctx) G2(rule, key string, fn *ssa.Function, target ssa.Instruction, what string, sel IfArm) bool {
	if fn == nil || target == nil {
		c.R.Check(rule, key, false, "?", "target instruction for "+what+" not found")
		return false
	}
	cut := ssau.NewCut()
	n := c.matchGuards(fn, sel, cut, 0)
	if n == 0 {
		c.R.Check(rule, key, false, c.posOf(target), fmt.Sprintf("%s: no branch on %s found", fname(fn), what))
		return false
	}
	r := ssau.ReachFromEntry(fn, cut)
	if r.Instr(target) {
		c.R.Check(rule, key, false, c.posOf(target), fmt.Sprintf("%s: %s reachable without passing guard %s; path %s", fname(fn), c.posOf(target), what,
			ssau.DescribePath(fn, r.Path(target.Block()), c.pos)))
		return false
	}
	c.R.Check(rule, key, true, c.posOf(target), fmt.Sprintf("%s: guarded by %s (%d branch(es))", fname(fn), what, n))
	return true
}

// GuardSuccess: every success exit of fn is only reachable through the
// required arm of the matching branches.
func (c *Ctx) GuardSuccess(rule, key string, fn *ssa.Function, what string, sel IfArm, opt G1Opt) bool {
	if fn == nil {
		return false
	}
	cut := ssau.NewCut()
	if opt.Base != nil {
		cut = opt.Base.Clone()
	}
	var at ssa.Instruction
	n := c.matchGuards(fn, sel, cut, 0)
	for _, i := range ssau.Ifs(fn) {
		if m, _ := safeSel(sel, i); m {
			at = i
		}
	}
	ec := c.classifier(fn, opt)
	// a boolean verdict returned as the comparison itself: `return a == b` is guarded by a == b
	retGuarded := map[*ssa.Return]bool{}
	if ec.Idx >= 0 {
		for _, ret := range ssau.Returns(fn) {
			if ec.Idx >= len(ret.Results) {
				continue
			}
			v := ssau.ResolveSpill(ret.Results[ec.Idx])
			if _, isConst := v.(*ssa.Const); isConst {
				continue
			}
			if bt, ok := v.Type().Underlying().(*types.Basic); !ok || bt.Kind() != types.Bool {
				continue
			}
			if m, arm := safeSel(sel, &ssa.If{Cond: v}); m && arm == opt.BoolSuccess {
				retGuarded[ret] = true
				n++
				if at == nil {
					at = ret
				}
			}
		}
	}
	r := ssau.ReachFromEntry(fn, cut)
	succ := ec.SuccessExitsIn(r, cut)
	if n == 0 {
		// the guard may sit entirely inside predicate helpers whose verdict is returned
		all := len(succ) > 0 && ec.IsBoolVerdict()
		for _, s := range succ {
			if !c.exitValueGuarded(fn, s, ec.Idx, sel, opt.BoolSuccess, r, 0) {
				all = false
			}
		}
		if !all {
			c.R.Check(rule, key, false, c.pos(fn.Pos()), fmt.Sprintf("%s: no branch on %s found", fname(fn), what))
			return false
		}
		n = 1
		at = succ[0]
	}
	for _, s := range succ {
		if retGuarded[s] {
			continue
		}
		if opt.IgnoreExit != nil && opt.IgnoreExit(s) {
			continue
		}
		if ec.IsBoolVerdict() && c.exitValueGuarded(fn, s, ec.Idx, sel, opt.BoolSuccess, r, 0) {
			continue
		}
		c.R.Check(rule, key, false, c.posOf(s), fmt.Sprintf("%s: success exit at %s reachable without guard %s; path %s", fname(fn), c.posOf(s), what,
			ssau.DescribePath(fn, r.Path(s.Block()), c.pos)))
		return false
	}
	c.R.Check(rule, key, true, c.posOf(at), fmt.Sprintf("%s: all success exits guarded by %s (%d branch(es))", fname(fn), what, n))
	return true
}

// ---- condition matchers ----------------------------------------------------

// condCall: If condition (modulo NOT) is the result of a call matched by pred.
// requiredVal is the value the call result must have on the required arm.
func condCall(pred func(*ssa.CallCommon) bool, requiredVal bool) IfArm {
	return func(i *ssa.If) (bool, bool) {
		x, neg := ssau.StripNot(i.Cond)
		if ssau.IsCallTo(x, pred) {
			return true, requiredVal != neg
		}
		return false, false
	}
}

// condCmp matches a comparison If whose operands satisfy l and r (in either
// order, with the operator mirrored) and whose operator, normalised to
// "l OP r", is in ops. requiredVal is the truth value of "l OP r" on the
// required arm, where OP is the first operator of ops' canonical form. To keep
// it simple the matcher reports the arm on which "l op0 r" holds == requiredVal.
func condCmp(l, r func(ssa.Value) bool, op0 token.Token, requiredVal bool) IfArm {
	return func(i *ssa.If) (bool, bool) {
		x, neg := ssau.StripNot(i.Cond)
		b, ok := x.(*ssa.BinOp)
		if !ok {
			return false, false
		}
		op := b.Op
		var lv, rv ssa.Value = b.X, b.Y
		if !(l(lv) && r(rv)) {
			if l(rv) && r(lv) {
				lv, rv = rv, lv
				op = mirror(op)
			} else {
				return false, false
			}
		}
		// truth of "l op0 r" as a function of the truth of "l op r"
		same, known := relate(op, op0)
		if !known {
			return false, false
		}
		// cond true => (l op r) true (xor neg)
		// arm where (l op0 r) == requiredVal:
		//   (l op r) == (requiredVal == same)
		want := requiredVal == same
		return true, want != neg
	}
}

func mirror(op token.Token) token.Token {
	switch op {
	case token.LSS:
		return token.GTR
	case token.GTR:
		return token.LSS
	case token.LEQ:
		return token.GEQ
	case token.GEQ:
		return token.LEQ
	}
	return op
}

// relate: is "a op b" equivalent to "a op0 b" (same=true) or to its negation (same=false)?
func relate(op, op0 token.Token) (same bool, known bool) {
	if op == op0 {
		return true, true
	}
	neg := map[token.Token]token.Token{token.LSS: token.GEQ, token.GEQ: token.LSS, token.GTR: token.LEQ, token.LEQ: token.GTR, token.EQL: token.NEQ, token.NEQ: token.EQL}
	if neg[op] == op0 {
		return false, true
	}
	return false, false
}

func anyVal(ssa.Value) bool { return true }

func isConstInt(n int64) func(ssa.Value) bool {
	return func(v ssa.Value) bool {
		c, ok := v.(*ssa.Const)
		if !ok || c.Value == nil {
			return false
		}
		i, ok2 := constInt(c)
		return ok2 && i == n
	}
}

func constInt(c *ssa.Const) (int64, bool) {
	if c.Value == nil {
		return 0, false
	}
	if b, ok := c.Type().Underlying().(*types.Basic); ok && b.Info()&types.IsInteger != 0 {
		return c.Int64(), true
	}
	return 0, false
}

// dependsOnCall: value's backward slice contains a call matched by pred.
func dependsOnCall(pred func(*ssa.CallCommon) bool) func(ssa.Value) bool {
	return func(v ssa.Value) bool {
		return ssau.DependsOn(v, func(x ssa.Value) bool { return ssau.IsCallTo(x, pred) })
	}
}

func dependsOnField(tname, fname string) func(ssa.Value) bool {
	return func(v ssa.Value) bool {
		return ssau.DependsOn(v, func(x ssa.Value) bool { return ssau.IsFieldOf(x, tname, fname) })
	}
}

func dependsOnParam(name string) func(ssa.Value) bool {
	return func(v ssa.Value) bool {
		return ssau.DependsOn(v, func(x ssa.Value) bool {
			p, ok := x.(*ssa.Parameter)
			return ok && p.Name() == name
		})
	}
}

// isLenOf: v is len(x) where x satisfies inner.
func isLenOf(inner func(ssa.Value) bool) func(ssa.Value) bool {
	return func(v ssa.Value) bool {
		v = ssau.Unwrap(v)
		c, ok := v.(*ssa.Call)
		if !ok {
			return false
		}
		b, ok := c.Call.Value.(*ssa.Builtin)
		if !ok || b.Name() != "len" {
			return false
		}
		return inner(c.Call.Args[0])
	}
}

func callPred(refs ...R) func(*ssa.CallCommon) bool { return ssau.MatchAny(refs...) }

func firstCall(fn *ssa.Function, pred func(*ssa.CallCommon) bool) ssa.Instruction {
	cs := ssau.CallsIn(fn, pred)
	if len(cs) == 0 {
		return nil
	}
	return cs[0]
}

func short(s string) string {
	return strings.ReplaceAll(s, core.Mod+"/", "")
}

// safeSel applies a branch selector, tolerating selectors that look at the instruction's block when given a
// synthetic If (used for returned conditions).
func safeSel(sel IfArm, i *ssa.If) (m bool, arm bool) {
	defer func() {
		if recover() != nil {
			m, arm = false, false
		}
	}()
	return sel(i)
}

// matchGuards adds to cut the required-arm edge of every branch of fn that (a) is matched by sel directly, or
// (b) tests the verdict (error / bool) of a call to a small helper of the repository whose own success exits are
// all guarded by sel - the guard was extracted into the helper. Returns the number of branches found.
func (c *Ctx) matchGuards(fn *ssa.Function, sel IfArm, cut *ssau.Cut, depth int) int {
	n, _ := c.matchGuardsA(fn, sel, cut, depth)
	return n
}

// matchGuardsA is matchGuards that also returns the branches of fn whose required arm was cut.
func (c *Ctx) matchGuardsA(fn *ssa.Function, sel IfArm, cut *ssau.Cut, depth int) (int, []*ssa.If) {
	n := 0
	var anchors []*ssa.If
	for _, i := range ssau.Ifs(fn) {
		if m, arm := safeSel(sel, i); m {
			n++
			anchors = append(anchors, i)
			cut.AddEdge(i.Block(), ssau.Arm(i, arm))
		}
	}
	if depth >= 2 {
		return n, anchors
	}
	for _, b := range fn.Blocks {
		for _, in := range b.Instrs {
			cl, ok := in.(*ssa.Call)
			if !ok {
				continue
			}
			h := cl.Call.StaticCallee()
			if h == nil || h == fn || h.Pkg == nil || len(h.Blocks) == 0 || len(h.Blocks) > 40 || !strings.HasPrefix(h.Pkg.Pkg.Path(), core.Mod) {
				continue
			}
			for _, idx := range ssau.VerdictIndexes(h.Signature) {
				idx := idx
				// does the helper let a success exit through without the guard? (its parameters stand for the arguments)
				ssau.WithParamSubst(cl, func() {
					hc := ssau.NewCut()
					if c.matchGuards(h, sel, hc, depth+1) == 0 {
						// the helper may return the guarding comparison itself
						hc = nil
					}
					for _, boolSucc := range []bool{true, false} {
						ec := &ssau.ExitClassifier{Fn: h, Idx: idx, BoolSuccess: boolSucc}
						if !ec.IsBoolVerdict() && !boolSucc {
							continue
						}
						guarded := false
						if hc != nil {
							r := ssau.ReachFromEntry(h, hc)
							guarded = len(ec.SuccessExitsIn(r, hc)) == 0
						}
						if !guarded && ec.IsBoolVerdict() {
							// every value the helper can return as boolSucc is a condition matched by sel with that polarity
							// (directly, joined from several paths, or delegated to a further helper)
							hcut := hc
							if hcut == nil {
								hcut = ssau.NewCut()
							}
							hr := ssau.ReachFromEntry(h, hcut)
							all, any := true, false
							for _, sx := range ec.SuccessExitsIn(hr, hcut) {
								if c.exitValueGuarded(h, sx, idx, sel, boolSucc, hr, depth+1) {
									any = true
								} else {
									all = false
								}
							}
							guarded = all && any
						}
						if !guarded {
							continue
						}
						// the helper's success (nil / boolSucc) implies the guard: the pass edges of its verdict in fn count
						for _, v := range ssau.ResultValues(cl, idx) {
							edges, tested := ssau.PassEdges(fn, v, boolSucc)
							if tested {
								for _, e := range edges {
									cut.AddEdge(e[0], e[1])
									if iff, ok := e[0].Instrs[len(e[0].Instrs)-1].(*ssa.If); ok {
										anchors = append(anchors, iff)
									}
								}
								n++
							}
						}
					}
				})
			}
		}
	}
	return n, anchors
}

// relocate returns the function in which a construct anchored at f lives now: f itself when it contains a call
// matched by pred, otherwise the first same-package function statically called from f (to depth 2) that does.
// Rules anchored at a named function stay attached to their construct when its body is split into helpers.
func (c *Ctx) relocate(f *ssa.Function, pred func(*ssa.CallCommon) bool) *ssa.Function {
	return c.relocateBy(f, func(g *ssa.Function) bool { return len(ssau.CallsIn(g, pred)) > 0 })
}

// relocateBy is relocate with an arbitrary "the construct is here" test.
func (c *Ctx) relocateBy(f *ssa.Function, has func(*ssa.Function) bool) *ssa.Function {
	if f == nil || has(f) {
		return f
	}
	seen := map[*ssa.Function]bool{f: true}
	level := []*ssa.Function{f}
	for depth := 0; depth < 2; depth++ {
		var next []*ssa.Function
		for _, g := range level {
			for _, b := range g.Blocks {
				for _, in := range b.Instrs {
					ci, ok := in.(ssa.CallInstruction)
					if !ok {
						continue
					}
					h := ci.Common().StaticCallee()
					if h == nil || h.Pkg != f.Pkg || seen[h] || len(h.Blocks) == 0 {
						continue
					}
					seen[h] = true
					if has(h) {
						return h
					}
					next = append(next, h)
				}
			}
		}
		level = next
	}
	return f
}

// relocateVia is relocateBy to depth 1 that also returns the call in f through which the helper is reached (nil
// when the construct is still in f): run role predicates inside ssau.WithParamSubst(via, ...) so that the helper's
// parameters stand for f's values.
func (c *Ctx) relocateVia(f *ssa.Function, has func(*ssa.Function) bool) (*ssa.Function, *ssa.Call) {
	if f == nil || has(f) {
		return f, nil
	}
	for _, b := range f.Blocks {
		for _, in := range b.Instrs {
			cl, ok := in.(*ssa.Call)
			if !ok {
				continue
			}
			h := cl.Call.StaticCallee()
			if h == nil || h.Pkg != f.Pkg || h == f || len(h.Blocks) == 0 {
				continue
			}
			if has(h) {
				return h, cl
			}
		}
	}
	return f, nil
}

// withVia runs fn with the parameter substitution of via (if any).
func withVia(via *ssa.Call, fn func()) {
	if via != nil {
		ssau.WithParamSubst(via, fn)
		return
	}
	fn()
}

// orWrappers widens a call predicate to thin wrappers: one-block functions of the repository whose every result
// is the result of a single call matched by pred (a renamed or re-scoped delegation).
func orWrappers(pred func(*ssa.CallCommon) bool) func(*ssa.CallCommon) bool {
	return func(cm *ssa.CallCommon) bool {
		if pred(cm) {
			return true
		}
		h := cm.StaticCallee()
		if h == nil || h.Pkg == nil || len(h.Blocks) != 1 || !strings.HasPrefix(h.Pkg.Pkg.Path(), core.Mod) {
			return false
		}
		ret, ok := h.Blocks[0].Instrs[len(h.Blocks[0].Instrs)-1].(*ssa.Return)
		if !ok || len(ret.Results) == 0 {
			return false
		}
		var inner *ssa.Call
		for _, r := range ret.Results {
			v := ssau.Unwrap(r)
			if e, ok := v.(*ssa.Extract); ok {
				v = e.Tuple
			}
			cl, ok := v.(*ssa.Call)
			if !ok || !pred(&cl.Call) || (inner != nil && inner != cl) {
				return false
			}
			inner = cl
		}
		return inner != nil
	}
}

// exitValueGuarded: the verdict value returned at ret can equal boolSucc only when the guard holds: every phi
// edge reachable under r is a constant failure, a condition matched by sel with the success polarity, or the
// verdict of a repository helper all of whose success exits are guarded in the same sense.
func (c *Ctx) exitValueGuarded(fn *ssa.Function, ret *ssa.Return, idx int, sel IfArm, boolSucc bool, r *ssau.Reach, depth int) bool {
	if idx < 0 || idx >= len(ret.Results) {
		return false
	}
	v := ssau.ResolveSpill(ret.Results[idx])
	if phi, ok := v.(*ssa.Phi); ok && phi.Block() == ret.Block() {
		for k, e := range phi.Edges {
			p := phi.Block().Preds[k]
			if r != nil && !r.EdgeReachable(p, phi.Block()) {
				continue
			}
			if !c.valueGuarded(e, sel, boolSucc, depth) {
				return false
			}
		}
		return true
	}
	return c.valueGuarded(v, sel, boolSucc, depth)
}

func (c *Ctx) valueGuarded(v ssa.Value, sel IfArm, boolSucc bool, depth int) bool {
	if k, ok := v.(*ssa.Const); ok {
		return k.Value != nil && k.Value.String() != fmt.Sprint(boolSucc)
	}
	if m, arm := safeSel(sel, &ssa.If{Cond: v}); m && arm == boolSucc {
		return true
	}
	if u, ok := v.(*ssa.UnOp); ok && u.Op == token.NOT {
		return c.valueGuarded(u.X, sel, !boolSucc, depth)
	}
	cl, ok := v.(*ssa.Call)
	if !ok || depth >= 2 {
		return false
	}
	h := cl.Call.StaticCallee()
	if h == nil || h.Pkg == nil || len(h.Blocks) == 0 || len(h.Blocks) > 40 || !strings.HasPrefix(h.Pkg.Pkg.Path(), core.Mod) || h.Signature.Results().Len() != 1 {
		return false
	}
	guarded := false
	ssau.WithParamSubst(cl, func() {
		cut := ssau.NewCut()
		c.matchGuards(h, sel, cut, depth+1)
		ec := &ssau.ExitClassifier{Fn: h, Idx: 0, BoolSuccess: boolSucc}
		if !ec.IsBoolVerdict() {
			return
		}
		r := ssau.ReachFromEntry(h, cut)
		guarded = true
		for _, s := range ec.SuccessExitsIn(r, cut) {
			if !c.exitValueGuarded(h, s, 0, sel, boolSucc, r, depth+1) {
				guarded = false
			}
		}
	})
	return guarded
}

// blockComment is the comment of the block a branch sits in ("" for a synthetic branch without a block).
func blockComment(i *ssa.If) string {
	if i == nil || i.Block() == nil {
		return ""
	}
	return i.Block().Comment
}
