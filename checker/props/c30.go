package props

import (
	"fmt"
	"go/token"
	"sort"
	"strings"

	"elaverif/core"
	"elaverif/ssau"

	"golang.org/x/tools/go/ssa"
)

func init() {
	register(&Check{ID: "C30", Title: "Irreversible blocks are never detached", Run: runC30})
	register(&Check{ID: "C12", Title: "The node follows the most-work valid chain", Run: runC12})
}

// staticCallers lists (function, call) pairs of static calls to target in node packages.
func (c *Ctx) staticCallers(target *ssa.Function) map[*ssa.Function][]ssa.CallInstruction {
	out := map[*ssa.Function][]ssa.CallInstruction{}
	for f := range c.P.AllFuncs() {
		root := f
		for root.Parent() != nil {
			root = root.Parent()
		}
		if !nodeFunc(root) {
			continue
		}
		for _, b := range f.Blocks {
			for _, in := range b.Instrs {
				ci, ok := in.(ssa.CallInstruction)
				if !ok {
					continue
				}
				if ci.Common().StaticCallee() == target {
					out[f] = append(out[f], ci)
					continue
				}
				// method value / closure reference
				for _, op := range in.Operands(nil) {
					if mc, ok := (*op).(*ssa.MakeClosure); ok {
						if fn, ok := mc.Fn.(*ssa.Function); ok && (fn == target || (fn.Synthetic != "" && fn.Object() == target.Object())) {
							out[f] = append(out[f], ci)
						}
					}
				}
			}
		}
	}
	return out
}

func (c *Ctx) invokeCallers(ifaceMethod string) map[*ssa.Function][]ssa.CallInstruction {
	out := map[*ssa.Function][]ssa.CallInstruction{}
	for f := range c.P.AllFuncs() {
		root := f
		for root.Parent() != nil {
			root = root.Parent()
		}
		if !nodeFunc(root) {
			continue
		}
		for _, b := range f.Blocks {
			for _, in := range b.Instrs {
				if ci, ok := in.(ssa.CallInstruction); ok {
					if o := ssau.CalleeObj(ci.Common()); o != nil && o.Name() == ifaceMethod {
						out[f] = append(out[f], ci)
					}
				}
			}
		}
	}
	return out
}

func callerNames(m map[*ssa.Function][]ssa.CallInstruction) []string {
	var out []string
	for f := range m {
		out = append(out, fname(f))
	}
	sort.Strings(out)
	return out
}

func runC30(c *Ctx) {
	c.R.Rule("G2-irreversible", "every call of BlockChain.reorganizeChain(detach, attach) is reachable only through the false arm of state.IsIrreversible(h, detach.Len()) with the same detach list; in connectBestChain h is b.BestChain.Height (the current tip)")
	c.R.Rule("T-irreversible", "decision table of State.IsIrreversible: whenever curBlockHeight > CRCOnlyDPOSHeight and curBlockHeight - detachNodesLen <= LastIrreversibleHeight the result is true, in every consensus mode and height regime")
	c.R.Rule("K-rollback", "in the node binary the store's RollbackBlock is called only from disconnectBlock/disconnectBlock2 (and store-internal delegation), disconnectBlock only from reorganizeChain, reorganizeChain only from connectBestChain and ReorganizeChain, ReorganizeChain2 has no caller; LastIrreversibleHeight is stored only by the frozen writer set")

	rc := c.fn("blockchain", "BlockChain", "reorganizeChain")
	if rc != nil {
		callers := c.staticCallers(rc)
		allowed := map[string]bool{"(*blockchain.BlockChain).connectBestChain": true, "(*blockchain.BlockChain).ReorganizeChain": true}
		var bad []string
		// an unexported helper of the package that is itself called only from allowed functions is part of them
		for changed := true; changed; {
			changed = false
			for f := range callers {
				if allowed[fname(f)] || token.IsExported(f.Name()) {
					continue
				}
				up := c.staticCallers(f)
				all := len(up) > 0
				for g := range up {
					if !allowed[fname(g)] {
						all = false
					}
				}
				if all {
					allowed[fname(f)] = true
					changed = true
				}
			}
		}
		for f := range callers {
			if !allowed[fname(f)] {
				bad = append(bad, fname(f))
			}
		}
		c.R.Check("K-rollback", "reorganizeChain|callers", len(bad) == 0 && len(callers) >= 1, c.pos(rc.Pos()), fmt.Sprintf("callers: %v; outside the allowed set: %v", callerNames(callers), bad))
		isIrr := callPred(R{"dpos/state", "State", "IsIrreversible"})
		for f, calls := range callers {
			for _, call := range calls {
				detach := call.Common().Args[1]
				key := fname(f)
				c.G2("G2-irreversible", key+"|guard", f, call, "IsIrreversible(h, detach.Len()) == false", func(i *ssa.If) (bool, bool) {
					x, neg := ssau.StripNot(i.Cond)
					cl, ok := x.(*ssa.Call)
					if !ok || !isIrr(&cl.Call) {
						return false, false
					}
					// second argument is Len() of the detach list passed on
					a := cl.Call.Args
					lenCall, ok := ssau.Unwrap(a[len(a)-1]).(*ssa.Call)
					if !ok || !methodCallNamed(lenCall, "Len") || len(lenCall.Call.Args) == 0 || ssau.Unwrap(lenCall.Call.Args[0]) != ssau.Unwrap(detach) {
						return false, false
					}
					return true, neg // required: result false
				})
				if strings.HasSuffix(key, "connectBestChain") {
					for _, ic := range ssau.CallsIn(f, isIrr) {
						a := ic.Common().Args
						h := ssau.Unwrap(a[len(a)-2])
						ok := ssau.IsFieldOf(h, "BlockNode", "Height") && ssau.DependsOn(h, func(x ssa.Value) bool { return ssau.IsFieldOf(x, "BlockChain", "BestChain") })
						c.R.Check("G2-irreversible", key+"|height = BestChain.Height", ok, c.posOf(ic), "the fork depth must be measured from the current tip b.BestChain.Height")
					}
					det := ssau.Unwrap(detach)
					okd := false
					if e, ok := det.(*ssa.Extract); ok && e.Index == 0 && methodCallNamed(e.Tuple, "getReorganizeNodes") {
						okd = true
					}
					c.R.Check("G2-irreversible", key+"|detach list from getReorganizeNodes", okd, c.posOf(call), "the detach list is the first result of getReorganizeNodes(node)")
				}
			}
		}
	}
	// IsIrreversible table
	ii := c.fn("dpos/state", "State", "IsIrreversible")
	if ii != nil {
		syms := &Symbols{Int: func(v ssa.Value) (string, bool) {
			switch {
			case paramNamed(v, "curBlockHeight"):
				return "cur", true
			case paramNamed(v, "detachNodesLen"):
				return "detach", true
			case ssau.IsFieldOf(v, "Configuration", "CRCOnlyDPOSHeight"):
				return "crcOnly", true
			case ssau.IsFieldOf(v, "", "LastIrreversibleHeight"):
				return "lih", true
			case ssau.IsFieldOf(v, "DPoSConfiguration", "RevertToPOWStartHeight"):
				return "revert", true
			case ssau.IsFieldOf(v, "", "ConsensusAlgorithm"):
				return "algo", true
			}
			return "", false
		}}
		all := product(nil, map[string][]int64{"cur": {5, 20, 40}, "detach": {0, 1, 3, 5, 6, 7, 12}, "crcOnly": {2, 10}, "lih": {0, 15, 33, 39}, "revert": {8, 30}, "algo": {0, 1}})
		var envs []Env
		for _, e := range all {
			if e.I["cur"] >= e.I["detach"] && e.I["cur"] > e.I["crcOnly"] && e.I["cur"]-e.I["detach"] <= e.I["lih"] {
				envs = append(envs, e)
			}
		}
		c.Decision("T-irreversible", "IsIrreversible|detaching at or below LIH is refused", ii, syms, envs, func(e Env) bool { return true }, G1Opt{BoolSuccess: true})
	}
	// rollback callers
	rb := c.invokeCallers("RollbackBlock")
	okRB := true
	var badRB []string
	for f := range rb {
		n := fname(f)
		switch n {
		case "(*blockchain.BlockChain).disconnectBlock", "(*blockchain.BlockChain).disconnectBlock2", "(*blockchain.ChainStore).RollbackBlock", "(*blockchain.ChainStore).handleRollbackBlockTask", "(*blockchain.ChainStore).rollback":
		default:
			okRB = false
			badRB = append(badRB, n)
		}
	}
	c.R.Check("K-rollback", "RollbackBlock|callers", okRB && len(rb) >= 1, "", fmt.Sprintf("callers of RollbackBlock in the node: %v; unexpected: %v", callerNames(rb), badRB))
	if db := c.fn("blockchain", "BlockChain", "disconnectBlock"); db != nil {
		cs := c.staticCallers(db)
		ok := true
		for f := range cs {
			if fname(f) != "(*blockchain.BlockChain).reorganizeChain" {
				ok = false
			}
		}
		c.R.Check("K-rollback", "disconnectBlock|callers", ok && len(cs) == 1, c.pos(db.Pos()), fmt.Sprintf("callers: %v", callerNames(cs)))
	}
	for _, name := range []string{"ReorganizeChain2", "reorganizeChain2", "disconnectBlock2"} {
		if f := c.P.Func("blockchain", "BlockChain", name); f != nil {
			cs := c.staticCallers(f)
			ok := true
			for g := range cs {
				if name == "disconnectBlock2" && fname(g) == "(*blockchain.BlockChain).reorganizeChain2" {
					continue
				}
				if name == "reorganizeChain2" && fname(g) == "(*blockchain.BlockChain).ReorganizeChain2" {
					continue
				}
				ok = false
			}
			c.R.Check("K-rollback", name+"|unreachable", ok, c.pos(f.Pos()), fmt.Sprintf("callers: %v (the unguarded variant must stay unused)", callerNames(cs)))
		}
	}
	// ReorganizeChain (exported, guarded) callers: recorded
	if f := c.P.Func("blockchain", "BlockChain", "ReorganizeChain"); f != nil {
		c.R.Info("K-rollback", "ReorganizeChain|callers", c.pos(f.Pos()), fmt.Sprintf("callers: %v", callerNames(c.staticCallers(f))))
	}
	// LIH writers
	ws := c.fieldStores("StateKeyFrame", "LastIrreversibleHeight", true)
	allowedW := map[string]bool{
		"(*dpos/state.State).tryUpdateLastIrreversibleHeight": true, // inside History.Append closures
		"(*dpos/state.StateKeyFrame).Deserialize":             true, // checkpoint restore
		"(*dpos/state.StateKeyFrame).snapshot":                true,
		"dpos/state.NewStateKeyFrame":                         true,
		"dpos/state.copyStateKeyFrame":                        true,
	}
	var badW []string
	n := 0
	for f, sts := range ws {
		n += len(sts)
		if !allowedW[fname(f)] {
			badW = append(badW, fname(f)+" at "+c.posOf(sts[0]))
		}
	}
	sort.Strings(badW)
	c.R.Check("K-rollback", "LastIrreversibleHeight|writers", len(badW) == 0 && n > 0, "", fmt.Sprintf("%d stores; writers outside the frozen set: %v", n, badW))
	// stores inside tryUpdateLastIrreversibleHeight happen in closures passed to History.Append
	if f := c.fn("dpos/state", "State", "tryUpdateLastIrreversibleHeight"); f != nil {
		direct := 0
		for _, b := range f.Blocks {
			for _, in := range b.Instrs {
				if st, ok := in.(*ssa.Store); ok && ssau.IsFieldOf(st.Addr, "", "LastIrreversibleHeight") {
					direct++
				}
			}
		}
		c.R.Check("K-rollback", "tryUpdateLastIrreversibleHeight|only in history closures", direct == 0, c.pos(f.Pos()), fmt.Sprintf("%d direct (non-closure) stores to LastIrreversibleHeight", direct))
	}
	_ = core.Mod
	_ = token.ADD
}

func runC12(c *Ctx) {
	c.R.Rule("G2-work", "connectBestChain: reorganizeChain is reachable only through the false arm of node.WorkSum.Cmp(b.BestChain.WorkSum) <= 0 (strictly more work) and of IsIrreversible (C30); extending the tip goes through connectBlock")
	c.R.Rule("G1-valid", "processBlock reaches maybeAcceptBlock only after CheckBlockSanity passed; connectBlock reaches SaveBlock only after CheckBlockContext passed; maybeAcceptBlock accumulates WorkSum as parent sum + own work before connectBestChain")
	cbc0 := c.fn("blockchain", "BlockChain", "connectBestChain")
	if cbc0 != nil {
		// the side-chain decision may live in a helper connectBestChain ends in
		cbc, cbcVia := c.relocateVia(cbc0, func(g *ssa.Function) bool {
			return firstCall(g, callPred(R{"blockchain", "BlockChain", "reorganizeChain"})) != nil
		})
		rc := firstCall(cbc, callPred(R{"blockchain", "BlockChain", "reorganizeChain"}))
		fromNode := func(v ssa.Value) bool {
			return ssau.IsFieldOf(ssau.Unwrap(v), "BlockNode", "WorkSum") && ssau.DependsOn(v, func(x ssa.Value) bool { return paramNamed(x, "node") })
		}
		fromBest := func(v ssa.Value) bool {
			return ssau.IsFieldOf(ssau.Unwrap(v), "BlockNode", "WorkSum") && ssau.DependsOn(v, func(x ssa.Value) bool { return ssau.IsFieldOf(x, "BlockChain", "BestChain") })
		}
		// required: node work > best work (any equivalent spelling of the big.Int comparison)
		workSel := bigRelArm(fromNode, fromBest, func(c int) bool { return c > 0 })
		workFn, workTarget := cbc, ssa.Instruction(rc)
		if cbcVia != nil {
			// the comparison may have stayed in connectBestChain, in front of the call of the helper
			inHelper := false
			withVia(cbcVia, func() {
				for _, i := range ssau.Ifs(cbc) {
					if m, _ := safeSel(workSel, i); m {
						inHelper = true
					}
				}
			})
			if !inHelper {
				workFn, workTarget = cbc0, cbcVia
			}
		}
		if workFn == cbc0 {
			c.G2("G2-work", "connectBestChain|more work than the tip", workFn, workTarget, "node.WorkSum > b.BestChain.WorkSum (big.Int.Cmp)", workSel)
		} else {
			withVia(cbcVia, func() {
				c.G2("G2-work", "connectBestChain|more work than the tip", workFn, workTarget, "node.WorkSum > b.BestChain.WorkSum (big.Int.Cmp)", workSel)
			})
		}
		// nothing else keeps a heavier side chain from being adopted: every branch that decides whether reorganizeChain
		// can still run is the tip-extension test, the work comparison or the irreversibility test
		if rc != nil {
			nd := 0
			deciding := divertingBranches(cbc, rc)
			if cbcVia != nil {
				deciding = append(deciding, divertingBranches(cbc0, cbcVia)...)
			}
			for _, i := range deciding {
				nd++
				kind := ""
				base, _ := ssau.StripNot(i.Cond)
				if m, _ := bigRelArm(fromNode, fromBest, func(c int) bool { return c > 0 })(i); m {
					kind = "work"
				} else if v, _, ok := ssau.NilTest(i.Cond); ok && ssau.IsFieldOf(ssau.Unwrap(v), "BlockChain", "BestChain") {
					kind = "no tip yet"
				} else if cl, ok := base.(*ssa.Call); ok && methodCallNamed(cl, "IsEqual") && ssau.DependsOn(cl, func(y ssa.Value) bool { return ssau.IsFieldOf(y, "BlockChain", "BestChain") }) {
					kind = "extends the tip"
				} else if ssau.DependsOn(base, func(y ssa.Value) bool { return methodCallNamed(y, "IsIrreversible") }) {
					kind = "irreversible"
				} else if _, isCall := base.(*ssa.Call); isCall && ssau.DependsOn(base, func(y ssa.Value) bool { return ssau.IsFieldOf(y, "BlockNode", "WorkSum") }) {
					kind = "work (through a predicate; the relation itself is decided by the rule above)"
				}
				c.R.Check("G2-work", "connectBestChain|only work, tip extension and irreversibility decide|"+ssau.CondString(base), kind != "", c.posOf(i),
					fmt.Sprintf("the branch on %s decides whether reorganizeChain can run but is neither the tip-extension test, the cumulative-work comparison nor the irreversibility test: a side chain with more work can be left unadopted", ssau.CondString(base)))
			}
			c.R.FloorCheck("G2-work deciding branches", nd, 3)
		}
		// the tip-extension arm: connectBlock checked
		connectOrReorg := callPred(R{"blockchain", "BlockChain", "connectBlock"}, R{"blockchain", "BlockChain", "reorganizeChain"})
		if cbcVia != nil {
			inner := connectOrReorg
			helper := cbc
			connectOrReorg = func(cm *ssa.CallCommon) bool { return inner(cm) || cm.StaticCallee() == helper }
			c.G1s("G2-work", "connectBestChain|reorganize in "+helper.Name(), helper, "reorganizeChain", inner, G1Opt{HasIdx: true, Idx: 2, IgnoreExit: func(ret *ssa.Return) bool {
				if k, ok := ret.Results[0].(*ssa.Const); ok && k.Value != nil && k.Value.String() == "false" {
					return true
				}
				return false
			}})
		}
		c.G1s("G2-work", "connectBestChain|connectBlock or reorganize", cbc0, "connectBlock / reorganizeChain", connectOrReorg, G1Opt{HasIdx: true, Idx: 2, IgnoreExit: func(ret *ssa.Return) bool {
			// exits that report "not in main chain" (first result false) do not claim a connection
			if k, ok := ret.Results[0].(*ssa.Const); ok && k.Value != nil && k.Value.String() == "false" {
				return true
			}
			return false
		}})
	}
	if pb := c.fn("blockchain", "BlockChain", "processBlock"); pb != nil {
		mab := firstCall(pb, callPred(R{"blockchain", "BlockChain", "maybeAcceptBlock"}))
		san := callPred(R{"blockchain", "BlockChain", "CheckBlockSanity"})
		c.G2("G1-valid", "processBlock|sanity before accept", pb, mab, "CheckBlockSanity(block) == nil", func(i *ssa.If) (bool, bool) {
			x, trueIsNil, ok := ssau.NilTest(i.Cond)
			if ok && ssau.IsCallTo(ssau.Unwrap(x), san) {
				return true, trueIsNil
			}
			return false, false
		})
	}
	if pb := c.fn("blockchain", "BlockChain", "processBlock"); pb != nil {
		// every block accepted (main or side chain) releases the orphans waiting for it: a heavier branch whose
		// blocks arrived out of order is only assembled, and compared by work, through ProcessOrphans
		if mab := firstCall(pb, callPred(R{"blockchain", "BlockChain", "maybeAcceptBlock"})); mab != nil {
			cut := ssau.NewCut()
			po := ssau.CallsIn(pb, callPred(R{"blockchain", "BlockChain", "ProcessOrphans"}))
			for _, ci := range po {
				cut.AddInstr(ci)
			}
			after := ssau.ReachAfter(pb, mab, cut)
			bad := ""
			for _, ret := range ssau.Returns(pb) {
				if after.Instr(ret) && !c.failingReturn(pb, ret) {
					bad = c.posOf(ret)
				}
			}
			c.R.Check("G1-valid", "processBlock|orphans released after every accepted block", len(po) > 0 && bad == "", c.posOf(mab),
				"after maybeAcceptBlock succeeded a success return "+bad+" is reachable without ProcessOrphans(&blockHash): orphans whose parent just arrived (on a side chain too) stay orphans and their branch is never compared by work")
			for _, ci := range po {
				a := ci.Common().Args
				okArg := ssau.DependsOn(a[len(a)-1], func(x ssa.Value) bool { return methodCallNamed(x, "Hash") })
				c.R.Check("G1-valid", "processBlock|ProcessOrphans(&block hash)", okArg, c.posOf(ci), "ProcessOrphans is applied to the hash of the block just accepted")
			}
		}
	}
	if cb := c.fn("blockchain", "BlockChain", "connectBlock"); cb != nil {
		save := firstCall(cb, namedCall("SaveBlock"))
		ctx := callPred(R{"blockchain", "BlockChain", "CheckBlockContext"})
		c.G2("G1-valid", "connectBlock|context before SaveBlock", cb, save, "CheckBlockContext(block, parent) == nil", func(i *ssa.If) (bool, bool) {
			x, trueIsNil, ok := ssau.NilTest(i.Cond)
			if ok && ssau.IsCallTo(ssau.Unwrap(x), ctx) {
				return true, trueIsNil
			}
			return false, false
		})
		// prev hash must equal the tip
		c.G2("G1-valid", "connectBlock|extends the tip", cb, save, "b.BestChain == nil || prevHash.IsEqual(*b.BestChain.Hash)", func(i *ssa.If) (bool, bool) {
			x, neg := ssau.StripNot(i.Cond)
			if cl, ok := x.(*ssa.Call); ok && methodCallNamed(cl, "IsEqual") && ssau.DependsOn(cl, func(y ssa.Value) bool { return ssau.IsFieldOf(y, "Header", "Previous") }) {
				return true, !neg
			}
			// the genesis case: BestChain == nil
			if v, trueIsNil, ok := ssau.NilTest(i.Cond); ok && ssau.IsFieldOf(ssau.Unwrap(v), "BlockChain", "BestChain") {
				return true, trueIsNil
			}
			return false, false
		})
	}
	// side-chain cache discipline: a detached block must stay available for a later switch back
	if rc := c.fn("blockchain", "BlockChain", "reorganizeChain"); rc != nil {
		n := 0
		for _, b := range rc.Blocks {
			for _, in := range b.Instrs {
				call, ok := in.(*ssa.Call)
				if !ok {
					continue
				}
				bi, ok := call.Call.Value.(*ssa.Builtin)
				if !ok || bi.Name() != "delete" {
					continue
				}
				m := ssau.Unwrap(call.Call.Args[0])
				if !(ssau.IsFieldOf(m, "BlockChain", "blockCache") || ssau.IsFieldOf(m, "BlockChain", "confirmCache")) {
					continue
				}
				n++
				k := call.Call.Args[1]
				fromAttach := ssau.DependsOn(k, func(x ssa.Value) bool { return paramNamed(x, "attachNodes") })
				fromDetach := ssau.DependsOn(k, func(x ssa.Value) bool { return paramNamed(x, "detachNodes") })
				c.R.Check("G1-valid", "reorganizeChain|cache eviction only for attached blocks", fromAttach && !fromDetach, c.posOf(call), "entries of the side-chain block/confirm cache may be dropped only for blocks that were just attached; detached blocks must stay for a later switch back")
			}
		}
		c.R.Check("G1-valid", "reorganizeChain|attached blocks evicted", n >= 2, c.pos(rc.Pos()), fmt.Sprintf("%d cache deletions", n))
	}
	if db := c.fn("blockchain", "BlockChain", "disconnectBlock"); db != nil {
		ok := false
		for _, b := range db.Blocks {
			for _, in := range b.Instrs {
				if up, isU := in.(*ssa.MapUpdate); isU && ssau.IsFieldOf(ssau.Unwrap(up.Map), "BlockChain", "blockCache") {
					ok = paramNamed(up.Value, "block") && ssau.DependsOn(up.Key, func(x ssa.Value) bool { return paramNamed(x, "node") })
				}
			}
		}
		c.R.Check("G1-valid", "disconnectBlock|detached block kept in the side-chain cache", ok, c.pos(db.Pos()), "b.blockCache[*node.Hash] = block")
	}
	// orphan processing: the loop that removes orphans from prevOrphans must re-read the slice every iteration
	if po := c.fn("blockchain", "BlockChain", "ProcessOrphans"); po != nil {
		rm := callPred(R{"blockchain", "BlockChain", "RemoveOrphanBlock"})
		calls := ssau.CallsIn(po, rm)
		ok := len(calls) > 0
		detail := "no RemoveOrphanBlock call"
		for _, call := range calls {
			H := ssau.EnclosingLoopHeader(call.Block())
			if H == nil {
				ok = false
				detail = "RemoveOrphanBlock is not inside the orphan loop"
				continue
			}
			body := ssau.LoopBody(H)
			iff, isIf := H.Instrs[len(H.Instrs)-1].(*ssa.If)
			reread := false
			if isIf {
				reread = ssau.DependsOn(iff.Cond, func(x ssa.Value) bool {
					lk, ok := x.(*ssa.Lookup)
					return ok && ssau.IsFieldOf(ssau.Unwrap(lk.X), "BlockChain", "prevOrphans") && body[lk.Block()]
				})
			}
			if !reread {
				ok = false
				detail = "the loop bound is not recomputed from b.prevOrphans[...] inside the loop although RemoveOrphanBlock compacts that slice"
			} else {
				detail = "loop bound re-reads b.prevOrphans[parent] every iteration"
			}
		}
		c.R.Check("G1-valid", "ProcessOrphans|loop re-reads the compacted slice", ok, c.pos(po.Pos()), detail)
	}
	if ma := c.fn("blockchain", "BlockChain", "maybeAcceptBlock"); ma != nil {
		ok := false
		for _, call := range ssau.CallsIn(ma, namedCall("Add")) {
			a := call.Common().Args
			if len(a) == 3 && ssau.IsFieldOf(ssau.Unwrap(a[0]), "BlockNode", "WorkSum") && ssau.IsFieldOf(ssau.Unwrap(a[1]), "BlockNode", "WorkSum") && ssau.IsFieldOf(ssau.Unwrap(a[2]), "BlockNode", "WorkSum") {
				ok = true
			}
		}
		c.R.Check("G1-valid", "maybeAcceptBlock|WorkSum = parent + own", ok, c.pos(ma.Pos()), "newNode.WorkSum.Add(prevNode.WorkSum, newNode.WorkSum)")
		c.G1s("G1-valid", "maybeAcceptBlock|connectBestChain", ma, "connectBestChain", callPred(R{"blockchain", "BlockChain", "connectBestChain"}), G1Opt{})
	}
}

// divertingBranches lists the branches of fn that decide whether target can still be executed: one arm can reach
// the target, the other cannot.
func divertingBranches(fn *ssa.Function, target ssa.Instruction) []*ssa.If {
	var out []*ssa.If
	for _, i := range ssau.Ifs(fn) {
		b := i.Block()
		if len(b.Succs) != 2 {
			continue
		}
		r0 := ssau.ReachFromBlock(fn, b.Succs[0], nil).Instr(target)
		r1 := ssau.ReachFromBlock(fn, b.Succs[1], nil).Instr(target)
		if r0 != r1 {
			out = append(out, i)
		}
	}
	return out
}
