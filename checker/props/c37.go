package props

import (
	"fmt"
	"go/token"
	"sort"
	"strings"

	"elaverif/ssau"

	"golang.org/x/tools/go/ssa"
)

func init() {
	register(&Check{ID: "C37", Title: "Wallet signatures verify and only for the signed data", Run: runC37})
}

func runC37(c *Ctx) {
	c.R.Rule("A-challenge", "signer and verifier feed the Schnorr challenge hash the same encoding of R: every call of crypto.getE passes as its r argument the fixed-width encoding intToByte(x) (the verifier always hashes the 32-byte form taken from the signature)")
	{
		nE := 0
		for _, f := range c.pkgFuncs("crypto") {
			for _, call := range ssau.CallsIn(f, callPred(R{"crypto", "", "getE"})) {
				nE++
				a := call.Common().Args
				ok := len(a) == 4 && ssau.IsCallTo(ssau.Unwrap(a[2]), callPred(R{"crypto", "", "intToByte"}))
				c.R.Check("A-challenge", "getE r argument|"+fname(f), ok, c.posOf(call), "the r argument of the challenge hash must be intToByte(R.x) (32 bytes, zero padded) in the signer and in the verifier alike")
			}
		}
		c.R.FloorCheck("A-challenge getE call sites", nE, 2)
	}
	// comparator of a sort.Slice: indexes only the slice that is being sorted
	c.R.Rule("A-sortkeys", "a comparator passed to sort.Slice / sort.SliceStable in the node indexes, with its two position arguments, only the slice that is being sorted (keys kept in a parallel slice go stale after the first swap, leaving the result in an arbitrary order); blockchain.SortPrograms, on which the pairing of program hashes and programs relies, is such a sort or a sort.Sort over the programs themselves")
	{
		nS := 0
		for f := range c.P.AllFuncs() {
			root := f
			for root.Parent() != nil {
				root = root.Parent()
			}
			if !nodeFunc(root) || len(f.Blocks) == 0 {
				continue
			}
			for _, call := range ssau.CallsIn(f, func(cm *ssa.CallCommon) bool {
				g := cm.StaticCallee()
				return g != nil && (g.String() == "sort.Slice" || g.String() == "sort.SliceStable")
			}) {
				a := call.Common().Args
				mc, ok := a[1].(*ssa.MakeClosure)
				if !ok {
					continue
				}
				less, ok := mc.Fn.(*ssa.Function)
				if !ok || len(less.Params) != 2 {
					continue
				}
				nS++
				sorted := ssau.Unwrap(a[0])
				if mi, isMI := sorted.(*ssa.MakeInterface); isMI {
					sorted = ssau.Unwrap(mi.X)
				}
				// the sorted slice and the indexed slice are the same variable: either the very same SSA value, or loads
				// of the same variable cell (the closure sees the variable through its captured cell), or the same
				// field path
				cellOf := func(v ssa.Value) ssa.Value {
					if ld, isLd := v.(*ssa.UnOp); isLd && ld.Op == token.MUL {
						if al, isAl := ld.X.(*ssa.Alloc); isAl {
							return al
						}
						if fv, isFV := ld.X.(*ssa.FreeVar); isFV {
							for k, x := range less.FreeVars {
								if x == fv && k < len(mc.Bindings) {
									return mc.Bindings[k]
								}
							}
						}
					}
					if fv, isFV := v.(*ssa.FreeVar); isFV {
						for k, x := range less.FreeVars {
							if x == fv && k < len(mc.Bindings) {
								return mc.Bindings[k]
							}
						}
					}
					return nil
				}
				rawSorted := a[0]
				if mi, isMI := rawSorted.(*ssa.MakeInterface); isMI {
					rawSorted = mi.X
				}
				same := func(base ssa.Value) bool {
					if base == rawSorted || ssau.Unwrap(base) == sorted {
						return true
					}
					if cb, cs := cellOf(base), cellOf(rawSorted); cb != nil && cb == cs {
						return true
					}
					// a captured copy of the sorted value itself
					if cb := cellOf(base); cb != nil && (cb == rawSorted || ssau.Unwrap(cb) == sorted) {
						return true
					}
					sb, ss := ssau.CondString(ssau.Unwrap(base)), ssau.CondString(sorted)
					return sb == ss && !strings.Contains(sb, "_") && sb != ""
				}
				bad := ""
				for _, b := range less.Blocks {
					for _, in := range b.Instrs {
						var base, idx ssa.Value
						switch x := in.(type) {
						case *ssa.IndexAddr:
							base, idx = x.X, x.Index
						case *ssa.Index:
							base, idx = x.X, x.Index
						default:
							continue
						}
						iv := ssau.Unwrap(idx)
						if iv != ssa.Value(less.Params[0]) && iv != ssa.Value(less.Params[1]) {
							continue
						}
						if !same(base) {
							bad = c.posOf(in)
						}
					}
				}
				c.R.Check("A-sortkeys", "comparator|"+fname(root), bad == "", c.posOf(call), "the comparator indexes another slice than the one being sorted with its position arguments at "+bad)
			}
		}
		c.R.Note("A-sortkeys: %d sort.Slice comparators examined", nS)
	}
	c.R.Rule("D-message", "the wallet signs, and the node verifies, the same bytes: in account.SignBySigner the message given to crypto.Sign is the content of a buffer written only by txn.SerializeUnsigned; every RunPrograms caller passes the content of a buffer written only by SerializeUnsigned of the checked transaction; the multi-sign helpers append the signature over the same serialization")
	c.R.Rule("T-mofn", "crypto.CheckMultiSigSignatures lets exactly the scripts with 1 <= m <= n through its parameter check (evaluated on the grid 0..6 x 0..6 by folding the branch conditions), which is the set contract.CreateMultiSigRedeemScript produces")
	c.R.Rule("B-sentinel", "a result of strings.Index / bytes.Index (and the IndexByte/LastIndex variants) that the function compares with -1 somewhere is not used in arithmetic or as a slice bound on a path that has not passed that comparison (address and amount parsers of the node)")

	// ---- D-message
	onlyWrittenBy := func(f *ssa.Function, buf ssa.Value, before ssa.Instruction, method string) (bool, string) {
		// every call that receives buf (before the Bytes() use) is the named method
		ok := false
		refs := buf.Referrers()
		if refs == nil {
			return false, "buffer has no uses"
		}
		for _, r := range *refs {
			ci, isCall := r.(ssa.CallInstruction)
			if !isCall {
				// MakeInterface of the buffer for the io.Writer argument
				if mi, isMI := r.(*ssa.MakeInterface); isMI {
					if mr := mi.Referrers(); mr != nil {
						for _, u := range *mr {
							if ci2, ok2 := u.(ssa.CallInstruction); ok2 {
								o := ssau.CalleeObj(ci2.Common())
								if o == nil || o.Name() != method {
									return false, "buffer is also written by " + ci2.Common().Value.String()
								}
								ok = true
							}
						}
					}
				}
				continue
			}
			o := ssau.CalleeObj(ci.Common())
			if o == nil {
				continue
			}
			switch o.Name() {
			case "Bytes", "Len", "String":
			default:
				if o.Name() != method {
					return false, "buffer is also used by " + o.Name()
				}
				ok = true
			}
		}
		if !ok {
			return false, "buffer is never written by " + method
		}
		return true, "buffer written only by " + method
	}
	bufOfBytes := func(v ssa.Value) ssa.Value {
		cl, ok := ssau.Unwrap(v).(*ssa.Call)
		if !ok || !methodCallNamed(cl, "Bytes") || len(cl.Call.Args) != 1 {
			return nil
		}
		return cl.Call.Args[0]
	}
	if f := c.fn("account", "", "SignBySigner"); f != nil {
		calls := ssau.CallsIn(f, callPred(R{"crypto", "", "Sign"}))
		c.R.Check("D-message", "SignBySigner|signs once", len(calls) == 1, c.pos(f.Pos()), fmt.Sprintf("%d crypto.Sign call(s)", len(calls)))
		for _, cl := range calls {
			buf := bufOfBytes(cl.Common().Args[1])
			ok, why := false, "the signed message is not buf.Bytes() of a local buffer"
			if buf != nil {
				if _, isAlloc := buf.(*ssa.Alloc); isAlloc {
					ok, why = onlyWrittenBy(f, buf, cl, "SerializeUnsigned")
				}
			}
			c.R.Check("D-message", "SignBySigner|message = SerializeUnsigned(tx)", ok, c.posOf(cl), why)
			// the serialized transaction is the one passed in, the key the account's
			okTx := false
			for _, s := range ssau.CallsIn(f, namedCall("SerializeUnsigned")) {
				if s.Common().IsInvoke() && paramNamed(s.Common().Value, "txn") {
					okTx = true
				}
			}
			c.R.Check("D-message", "SignBySigner|serializes the transaction argument", okTx, c.posOf(cl), "SerializeUnsigned is invoked on the txn parameter")
			c.R.Check("D-message", "SignBySigner|signs with the account's key", ssau.DependsOn(cl.Common().Args[0], func(y ssa.Value) bool { return methodCallNamed(y, "PrivKey") }), c.posOf(cl), "the key is acc.PrivKey()")
		}
	}
	n := 0
	for _, name := range []string{"SignStandardTransaction", "SignMultiSignTransaction", "SignMultiSignTransactionByM"} {
		f := c.fn("account", "", name)
		if f == nil {
			continue
		}
		sg := ssau.CallsIn(f, callPred(R{"account", "", "SignBySigner"}))
		okSig := len(sg) >= 1
		for _, s := range sg {
			if !paramNamed(s.Common().Args[0], "txn") {
				okSig = false
			}
		}
		n++
		c.R.Check("D-message", name+"|signature from SignBySigner(txn, ..)", okSig, c.pos(f.Pos()), "the signature placed in the program comes from SignBySigner over the transaction argument")
		for _, ap := range ssau.CallsIn(f, callPred(R{"crypto", "", "AppendSignature"})) {
			a := ap.Common().Args
			buf := bufOfBytes(a[2])
			ok, why := false, "the data given to AppendSignature is not buf.Bytes() of a local buffer"
			if buf != nil {
				ok, why = onlyWrittenBy(f, buf, ap, "SerializeUnsigned")
			}
			okS := ssau.DependsOn(a[1], func(y ssa.Value) bool { return ssau.IsCallTo(y, callPred(R{"account", "", "SignBySigner"})) })
			c.R.Check("D-message", name+"|AppendSignature over the same serialization", ok && okS, c.posOf(ap), why)
		}
	}
	c.R.FloorCheck("D-message wallet signing helpers", n, 3)
	run := c.fn("blockchain", "", "RunPrograms")
	if run != nil {
		nr := 0
		for caller, sites := range c.staticCallers(run) {
			if c.isTestFn(caller) {
				continue
			}
			for _, s := range sites {
				nr++
				buf := bufOfBytes(s.Common().Args[0])
				ok, why := false, "data is not buf.Bytes() of a local buffer"
				if buf != nil {
					ok, why = onlyWrittenBy(caller, buf, s, "SerializeUnsigned")
				}
				c.R.Check("D-message", short(fname(caller))+"|verifies SerializeUnsigned(tx)", ok, c.posOf(s), why)
			}
		}
		c.R.FloorCheck("D-message RunPrograms call sites", nr, 2)
		// standard / multisig verifiers get the data unchanged, Schnorr its double hash
		for _, cl := range ssau.CallsIn(run, callPred(R{"blockchain", "", "CheckStandardSignature"}, R{"crypto", "", "CheckMultiSigSignatures"}, R{"blockchain", "", "checkCrossChainSignatures"})) {
			a := cl.Common().Args
			c.R.Check("D-message", "RunPrograms|"+cl.Common().StaticCallee().Name()+" gets the data unchanged", paramNamed(a[len(a)-1], "data"), c.posOf(cl), "the verifier checks the signatures against the data parameter itself")
		}
	}

	// ---- T-mofn
	if f := c.fn("crypto", "", "CheckMultiSigSignatures"); f != nil {
		push1, okP := c.constVal("crypto", "PUSH1")
		// leaves: the script bytes code[0] and code[len-2], and len(code)
		var mByte, nByte ssa.Value
		lens := []ssa.Value{}
		for _, b := range f.Blocks {
			for _, in := range b.Instrs {
				if u, ok := in.(*ssa.UnOp); ok && u.Op == token.MUL {
					if ia, ok := u.X.(*ssa.IndexAddr); ok {
						if isConstInt(0)(ia.Index) {
							mByte = u
						} else if sub, ok := ia.Index.(*ssa.BinOp); ok && sub.Op == token.SUB && isConstInt(2)(sub.Y) {
							nByte = u
						}
					}
				}
				if cl, ok := in.(*ssa.Call); ok {
					if bi, ok := cl.Call.Value.(*ssa.Builtin); ok && bi.Name() == "len" {
						lens = append(lens, cl)
					}
				}
			}
		}
		if mByte == nil || nByte == nil || !okP {
			c.R.Undecided("T-mofn", "CheckMultiSigSignatures|parameter bytes", c.pos(f.Pos()), "cannot identify the m and n bytes of the script")
		} else {
			bad := ""
			cells := 0
			for m := uint64(0); m <= 6 && bad == ""; m++ {
				for nn := uint64(0); nn <= 6; nn++ {
					env := map[ssa.Value]uint64{mByte: m + uint64(push1) - 1, nByte: nn + uint64(push1) - 1}
					for _, l := range lens {
						env[l] = 40
					}
					// walk from the entry while the branch conditions fold
					b := f.Blocks[0]
					passed := false
					for steps := 0; steps < 50; steps++ {
						last := b.Instrs[len(b.Instrs)-1]
						if ret, ok := last.(*ssa.Return); ok {
							passed = !c.failingReturn(f, ret)
							break
						}
						if j, ok := last.(*ssa.Jump); ok {
							_ = j
							b = b.Succs[0]
							continue
						}
						iff, ok := last.(*ssa.If)
						if !ok {
							passed = true
							break
						}
						v, known := evalU(iff.Cond, env, 0)
						if !known {
							passed = true // left the parameter check
							break
						}
						b = ssau.Arm(iff, v != 0)
					}
					cells++
					want := m >= 1 && m <= nn
					if passed != want {
						bad = fmt.Sprintf("m=%d n=%d: parameter check %s, a wallet-made %d-of-%d script %s", m, nn, map[bool]string{true: "passes", false: "rejects"}[passed], m, nn, map[bool]string{true: "must pass", false: "must be rejected"}[want])
						break
					}
				}
			}
			det := fmt.Sprintf("parameter check passes exactly 1 <= m <= n on %d grid cells", cells)
			if bad != "" {
				det = bad
			}
			c.R.Check("T-mofn", "CheckMultiSigSignatures|passes exactly 1 <= m <= n", bad == "", c.pos(f.Pos()), det)
		}
	}
	if f := c.fn("core/contract", "", "CreateMultiSigRedeemScript"); f != nil {
		// the creator's own domain: m >= 1, m <= len(pubkeys)
		isM := func(v ssa.Value) bool { return paramNamed(v, "m") }
		isN := isLenOf(func(v ssa.Value) bool { return paramNamed(v, "pubkeys") })
		var pushM ssa.Instruction
		for _, cl := range ssau.CallsIn(f, namedCall("PushNumber")) {
			if ssau.DependsOn(cl.Common().Args[len(cl.Common().Args)-1], isM) {
				pushM = cl
			}
		}
		if pushM != nil {
			c.G2("T-mofn", "CreateMultiSigRedeemScript|m >= 1", f, pushM, "m >= 1", condCmp(isM, isConstInt(1), token.GEQ, true))
			c.G2("T-mofn", "CreateMultiSigRedeemScript|m <= n", f, pushM, "m <= len(pubkeys)", condCmp(isM, isN, token.LEQ, true))
		} else {
			c.R.Check("T-mofn", "CreateMultiSigRedeemScript|pushes m", false, c.pos(f.Pos()), "no PushNumber(m) found")
		}
	}

	// ---- B-sentinel
	c.sentinelBeforeUse()
}

// sentinelBeforeUse: Engler-style belief check on Index results.
func (c *Ctx) sentinelBeforeUse() {
	idxFns := map[string]bool{"strings.Index": true, "strings.IndexByte": true, "strings.LastIndex": true, "strings.IndexRune": true, "strings.IndexAny": true,
		"bytes.Index": true, "bytes.IndexByte": true, "bytes.LastIndex": true, "bytes.IndexAny": true}
	nSites, nBelief := 0, 0
	var fns []*ssa.Function
	for f := range c.P.AllFuncs() {
		if nodeFunc(f) && len(f.Blocks) > 0 {
			fns = append(fns, f)
		}
	}
	sort.Slice(fns, func(i, j int) bool { return fns[i].String() < fns[j].String() })
	for _, f := range fns {
		k := 0
		for _, b := range f.Blocks {
			for _, in := range b.Instrs {
				cl, ok := in.(*ssa.Call)
				if !ok || cl.Call.StaticCallee() == nil || !idxFns[cl.Call.StaticCallee().String()] {
					continue
				}
				nSites++
				// the belief: a comparison of the result with -1 (or < 0 / >= 0) in this function
				cut := ssau.NewCut()
				tests := 0
				for _, i := range ssau.Ifs(f) {
					bo, ok := i.Cond.(*ssa.BinOp)
					if !ok {
						continue
					}
					var other ssa.Value
					if bo.X == ssa.Value(cl) {
						other = bo.Y
					} else if bo.Y == ssa.Value(cl) {
						other = bo.X
					} else {
						continue
					}
					kc, ok := constVal64(other)
					if !ok {
						continue
					}
					// which arm means "found" (index >= 0)?
					var found, known bool
					switch {
					case kc == -1 && bo.Op == token.EQL:
						found, known = false, true
					case kc == -1 && bo.Op == token.NEQ:
						found, known = true, true
					case kc == -1 && bo.Op == token.GTR && bo.X == ssa.Value(cl):
						found, known = true, true
					case kc == 0 && bo.Op == token.LSS && bo.X == ssa.Value(cl):
						found, known = false, true
					case kc == 0 && bo.Op == token.GEQ && bo.X == ssa.Value(cl):
						found, known = true, true
					}
					if !known {
						continue
					}
					tests++
					cut.AddEdge(i.Block(), ssau.Arm(i, found))
				}
				if tests == 0 {
					continue // no belief expressed in this function
				}
				nBelief++
				k++
				// uses in arithmetic or as slice bounds reachable without the "found" arm
				r := ssau.ReachFromEntry(f, cut)
				bad := ""
				if refs := cl.Referrers(); refs != nil {
					for _, u := range *refs {
						ui, ok := u.(ssa.Instruction)
						if !ok || !r.Instr(ui) {
							continue
						}
						switch x := u.(type) {
						case *ssa.BinOp:
							if x.Op == token.ADD || x.Op == token.SUB || x.Op == token.MUL || x.Op == token.QUO {
								bad = c.posOf(ui)
							}
						case *ssa.Slice:
							if x.Low == ssa.Value(cl) || x.High == ssa.Value(cl) {
								bad = c.posOf(ui)
							}
						case *ssa.IndexAddr, *ssa.Index:
							bad = c.posOf(ui)
						}
					}
				}
				key := fmt.Sprintf("%s|%s#%d", short(fname(f)), strings.TrimPrefix(cl.Call.StaticCallee().String(), ""), k)
				det := "every arithmetic / slicing use of the index is behind the not-found test"
				if bad != "" {
					det = "the index is used at " + bad + " on a path that has not excluded the -1 result, although the function tests for it elsewhere"
				}
				c.R.Check("B-sentinel", key, bad == "", c.posOf(cl), det)
			}
		}
	}
	c.R.Check("B-sentinel", "scan", nSites >= 5, "", fmt.Sprintf("%d Index call sites in the node, %d with a not-found test in the same function", nSites, nBelief))
}
