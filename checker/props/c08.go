package props

import (
	"fmt"
	"go/token"
	"go/types"

	"elaverif/ssau"

	"golang.org/x/tools/go/ssa"
)

func init() {
	register(&Check{ID: "C08", Title: "SPV merkle proofs are sound and complete", Run: runC08})
}

func runC08(c *Ctx) {
	c.R.Rule("G2-root", "bloom.CheckMerkleBlock returns success only through the true arm of an equality of the single remaining stack hash with the merkle root of the block header carried by the message; every transaction id it reports was popped from the message's hash list under a set flag bit")
	c.R.Rule("R-levels", "merkleNodes.calcBranchRoute contributes one route entry for every level 0..treeDepth(numTxs)-1 (no level is skipped), so the single-transaction branch has exactly one sibling per level for auxpow.GetMerkleRoot")
	c.R.Rule("G-dup", "bloom.MakeMerkleParent returns a parent only when its two children were compared by value and found different (left.IsEqual(*right) or an equivalent value comparison; a comparison of the two pointers is not one): a merkle block that repeats the self-paired tail of the tree (CVE-2012-2459) is refused")
	if mp := c.fn("elanet/bloom", "", "MakeMerkleParent"); mp != nil {
		isChild := func(name string) func(ssa.Value) bool {
			return func(v ssa.Value) bool {
				return ssau.DependsOn(v, func(x ssa.Value) bool { return paramNamed(x, name) })
			}
		}
		c.GuardSuccess("G-dup", "MakeMerkleParent|children compared by value", mp, "left and right hold different hashes", func(i *ssa.If) (bool, bool) {
			x, neg := ssau.StripNot(i.Cond)
			// left.IsEqual(*right) / bytes.Equal(left[:], right[:]): required arm = not equal
			if cl, ok := x.(*ssa.Call); ok {
				o := ssau.CalleeObj(&cl.Call)
				if o != nil && (o.Name() == "IsEqual" || o.Name() == "Equal") && len(cl.Call.Args) == 2 {
					a, b := cl.Call.Args[0], cl.Call.Args[1]
					if (isChild("left")(a) && isChild("right")(b)) || (isChild("left")(b) && isChild("right")(a)) {
						return true, neg
					}
				}
			}
			// *left == *right on the array values (not on the pointers)
			if bo, ok := x.(*ssa.BinOp); ok && (bo.Op == token.EQL || bo.Op == token.NEQ) {
				if _, isArr := bo.X.Type().Underlying().(*types.Array); isArr {
					if (isChild("left")(bo.X) && isChild("right")(bo.Y)) || (isChild("left")(bo.Y) && isChild("right")(bo.X)) {
						return true, (bo.Op == token.NEQ) != neg
					}
				}
			}
			return false, false
		}, G1Opt{IgnoreExit: func(ret *ssa.Return) bool {
			// the "right child absent" arm hashes left with itself by construction
			return false
		}, Base: rightNilCut(mp)})
	}
	const pk = "elanet/bloom"
	if f := c.fn(pk, "", "CheckMerkleBlock"); f != nil {
		isRoot := func(v ssa.Value) bool {
			return ssau.IsFieldOf(ssau.Unwrap(v), "Header", "MerkleRoot") && ssau.DependsOn(v, func(y ssa.Value) bool { return ssau.IsFieldOf(y, "MerkleBlock", "Header") })
		}
		isStackBottom := func(v ssa.Value) bool {
			// s[0].h
			return ssau.DependsOn(v, func(y ssa.Value) bool {
				ia, ok := y.(*ssa.IndexAddr)
				return ok && isConstInt(0)(ia.Index)
			}) && ssau.DependsOn(v, func(y ssa.Value) bool { return ssau.IsFieldOf(y, "merkleNode", "h") })
		}
		c.GuardSuccess("G2-root", "CheckMerkleBlock|root equality", f, "s[0].h.IsEqual(header.MerkleRoot)", func(i *ssa.If) (bool, bool) {
			x, neg := ssau.StripNot(i.Cond)
			cl, ok := x.(*ssa.Call)
			if !ok || !methodCallNamed(cl, "IsEqual") || len(cl.Call.Args) != 2 {
				return false, false
			}
			a, b := cl.Call.Args[0], cl.Call.Args[1]
			if (isStackBottom(a) && isRoot(b)) || (isStackBottom(b) && isRoot(a)) {
				return true, !neg
			}
			return false, false
		}, G1Opt{HasIdx: true, Idx: 1})
		// the stack must have collapsed to one filled node
		c.GuardSuccess("G2-root", "CheckMerkleBlock|single filled node", f, "tip == 0", condCmp(func(v ssa.Value) bool {
			sub, ok := ssau.Unwrap(v).(*ssa.BinOp)
			return ok && sub.Op == token.SUB && isConstInt(1)(sub.Y)
		}, isConstInt(0), token.EQL, true), G1Opt{HasIdx: true, Idx: 1})
		// reported ids come from the message hashes
		okR := false
		for _, ret := range ssau.Returns(f) {
			if !c.failingReturn(f, ret) {
				okR = ssau.DependsOn(ssau.ResolveSpill(ret.Results[0]), func(y ssa.Value) bool { return ssau.IsFieldOf(y, "MerkleBlock", "Hashes") })
			}
		}
		c.R.Check("G2-root", "CheckMerkleBlock|reported ids are message hashes", okR, c.pos(f.Pos()), "the returned ids derive from m.Hashes")
	}
	if f := c.fn(pk, "merkleNodes", "calcBranchRoute"); f != nil {
		var hdr *ssa.If
		for _, i := range ssau.Ifs(f) {
			b, ok := i.Cond.(*ssa.BinOp)
			if ok && b.Op == token.LSS && ssau.IsCallTo(ssau.Unwrap(b.Y), callPred(R{pk, "", "treeDepth"})) {
				hdr = i
			}
		}
		c.R.Check("R-levels", "calcBranchRoute|loops over treeDepth(numTxs) levels", hdr != nil, c.pos(f.Pos()), "for height := 0; height < treeDepth(numTxs); height++")
		if hdr != nil {
			phi, isPhi := hdr.Cond.(*ssa.BinOp).X.(*ssa.Phi)
			step := false
			if isPhi {
				z, s1 := false, false
				for _, e := range phi.Edges {
					if isConstInt(0)(e) {
						z = true
					}
					if add, ok := e.(*ssa.BinOp); ok && add.Op == token.ADD && add.X == ssa.Value(phi) && isConstInt(1)(add.Y) {
						s1 = true
					}
				}
				step = z && s1
			}
			c.R.Check("R-levels", "calcBranchRoute|from level 0 in steps of one", step, c.posOf(hdr), "height starts at 0 and is incremented by 1")
			cut := ssau.NewCut()
			n := 0
			for _, b := range f.Blocks {
				for _, in := range b.Instrs {
					if st, ok := in.(*ssa.Store); ok && ssau.IsFieldOf(st.Addr, "merkleNodes", "route") {
						cut.AddInstr(in)
						n++
					}
				}
			}
			body := ssau.Arm(hdr, true)
			r := ssau.ReachFromBlock(f, body, cut)
			skipped := r.Block(hdr.Block())
			c.R.Check("R-levels", "calcBranchRoute|every level appends a route entry", n >= 1 && !skipped, c.posOf(hdr), fmt.Sprintf("%d appends to route; no iteration completes without one", n))
		}
	}
	if f := c.fn(pk, "", "GetTxMerkleBranch"); f != nil {
		c.R.Info("R-levels", "GetTxMerkleBranch", c.pos(f.Pos()), "shape of the partial tree and index derivation are value-level and not decided")
	}
}

// rightNilCut removes the arms on which a child is nil: with the right child absent the node is paired with itself on
// purpose and no comparison is due; with the left child absent no parent is produced. What remains are the
// executions with two children, on which the value comparison is required.
func rightNilCut(fn *ssa.Function) *ssau.Cut {
	cut := ssau.NewCut()
	for _, i := range ssau.Ifs(fn) {
		if v, trueIsNil, ok := ssau.NilTest(i.Cond); ok && (paramNamed(v, "right") || paramNamed(v, "left")) {
			// only when this test is not part of the compound dup guard (left != nil && right != nil && ...)
			cut.AddEdge(i.Block(), ssau.Arm(i, trueIsNil))
		}
	}
	return cut
}
