package props

import (
	"fmt"
	"go/token"
	"hash/fnv"
	"sort"
	"strings"

	"elaverif/ssau"

	"golang.org/x/tools/go/ssa"
)

func init() {
	register(&Check{ID: "C26", Title: "The view-change schedule does not depend on how often it is evaluated", Run: runC26})
}

// canonExpr renders v as an expression over parameters and constants, with the values in k printed as "k"
// (the index of the view whose duration is being computed). Commutative operators have sorted operands.
// canonParam binds parameters of helpers under expansion to the rendered argument.
var canonParam = map[*ssa.Parameter]string{}

func canonExpr(v ssa.Value, k map[ssa.Value]bool, depth int) string {
	if k[v] {
		return "k"
	}
	if depth > 24 {
		return "…"
	}
	switch x := v.(type) {
	case *ssa.Const:
		return x.Value.ExactString()
	case *ssa.Parameter:
		if str, ok := canonParam[x]; ok {
			return str
		}
		if a, ok := ssau.ParamSubst[x]; ok {
			return canonExpr(a, k, depth+1)
		}
		return x.Name()
	case *ssa.Extract:
		// a component of the result of a one-block helper: expand the helper with its parameters bound
		if cl, ok := x.Tuple.(*ssa.Call); ok {
			if h := cl.Call.StaticCallee(); h != nil && len(h.Blocks) == 1 && h.Pkg != nil && strings.HasPrefix(h.Pkg.Pkg.Path(), "github.com/elastos/Elastos.ELA") {
				if ret, ok := h.Blocks[0].Instrs[len(h.Blocks[0].Instrs)-1].(*ssa.Return); ok && x.Index < len(ret.Results) {
					out := ""
					ssau.WithParamSubst(cl, func() { out = canonExpr(ret.Results[x.Index], k, depth+1) })
					return out
				}
			}
		}
		return fmt.Sprintf("extract#%d(%s)", x.Index, canonExpr(x.Tuple, k, depth+1))
	case *ssa.Convert:
		return "conv<" + x.Type().String() + ">(" + canonExpr(x.X, k, depth+1) + ")"
	case *ssa.ChangeType:
		return canonExpr(x.X, k, depth+1)
	case *ssa.BinOp:
		a, b := canonExpr(x.X, k, depth+1), canonExpr(x.Y, k, depth+1)
		if x.Op == token.ADD || x.Op == token.MUL || x.Op == token.AND || x.Op == token.OR || x.Op == token.XOR {
			// flatten and sort
			var terms []string
			var flat func(v ssa.Value)
			flat = func(v ssa.Value) {
				if bo, ok := v.(*ssa.BinOp); ok && bo.Op == x.Op && !k[v] {
					flat(bo.X)
					flat(bo.Y)
					return
				}
				// the result of a one-block helper that is itself such a sum/product: flatten through it
				if cl, ok := v.(*ssa.Call); ok && !k[v] {
					if _, ok := expandHelper(cl, k, depth, func(r ssa.Value) string {
						if bo, ok := r.(*ssa.BinOp); ok && bo.Op == x.Op {
							flat(r)
							return "flattened"
						}
						return ""
					}); ok {
						if len(terms) > 0 && flattenedLast {
							flattenedLast = false
							return
						}
					}
				}
				terms = append(terms, canonExpr(v, k, depth+1))
			}
			flat(x)
			sort.Strings(terms)
			return "(" + strings.Join(terms, x.Op.String()) + ")"
		}
		return "(" + a + x.Op.String() + b + ")"
	case *ssa.Call:
		// a one-block helper of the repository with a single result: expand it with its parameters bound
		if out, ok := expandHelper(x, k, depth, func(r ssa.Value) string { return canonExpr(r, k, depth+1) }); ok {
			return out
		}
		name := x.Call.Value.String()
		if f := x.Call.StaticCallee(); f != nil {
			name = f.String()
		}
		var args []string
		for _, a := range x.Call.Args {
			args = append(args, canonExpr(a, k, depth+1))
		}
		return name + "(" + strings.Join(args, ",") + ")"
	case *ssa.UnOp:
		if x.Op == token.MUL {
			if fa, ok := x.X.(*ssa.FieldAddr); ok {
				return "field:" + fieldNameOf(fa)
			}
		}
		return x.Op.String() + canonExpr(x.X, k, depth+1)
	case *ssa.Phi:
		return "phi:" + x.Comment
	}
	return fmt.Sprintf("%T", v)
}

func fieldNameOf(fa *ssa.FieldAddr) string {
	var name string
	ssau.DependsOn(fa, func(y ssa.Value) bool { return false })
	for _, f := range []string{"signTolerance", "viewStartTime"} {
		if ssau.IsFieldOf(fa, "", f) {
			name = f
		}
	}
	if name == "" {
		name = fmt.Sprintf("#%d", fa.Field)
	}
	return name
}

// phiLeaves flattens nested phis.
func phiLeaves(v ssa.Value, seen map[ssa.Value]bool, out *[]ssa.Value) {
	if seen[v] {
		return
	}
	seen[v] = true
	if p, ok := v.(*ssa.Phi); ok {
		for _, e := range p.Edges {
			phiLeaves(e, seen, out)
		}
		return
	}
	*out = append(*out, v)
}

type slotLoop struct {
	header              *ssa.BasicBlock
	cond                *ssa.If
	durPhi, slotPhi     *ssa.Phi
	offPhi              *ssa.Phi
	inc                 ssa.Value
	entrySlots, inSlots []ssa.Value
}

// findSlotLoop recognises `for duration >= slot { offset++; duration -= slot; slot = f(offset) }`.
func findSlotLoop(fn *ssa.Function) *slotLoop {
	for _, i := range ssau.Ifs(fn) {
		b, ok := i.Cond.(*ssa.BinOp)
		if !ok || b.Op != token.GEQ {
			continue
		}
		dur, ok1 := b.X.(*ssa.Phi)
		slot, ok2 := b.Y.(*ssa.Phi)
		if !ok1 || !ok2 || dur.Block() != i.Block() || slot.Block() != i.Block() {
			continue
		}
		body := ssau.LoopBody(i.Block())
		if len(body) == 0 {
			continue
		}
		sl := &slotLoop{header: i.Block(), cond: i, durPhi: dur, slotPhi: slot}
		for k, e := range slot.Edges {
			pred := i.Block().Preds[k]
			var leaves []ssa.Value
			phiLeaves(e, map[ssa.Value]bool{ssa.Value(slot): true}, &leaves)
			if body[pred] {
				sl.inSlots = append(sl.inSlots, leaves...)
			} else {
				sl.entrySlots = append(sl.entrySlots, leaves...)
			}
		}
		for _, in := range i.Block().Instrs {
			p, ok := in.(*ssa.Phi)
			if !ok || p == dur || p == slot {
				continue
			}
			for k, e := range p.Edges {
				if body[i.Block().Preds[k]] {
					if add, ok := e.(*ssa.BinOp); ok && add.Op == token.ADD && add.X == ssa.Value(p) && isConstInt(1)(add.Y) {
						sl.offPhi = p
						sl.inc = add
					}
				}
			}
		}
		if sl.offPhi != nil {
			return sl
		}
	}
	return nil
}

func runC26(c *Ctx) {
	c.R.Rule("A-duration", "in each slot loop of the view schedule (`for duration >= slot { offset++; duration -= slot; slot = f(offset) }`) the duration of view k computed before the loop (k = the offset passed in) and inside the loop (k = the incremented offset) is the same expression of k, the arbiter count and constants; otherwise evaluating once and evaluating at intermediate times with the remainder carried forward disagree")
	c.R.Rule("R-remainder", "the remainder returned by a schedule function is the elapsed time now.Sub(start) minus whole slots (or elapsed % tolerance with the same dividend and divisor as the quotient) with no rounding, and the returned offset only grows from the offset passed in (increments by one per consumed slot)")
	c.R.Rule("R-carry", "ChangeView / ChangeViewV1 evaluate the schedule on (viewStartTime, now) and, on every path that stores the new offset, set viewStartTime = now.Add(-remainder)")

	const pkg = "dpos/manager"
	n := 0
	for _, name := range []string{"calculateOffsetTimeV1", "calculateOffsetTimeV2"} {
		f := c.fn(pkg, "view", name)
		if f == nil {
			continue
		}
		sl := findSlotLoop(f)
		if sl == nil {
			c.R.Undecided("A-duration", name+"|slot loop", c.pos(f.Pos()), "no `for duration >= slot` loop recognised")
			continue
		}
		n++
		var offParam ssa.Value
		for k, e := range sl.offPhi.Edges {
			if !ssau.LoopBody(sl.header)[sl.header.Preds[k]] {
				offParam = e
			}
		}
		canonSet := func(vs []ssa.Value, k ssa.Value) []string {
			set := map[string]bool{}
			for _, v := range vs {
				set[canonExpr(v, map[ssa.Value]bool{k: true}, 0)] = true
			}
			return ssau.SortedKeys(set)
		}
		es, is := canonSet(sl.entrySlots, offParam), canonSet(sl.inSlots, sl.inc)
		same := strings.Join(es, " | ") == strings.Join(is, " | ")
		det := fmt.Sprintf("%s: duration of view k before the loop: %v; inside the loop: %v", name, es, is)
		key := name + "|entry formula == loop formula"
		if !same {
			// the finding is identified by the two formulas themselves, so that a different disagreement is a different finding
			h := fnv.New32a()
			h.Write([]byte(strings.Join(es, "|") + " <> " + strings.Join(is, "|")))
			key = fmt.Sprintf("%s|entry formula != loop formula|%08x", name, h.Sum32())
		}
		c.R.Check("A-duration", key, same, c.posOf(sl.cond), det)
		// the arm selectors agree too (k < arbitersCount on both sides)
		selE, selI := "", ""
		for _, i := range ssau.Ifs(f) {
			b, ok := i.Cond.(*ssa.BinOp)
			if !ok || i == sl.cond {
				continue
			}
			if b.X == offParam {
				selE = canonExpr(b, map[ssa.Value]bool{offParam: true}, 0)
			}
			if b.X == sl.inc {
				selI = canonExpr(b, map[ssa.Value]bool{sl.inc: true}, 0)
			}
		}
		c.R.Check("A-duration", name+"|arm selector agrees", selE == selI, c.posOf(sl.cond), fmt.Sprintf("selector before the loop %q, inside %q", selE, selI))

		// R-remainder
		rets := ssau.Returns(f)
		okRem, okOff := len(rets) > 0, len(rets) > 0
		why := ""
		for _, ret := range rets {
			if ret.Results[0] != ssa.Value(sl.offPhi) {
				okOff = false
			}
			if ret.Results[1] != ssa.Value(sl.durPhi) {
				okRem = false
				why = "returned remainder is not the loop's running duration"
			}
		}
		for k, e := range sl.durPhi.Edges {
			if ssau.LoopBody(sl.header)[sl.header.Preds[k]] {
				sub, ok := e.(*ssa.BinOp)
				if !ok || sub.Op != token.SUB || sub.X != ssa.Value(sl.durPhi) || sub.Y != ssa.Value(sl.slotPhi) {
					okRem = false
					why = "loop does not subtract exactly the consumed slot"
				}
			} else {
				cl, ok := e.(*ssa.Call)
				if !ok || !methodCallNamed(cl, "Sub") || !paramNamed(cl.Call.Args[0], "now") || !paramNamed(cl.Call.Args[1], "startTime") {
					okRem = false
					why = "elapsed time is not exactly now.Sub(startTime): " + canonExpr(e, nil, 0)
				}
			}
		}
		if why == "" {
			why = "remainder = now.Sub(startTime) - consumed slots"
		}
		c.R.Check("R-remainder", name+"|remainder exact", okRem, c.pos(f.Pos()), why)
		c.R.Check("R-remainder", name+"|offset non-decreasing", okOff && paramNamed(offParam, "currentViewOffset"), c.pos(f.Pos()), "returned offset = offset passed in + number of consumed slots")
	}
	c.R.FloorCheck("A-duration slot loops", n, 2)

	if f := c.fn(pkg, "view", "calculateOffsetTimeV0"); f != nil {
		ok := false
		det := "offset = elapsed / signTolerance and remainder = elapsed % signTolerance over the same elapsed = now.Sub(startTime)"
		for _, ret := range ssau.Returns(f) {
			q, ok1 := ssau.Unwrap(ret.Results[0]).(*ssa.BinOp)
			if cv, isC := ret.Results[0].(*ssa.Convert); isC {
				q, ok1 = cv.X.(*ssa.BinOp)
			}
			r, ok2 := ret.Results[1].(*ssa.BinOp)
			if !ok1 || !ok2 || q.Op != token.QUO || r.Op != token.REM {
				continue
			}
			cl, isCall := q.X.(*ssa.Call)
			ok = q.X == r.X && isCall && methodCallNamed(cl, "Sub") && paramNamed(cl.Call.Args[0], "now") && paramNamed(cl.Call.Args[1], "startTime") &&
				(fieldIs("view", "signTolerance")(q.Y) || paramNamed(q.Y, "signTolerance")) && (fieldIs("view", "signTolerance")(r.Y) || paramNamed(r.Y, "signTolerance")) && ssau.Unwrap(q.Y) == ssau.Unwrap(r.Y) || (fieldIs("view", "signTolerance")(q.Y) && fieldIs("view", "signTolerance")(r.Y))
		}
		c.R.Check("R-remainder", "calculateOffsetTimeV0|quotient and remainder pair", ok, c.pos(f.Pos()), det)
		// ... on every return: no exit hands back a remainder that forgets the elapsed time (a constant)
		badRet := ""
		for _, ret := range ssau.Returns(f) {
			if len(ret.Results) == 2 {
				if _, isK := ssau.ResolveSpill(ret.Results[1]).(*ssa.Const); isK {
					badRet = c.posOf(ret)
				}
			}
		}
		c.R.Check("R-remainder", "calculateOffsetTimeV0|every return carries the remainder", badRet == "", c.pos(f.Pos()), "the return at "+badRet+" hands back a constant remainder: the caller restarts the view at now and the elapsed part of the slot is lost")
	}

	// R-carry
	for _, m := range []struct{ fn, calc string }{{"ChangeView", "calculateOffsetTimeV0"}, {"ChangeViewV1", "calculateOffsetTimeV1"}} {
		f := c.fn(pkg, "view", m.fn)
		if f == nil {
			continue
		}
		calls := ssau.CallsIn(f, callPred(R{pkg, "view", m.calc}, R{pkg, "", m.calc}))
		if len(calls) != 1 {
			c.R.Check("R-carry", m.fn+"|evaluates the schedule once", false, c.pos(f.Pos()), fmt.Sprintf("%d call(s) of %s", len(calls), m.calc))
			continue
		}
		call := calls[0]
		a := call.Common().Args
		// args: recv, [offset], startTime, now
		// the start time and now are identified by role, wherever they sit in the argument list
		startOK, nowOK := false, false
		for _, x := range a {
			if fieldIs("view", "viewStartTime")(x) {
				startOK = true
			}
			if paramNamed(x, "now") {
				nowOK = true
			}
		}
		si := 1 + boolInt(m.calc != "calculateOffsetTimeV0")
		_ = si
		c.R.Check("R-carry", m.fn+"|schedule evaluated on (viewStartTime, now)", startOK && nowOK, c.posOf(call), "the elapsed time is measured from the carried view start to now")
		// stores
		var startStores, offStores []*ssa.Store
		for _, b := range f.Blocks {
			for _, in := range b.Instrs {
				st, ok := in.(*ssa.Store)
				if !ok {
					continue
				}
				if ssau.IsFieldOf(st.Addr, "view", "viewStartTime") {
					startStores = append(startStores, st)
				}
				if paramNamed(st.Addr, "viewOffset") {
					offStores = append(offStores, st)
				}
			}
		}
		okVal := len(startStores) >= 1
		for _, st := range startStores {
			cl, ok := st.Val.(*ssa.Call)
			if !ok || !methodCallNamed(cl, "Add") || !paramNamed(cl.Call.Args[0], "now") {
				okVal = false
				continue
			}
			neg, ok := cl.Call.Args[1].(*ssa.UnOp)
			if !ok || neg.Op != token.SUB {
				okVal = false
				continue
			}
			ex, ok := neg.X.(*ssa.Extract)
			if !ok || ex.Index != 1 || ex.Tuple != call.Value() {
				okVal = false
			}
		}
		c.R.Check("R-carry", m.fn+"|viewStartTime = now.Add(-remainder)", okVal, c.pos(f.Pos()), fmt.Sprintf("%d store(s) of viewStartTime, each now.Add(-second result of the schedule call)", len(startStores)))
		// co-update: every path through an offset store passes a viewStartTime store
		okCo := len(offStores) >= 1
		for _, os := range offStores {
			cut := ssau.NewCut()
			for _, st := range startStores {
				cut.AddInstr(st)
			}
			if ssau.ReachFromEntry(f, cut).Instr(os) {
				after := ssau.ReachAfter(f, os, cut)
				for _, ret := range ssau.Returns(f) {
					if after.Instr(ret) {
						okCo = false
					}
				}
			}
		}
		c.R.Check("R-carry", m.fn+"|offset and view start updated together", okCo, c.pos(f.Pos()), "every path that stores the new offset also stores the new view start")
		// the stored offset derives from the schedule's first result
		okOff := len(offStores) >= 1
		for _, os := range offStores {
			if !ssau.DependsOn(os.Val, func(y ssa.Value) bool {
				ex, ok := y.(*ssa.Extract)
				return ok && ex.Index == 0 && ex.Tuple == call.Value()
			}) {
				okOff = false
			}
		}
		c.R.Check("R-carry", m.fn+"|offset from the schedule", okOff, c.pos(f.Pos()), "the stored offset derives from the schedule call's first result")
	}
}

func boolInt(b bool) int {
	if b {
		return 1
	}
	return 0
}

// flattenedLast is set by expandHelper's callback protocol in canonExpr's flattening (see there).
var flattenedLast bool

// expandHelper renders the single result of a one-block repository helper called at x with its parameters bound to
// the rendered arguments; render receives the returned value. ok=false when x is not such a call or render
// declines (returns "").
func expandHelper(x *ssa.Call, k map[ssa.Value]bool, depth int, render func(ssa.Value) string) (string, bool) {
	h := x.Call.StaticCallee()
	if h == nil || len(h.Blocks) != 1 || h.Pkg == nil || !strings.HasPrefix(h.Pkg.Pkg.Path(), "github.com/elastos/Elastos.ELA") || h == x.Parent() {
		return "", false
	}
	ret, ok := h.Blocks[0].Instrs[len(h.Blocks[0].Instrs)-1].(*ssa.Return)
	if !ok || len(ret.Results) != 1 {
		return "", false
	}
	saved := map[*ssa.Parameter]string{}
	had := map[*ssa.Parameter]bool{}
	var strs []string
	for _, a := range x.Call.Args {
		strs = append(strs, canonExpr(a, k, depth+1))
	}
	for i, prm := range h.Params {
		if i < len(strs) {
			saved[prm] = canonParam[prm]
			_, had[prm] = canonParam[prm]
			canonParam[prm] = strs[i]
		}
	}
	out := render(ret.Results[0])
	for prm := range saved {
		if had[prm] {
			canonParam[prm] = saved[prm]
		} else {
			delete(canonParam, prm)
		}
	}
	if out == "" {
		return "", false
	}
	if out == "flattened" {
		flattenedLast = true
	}
	return out, true
}
