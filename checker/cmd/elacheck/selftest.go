package main

import (
	"encoding/json"
	"fmt"
	"os"
	"path/filepath"
	"runtime"
	"runtime/debug"
	"strings"

	"elaverif/core"
	"elaverif/props"
)

// selfTestEntry is one armed-rule self-test: a realistic breaking change kept under /verif (a confirmed seeded
// change, or a hand-written replacement) that the property's rules are known to catch.
type selfTestEntry struct {
	Seed string `json:"seed,omitempty"` // directory name under seeded/
	File string `json:"file,omitempty"` // repo-relative file for a replacement mutant
	Old  string `json:"old,omitempty"`
	New  string `json:"new,omitempty"`
	Name string `json:"name,omitempty"`
}

// applyDiff turns a unified diff into an in-memory overlay by replacing, per hunk, the old block (context and
// removed lines) with the new block (context and added lines). ok is false when a hunk's old block is not found
// exactly once in the current file: the change does not apply to this tree any more.
func applyDiff(repo, patch string) (map[string][]byte, bool) {
	out := map[string][]byte{}
	var file string
	var content string
	flush := func() {
		if file != "" {
			out[filepath.Join(repo, file)] = []byte(content)
		}
	}
	lines := strings.Split(patch, "\n")
	for i := 0; i < len(lines); i++ {
		l := lines[i]
		if strings.HasPrefix(l, "+++ b/") {
			flush()
			file = strings.TrimPrefix(l, "+++ b/")
			b, err := os.ReadFile(filepath.Join(repo, file))
			if err != nil {
				b = nil // a file added by the change
			}
			content = string(b)
			continue
		}
		if !strings.HasPrefix(l, "@@") || file == "" {
			continue
		}
		var oldB, newB []string
		j := i + 1
		for ; j < len(lines); j++ {
			h := lines[j]
			if strings.HasPrefix(h, "@@") || strings.HasPrefix(h, "diff --git") {
				break
			}
			if h == "" && j == len(lines)-1 {
				break
			}
			switch {
			case strings.HasPrefix(h, "+"):
				newB = append(newB, h[1:])
			case strings.HasPrefix(h, "-"):
				oldB = append(oldB, h[1:])
			case strings.HasPrefix(h, " "):
				oldB = append(oldB, h[1:])
				newB = append(newB, h[1:])
			case strings.HasPrefix(h, "\\"):
			default:
				oldB = append(oldB, h)
				newB = append(newB, h)
			}
		}
		o, n := strings.Join(oldB, "\n")+"\n", strings.Join(newB, "\n")+"\n"
		if len(oldB) == 0 && content == "" {
			content = n
		} else {
			// locate the old block; when it occurs more than once take the occurrence nearest to the hunk's line
			want := hunkStart(l)
			best, bestDist := -1, 1<<30
			for from := 0; ; {
				k := strings.Index(content[from:], o)
				if k < 0 {
					break
				}
				pos := from + k
				if pos == 0 || content[pos-1] == '\n' {
					line := strings.Count(content[:pos], "\n") + 1
					d := line - want
					if d < 0 {
						d = -d
					}
					if d < bestDist {
						best, bestDist = pos, d
					}
				}
				from = pos + 1
			}
			if best < 0 {
				return nil, false
			}
			content = content[:best] + n + content[best+len(o):]
		}
		i = j - 1
	}
	flush()
	return out, len(out) > 0
}

// selfTest re-runs the property's rules on in-memory variants of the tree that are known to break the property
// and requires that the rules report them. It never changes the verdict about the tree itself; it only fails
// when an applicable known-bad variant is NOT reported (the rule has become vacuous).
func selfTest(id, repo, vdir, tier string, r *core.Report) {
	b, err := os.ReadFile(filepath.Join(vdir, "selftest.json"))
	if err != nil {
		return
	}
	var table map[string][]selfTestEntry
	if err := json.Unmarshal(b, &table); err != nil {
		r.Rule("selftest", "armed-rule self-test table must parse")
		r.Undecided("selftest", "selftest.json", "", err.Error())
		return
	}
	entries := table[id]
	if len(entries) == 0 {
		return
	}
	r.Rule("selftest", "armed-rule self-test (thorough tier): each recorded breaking change of this property that still applies to the current tree is loaded as an in-memory overlay and the property's rules must report it; a change that no longer applies is skipped")
	known, _ := core.LoadKnown(vdir)
	kset := map[string]bool{}
	for _, k := range known {
		if k.Property == id && k.Status == "known" {
			kset[k.Rule+"|"+k.Key] = true
		}
	}
	ch := props.Lookup(id)
	applied := 0
	for _, e := range entries {
		name := e.Name
		var ov map[string][]byte
		ok := false
		switch {
		case e.Seed != "":
			name = "seeded/" + e.Seed
			p, err := os.ReadFile(filepath.Join(vdir, "seeded", e.Seed, "patch.diff"))
			if err == nil {
				ov, ok = applyDiff(repo, string(p))
			}
		case e.File != "":
			if name == "" {
				name = "mutant/" + e.File
			}
			src, err := os.ReadFile(filepath.Join(repo, e.File))
			if err == nil && strings.Count(string(src), e.Old) == 1 {
				ov = map[string][]byte{filepath.Join(repo, e.File): []byte(strings.Replace(string(src), e.Old, e.New, 1))}
				ok = true
			}
		}
		if !ok {
			r.Info("selftest", name, "", "does not apply to the current tree (skipped)")
			continue
		}
		prog, err := core.Load(core.LoadOptions{RepoDir: repo, Overlay: ov})
		if err != nil {
			r.Info("selftest", name, "", "variant does not type-check on the current tree (skipped)")
			continue
		}
		applied++
		r2 := core.NewReport(id, "quick")
		func() {
			defer func() {
				if e := recover(); e != nil {
					r2.Rule("analyser", "the analyser must not panic")
					r2.Undecided("analyser", "panic", "", fmt.Sprintf("%v\n%s", e, debug.Stack()))
				}
			}()
			ch.Run(&props.Ctx{P: prog, R: r2, Tier: "quick"})
		}()
		var hits []string
		for _, o := range r2.Obls {
			if (o.Verdict == core.Violated || o.Verdict == core.Undecided) && !kset[o.Rule+"|"+o.Key] {
				hits = append(hits, o.Rule+":"+o.Key)
			}
		}
		det := fmt.Sprintf("variant reported by %d obligation(s), first: %s", len(hits), first(hits))
		if len(hits) == 0 {
			det = "the recorded breaking change applies to this tree but no rule of the property reports it"
		}
		r.Check("selftest", name, len(hits) > 0, "", det)
		prog = nil
		runtime.GC()
		debug.FreeOSMemory()
	}
	r.Note(fmt.Sprintf("self-test: %d recorded breaking change(s), %d applicable to the current tree", len(entries), applied))
}

func first(s []string) string {
	if len(s) == 0 {
		return ""
	}
	return s[0]
}

// hunkStart parses the new-file start line of a hunk header "@@ -a,b +c,d @@".
func hunkStart(h string) int {
	i := strings.Index(h, "+")
	if i < 0 {
		return 0
	}
	n := 0
	for _, ch := range h[i+1:] {
		if ch < '0' || ch > '9' {
			break
		}
		n = n*10 + int(ch-'0')
	}
	return n
}
