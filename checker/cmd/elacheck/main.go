// Command elacheck decides one property of /verif/properties.jsonl on /repo's
// current working tree by static analysis and writes /verif/evidence/<id>.json.
package main

import (
	"flag"
	"fmt"
	"os"
	"path/filepath"
	"runtime/debug"
	"strconv"
	"strings"
	"time"

	"elaverif/core"
	"elaverif/props"
)

func main() {
	prop := flag.String("p", "", "property id (C01..C40), comma separated, or 'all'")
	tier := flag.String("tier", "quick", "quick|thorough")
	repo := flag.String("repo", "/repo", "repository root")
	verif := flag.String("verif", "", "verif dir (default: cwd, or parent of the binary's dir)")
	overlay := flag.String("overlay", "", "comma separated list of repoRelPath=replacementFile (in-memory overlay)")
	list := flag.Bool("list", false, "list registered properties")
	dump := flag.String("dump", "", "debug: dump SSA of rel/pkg:Recv:Name")
	patch := flag.String("patch", "", "analyse the tree with this unified diff applied in memory (overlay); the working tree is not touched")
	flag.Parse()
	if *dump != "" {
		prog, err := core.Load(core.LoadOptions{RepoDir: *repo})
		if err != nil {
			fmt.Println(err)
			os.Exit(2)
		}
		for _, d := range strings.Split(*dump, ",") {
			parts := strings.Split(d, ":")
			f := prog.Func(parts[0], parts[1], parts[2])
			if f == nil {
				fmt.Println("not found", d)
				continue
			}
			f.WriteTo(os.Stdout)
			for _, a := range f.AnonFuncs {
				a.WriteTo(os.Stdout)
			}
		}
		return
	}
	if *list {
		for _, id := range props.IDs() {
			fmt.Println(id, props.Lookup(id).Title)
		}
		return
	}
	if t := os.Getenv("VERIF_TIER"); t != "" && !isFlagSet("tier") {
		*tier = t
	}
	seed := int64(0)
	if s := os.Getenv("VERIF_SEED"); s != "" {
		seed, _ = strconv.ParseInt(s, 10, 64)
	}
	vdir := *verif
	if vdir == "" {
		if _, err := os.Stat("properties.jsonl"); err == nil {
			vdir, _ = os.Getwd()
		} else if exe, err := os.Executable(); err == nil {
			vdir = filepath.Dir(filepath.Dir(exe))
		}
	}
	var ids []string
	if *prop == "all" {
		ids = props.IDs()
	} else {
		for _, id := range strings.Split(*prop, ",") {
			if id = strings.TrimSpace(id); id != "" {
				ids = append(ids, id)
			}
		}
	}
	if len(ids) == 0 {
		fmt.Println("usage: elacheck -p C05 [-tier quick|thorough]")
		os.Exit(2)
	}
	for _, id := range ids {
		if props.Lookup(id) == nil {
			fmt.Printf("ERROR unknown or unclaimed property %s\n", id)
			os.Exit(2)
		}
	}
	start := time.Now()
	opt := core.LoadOptions{RepoDir: *repo}
	if *overlay != "" {
		opt.Overlay = map[string][]byte{}
		for _, kv := range strings.Split(*overlay, ",") {
			parts := strings.SplitN(kv, "=", 2)
			if len(parts) != 2 {
				fmt.Println("ERROR bad -overlay")
				os.Exit(2)
			}
			b, err := os.ReadFile(parts[1])
			if err != nil {
				fmt.Println("ERROR", err)
				os.Exit(2)
			}
			opt.Overlay[filepath.Join(*repo, parts[0])] = b
		}
	}
	if *patch != "" {
		pb, err := os.ReadFile(*patch)
		if err != nil {
			fmt.Println("ERROR", err)
			os.Exit(2)
		}
		ov, ok := applyDiff(*repo, string(pb))
		if !ok {
			fmt.Println("ERROR patch does not apply to the current tree")
			os.Exit(2)
		}
		if opt.Overlay == nil {
			opt.Overlay = map[string][]byte{}
		}
		for k, v := range ov {
			opt.Overlay[k] = v
		}
	}
	prog, err := core.Load(opt)
	if err != nil {
		// a tree that does not type-check cannot be judged: fail closed
		for _, id := range ids {
			fmt.Printf("ERROR property=%s load failed: %v\n", id, err)
			r := core.NewReport(id, *tier)
			r.Rule("load", "the repository must type-check")
			r.Undecided("load", "packages.Load", "", err.Error())
			r.Finish(vdir, nil, start, seed, strings.Join(os.Args, " "))
		}
		os.Exit(1)
	}
	loadT := time.Since(start)
	exit := 0
	for _, id := range ids {
		t0 := time.Now()
		if len(ids) == 1 {
			t0 = start
		}
		ch := props.Lookup(id)
		r := core.NewReport(id, *tier)
		func() {
			defer func() {
				if e := recover(); e != nil {
					r.Rule("analyser", "the analyser must not panic")
					r.Undecided("analyser", "panic", "", fmt.Sprintf("%v\n%s", e, debug.Stack()))
				}
			}()
			ch.Run(&props.Ctx{P: prog, R: r, Tier: *tier})
		}()
		if *tier == "thorough" && *overlay == "" && *patch == "" {
			selfTest(id, *repo, vdir, *tier, r)
		}
		r.Extra["load_s"] = loadT.Seconds()
		if code := r.Finish(vdir, prog, t0, seed, strings.Join(os.Args, " ")); code > exit {
			exit = code
		}
	}
	os.Exit(exit)
}

func isFlagSet(name string) bool {
	set := false
	flag.Visit(func(f *flag.Flag) {
		if f.Name == name {
			set = true
		}
	})
	return set
}
