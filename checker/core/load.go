// Package core holds the loader, the obligation/report model, known-finding
// matching and the evidence writer shared by all property checks.
package core

import (
	"fmt"
	"go/ast"
	"go/token"
	"go/types"
	"os"
	"path/filepath"
	"sort"
	"strings"
	"sync"

	"golang.org/x/tools/go/callgraph"
	"golang.org/x/tools/go/callgraph/cha"
	"golang.org/x/tools/go/callgraph/vta"
	"golang.org/x/tools/go/packages"
	"golang.org/x/tools/go/ssa"
	"golang.org/x/tools/go/ssa/ssautil"
)

// Mod is the module path of the analysed repository.
const Mod = "github.com/elastos/Elastos.ELA"

// Program is the resolved, type-checked and SSA-built view of /repo's working tree.
type Program struct {
	RepoDir string
	Fset    *token.FileSet
	Pkgs    []*packages.Package          // repo packages (roots)
	ByPath  map[string]*packages.Package // all packages incl. deps
	SSA     *ssa.Program
	SSAPkgs map[string]*ssa.Package

	allFuncsOnce sync.Once
	allFuncs     map[*ssa.Function]bool
	cgOnce       sync.Once
	cg           *callgraph.Graph

	declOnce sync.Once
	decls    map[*types.Func]*ast.FuncDecl
	declPkg  map[*types.Func]*packages.Package
}

// LoadOptions controls loading.
type LoadOptions struct {
	RepoDir string
	Overlay map[string][]byte // absolute path -> content
	Tests   bool
}

// Load type-checks every package of the repository from the working tree and
// builds SSA. Type errors or a too-small package count are hard failures.
func Load(opt LoadOptions) (*Program, error) {
	dir := opt.RepoDir
	if dir == "" {
		dir = "/repo"
	}
	env := []string{}
	for _, e := range os.Environ() {
		if strings.HasPrefix(e, "GOWORK=") || strings.HasPrefix(e, "GOFLAGS=") ||
			strings.HasPrefix(e, "GOPROXY=") || strings.HasPrefix(e, "GOSUMDB=") ||
			strings.HasPrefix(e, "GOTOOLCHAIN=") {
			continue
		}
		env = append(env, e)
	}
	env = append(env, "GOWORK=off", "GOFLAGS=-mod=mod", "GOPROXY=off", "GOSUMDB=off", "GOTOOLCHAIN=local")
	cfg := &packages.Config{
		Mode:    packages.LoadAllSyntax,
		Dir:     dir,
		Env:     env,
		Overlay: opt.Overlay,
		Tests:   opt.Tests,
	}
	pkgs, err := packages.Load(cfg, "./...")
	if err != nil {
		return nil, fmt.Errorf("packages.Load: %w", err)
	}
	p := &Program{RepoDir: dir, ByPath: map[string]*packages.Package{}, SSAPkgs: map[string]*ssa.Package{}}
	nerr := 0
	var firstErr string
	packages.Visit(pkgs, nil, func(pk *packages.Package) {
		p.ByPath[pk.PkgPath] = pk
		for _, e := range pk.Errors {
			nerr++
			if firstErr == "" {
				firstErr = e.Error()
			}
		}
	})
	if nerr > 0 {
		return nil, fmt.Errorf("type-check failed: %d errors, first: %s", nerr, firstErr)
	}
	for _, pk := range pkgs {
		if strings.HasPrefix(pk.PkgPath, Mod) {
			p.Pkgs = append(p.Pkgs, pk)
		}
	}
	if len(p.Pkgs) < 90 {
		return nil, fmt.Errorf("only %d repository packages loaded (expected >= 90)", len(p.Pkgs))
	}
	sort.Slice(p.Pkgs, func(i, j int) bool { return p.Pkgs[i].PkgPath < p.Pkgs[j].PkgPath })
	p.Fset = pkgs[0].Fset
	prog, spkgs := ssautil.AllPackages(pkgs, ssa.InstantiateGenerics)
	prog.Build()
	p.SSA = prog
	for _, sp := range spkgs {
		if sp != nil {
			p.SSAPkgs[sp.Pkg.Path()] = sp
		}
	}
	for _, sp := range prog.AllPackages() {
		if _, ok := p.SSAPkgs[sp.Pkg.Path()]; !ok {
			p.SSAPkgs[sp.Pkg.Path()] = sp
		}
	}
	return p, nil
}

// Pkg returns the repo package with import path Mod+"/"+rel (rel may be "").
func (p *Program) Pkg(rel string) *packages.Package {
	path := Mod
	if rel != "" {
		path = Mod + "/" + rel
	}
	return p.ByPath[path]
}

// AllFuncs returns every SSA function of the program (incl. anonymous ones).
func (p *Program) AllFuncs() map[*ssa.Function]bool {
	p.allFuncsOnce.Do(func() { p.allFuncs = ssautil.AllFunctions(p.SSA) })
	return p.allFuncs
}

// CallGraph returns the VTA call graph seeded with CHA.
func (p *Program) CallGraph() *callgraph.Graph {
	p.cgOnce.Do(func() {
		p.cg = vta.CallGraph(p.AllFuncs(), cha.CallGraph(p.SSA))
	})
	return p.cg
}

// Func resolves "rel/pkg", optional receiver type name, and function name to
// the SSA function. recv "" = package-level function.
func (p *Program) Func(rel, recv, name string) *ssa.Function {
	pk := p.Pkg(rel)
	if pk == nil {
		return nil
	}
	sp := p.SSAPkgs[pk.PkgPath]
	if sp == nil {
		return nil
	}
	if recv == "" {
		return sp.Func(name)
	}
	obj := pk.Types.Scope().Lookup(recv)
	if obj == nil {
		return nil
	}
	tn, ok := obj.(*types.TypeName)
	if !ok {
		return nil
	}
	for _, t := range []types.Type{types.NewPointer(tn.Type()), tn.Type()} {
		ms := p.SSA.MethodSets.MethodSet(t)
		for i := 0; i < ms.Len(); i++ {
			sel := ms.At(i)
			if sel.Obj().Name() == name && sel.Obj().Pkg() == pk.Types {
				// only methods declared directly on recv (not promoted)
				if len(sel.Index()) != 1 {
					continue
				}
				if f := p.SSA.MethodValue(sel); f != nil {
					return f
				}
			}
		}
	}
	return nil
}

// PromotedMethod resolves a method (possibly promoted through embedding) on *recv.
func (p *Program) MethodOf(t types.Type, name string) *ssa.Function {
	for _, tt := range []types.Type{types.NewPointer(t), t} {
		ms := p.SSA.MethodSets.MethodSet(tt)
		for i := 0; i < ms.Len(); i++ {
			sel := ms.At(i)
			if sel.Obj().Name() == name {
				if f := p.SSA.MethodValue(sel); f != nil {
					return f
				}
			}
		}
	}
	return nil
}

// NamedType looks a named type up in a repo package.
func (p *Program) NamedType(rel, name string) *types.Named {
	pk := p.Pkg(rel)
	if pk == nil {
		return nil
	}
	obj := pk.Types.Scope().Lookup(name)
	if obj == nil {
		return nil
	}
	n, _ := obj.Type().(*types.Named)
	return n
}

// Object looks up a package-level object.
func (p *Program) Object(rel, name string) types.Object {
	pk := p.Pkg(rel)
	if pk == nil {
		return nil
	}
	return pk.Types.Scope().Lookup(name)
}

func (p *Program) buildDecls() {
	p.decls = map[*types.Func]*ast.FuncDecl{}
	p.declPkg = map[*types.Func]*packages.Package{}
	for _, pk := range p.Pkgs {
		for _, f := range pk.Syntax {
			for _, d := range f.Decls {
				if fd, ok := d.(*ast.FuncDecl); ok {
					if obj, ok := pk.TypesInfo.Defs[fd.Name].(*types.Func); ok {
						p.decls[obj] = fd
						p.declPkg[obj] = pk
					}
				}
			}
		}
	}
}

// Decl returns the AST declaration and owning package of a repo function.
func (p *Program) Decl(fn *types.Func) (*ast.FuncDecl, *packages.Package) {
	p.declOnce.Do(p.buildDecls)
	if fn == nil {
		return nil, nil
	}
	fn = fn.Origin()
	return p.decls[fn], p.declPkg[fn]
}

// DeclOf resolves rel/recv/name to an AST decl.
func (p *Program) DeclOf(rel, recv, name string) (*ast.FuncDecl, *packages.Package) {
	f := p.Func(rel, recv, name)
	if f == nil {
		return nil, nil
	}
	obj, _ := f.Object().(*types.Func)
	return p.Decl(obj)
}

// Pos renders a position relative to the repo root.
func (p *Program) Pos(pos token.Pos) string {
	if !pos.IsValid() {
		return "?"
	}
	ps := p.Fset.Position(pos)
	rel, err := filepath.Rel(p.RepoDir, ps.Filename)
	if err != nil || strings.HasPrefix(rel, "..") {
		rel = ps.Filename
	}
	return fmt.Sprintf("%s:%d", rel, ps.Line)
}

// IsRepoPkg reports whether the package belongs to the analysed module.
func IsRepoPkg(pk *types.Package) bool {
	return pk != nil && strings.HasPrefix(pk.Path(), Mod)
}

// RelPath strips the module prefix.
func RelPath(path string) string {
	if path == Mod {
		return ""
	}
	return strings.TrimPrefix(path, Mod+"/")
}

// IsTestOrTool says whether a repo-relative package path is outside the node
// binary proper (tests, benchmarks, offline cmd tools).
func IsTestOrTool(rel string) bool {
	return strings.HasPrefix(rel, "test") || strings.HasPrefix(rel, "benchmark") ||
		strings.HasPrefix(rel, "cmd") || strings.HasPrefix(rel, "utils/test")
}

// FuncName renders an SSA function as pkg.(Recv).name relative to the module.
func FuncName(f *ssa.Function) string {
	if f == nil {
		return "<nil>"
	}
	s := f.String()
	s = strings.ReplaceAll(s, Mod+"/", "")
	s = strings.ReplaceAll(s, Mod, "main")
	return s
}
