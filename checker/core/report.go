package core

import (
	"encoding/json"
	"fmt"
	"os"
	"path/filepath"
	"sort"
	"strings"
	"time"
)

// Verdict of one obligation.
type Verdict string

const (
	Discharged Verdict = "discharged"
	Violated   Verdict = "violated"
	Undecided  Verdict = "undecided"
	Info       Verdict = "info" // recorded, never fails
)

// Obligation is one rule instance evaluated on one construct.
type Obligation struct {
	Rule       string  `json:"rule"`
	Key        string  `json:"key"` // rule+construct key, never a line number
	Verdict    Verdict `json:"verdict"`
	Pos        string  `json:"pos,omitempty"`
	Detail     string  `json:"detail,omitempty"`
	Nontrivial bool    `json:"nontrivial,omitempty"` // needed a path/dataflow argument
	Known      bool    `json:"known_finding,omitempty"`
}

// Floor records an instance-count floor of a rule.
type Floor struct {
	Rule  string `json:"rule"`
	Count int    `json:"count"`
	Min   int    `json:"min"`
}

// Report accumulates the obligations of one property check.
type Report struct {
	Prop        string
	Tier        string
	Rules       map[string]string // rule id -> rule text
	ruleOrder   []string
	Obls        []Obligation
	Floors      []Floor
	Funcs       map[string]bool
	Notes       []string
	Assumptions []string
	Extra       map[string]interface{}
	seen        map[string]bool
}

func NewReport(prop, tier string) *Report {
	return &Report{Prop: prop, Tier: tier, Rules: map[string]string{}, Funcs: map[string]bool{},
		Extra: map[string]interface{}{}, seen: map[string]bool{}}
}

// Rule declares a rule and its text (shown in the evidence explanation).
func (r *Report) Rule(id, text string) {
	if _, ok := r.Rules[id]; !ok {
		r.ruleOrder = append(r.ruleOrder, id)
	}
	r.Rules[id] = text
}

func (r *Report) add(o Obligation) {
	k := o.Rule + "|" + o.Key
	if r.seen[k] {
		// keep keys unique: suffix with an ordinal
		for i := 2; ; i++ {
			kk := fmt.Sprintf("%s#%d", o.Key, i)
			if !r.seen[o.Rule+"|"+kk] {
				o.Key = kk
				k = o.Rule + "|" + kk
				break
			}
		}
	}
	r.seen[k] = true
	r.Obls = append(r.Obls, o)
}

// Check adds an obligation that is discharged when ok, violated otherwise.
func (r *Report) Check(rule, key string, ok bool, pos, detail string) bool {
	v := Violated
	if ok {
		v = Discharged
	}
	r.add(Obligation{Rule: rule, Key: key, Verdict: v, Pos: pos, Detail: detail, Nontrivial: true})
	return ok
}

// Exists adds a trivial (lookup-only) obligation.
func (r *Report) Exists(rule, key string, ok bool, pos, detail string) bool {
	v := Violated
	if ok {
		v = Discharged
	}
	r.add(Obligation{Rule: rule, Key: key, Verdict: v, Pos: pos, Detail: detail})
	return ok
}

// Undecided adds an undecided obligation (counts as failure).
func (r *Report) Undecided(rule, key, pos, detail string) {
	r.add(Obligation{Rule: rule, Key: key, Verdict: Undecided, Pos: pos, Detail: detail, Nontrivial: true})
}

// Info records a non-failing observation.
func (r *Report) Info(rule, key, pos, detail string) {
	r.add(Obligation{Rule: rule, Key: key, Verdict: Info, Pos: pos, Detail: detail})
}

// Anchor records resolution of a named anchor; unresolved anchors fail.
func (r *Report) Anchor(name string, ok bool) bool {
	if !ok {
		r.add(Obligation{Rule: "anchor", Key: name, Verdict: Undecided, Detail: "anchor does not resolve in the current tree"})
	} else {
		r.Funcs[name] = true
	}
	return ok
}

// FloorCheck fails the check when fewer than min instances matched.
func (r *Report) FloorCheck(rule string, count, min int) {
	r.Floors = append(r.Floors, Floor{rule, count, min})
	if count < min {
		r.add(Obligation{Rule: "floor", Key: rule, Verdict: Undecided,
			Detail: fmt.Sprintf("rule %s matched %d instances, floor is %d (a rule that matches nothing passes vacuously)", rule, count, min)})
	}
}

func (r *Report) Note(format string, a ...interface{}) {
	r.Notes = append(r.Notes, fmt.Sprintf(format, a...))
}

func (r *Report) Assume(s string) { r.Assumptions = append(r.Assumptions, s) }

// KnownFinding is an entry of known_findings.json.
type KnownFinding struct {
	Property string `json:"property"`
	Rule     string `json:"rule"`
	Key      string `json:"key"`
	What     string `json:"what"`
	Status   string `json:"status"` // "known" | "fixed"
	Commit   string `json:"commit,omitempty"`
}

func LoadKnown(verifDir string) ([]KnownFinding, error) {
	b, err := os.ReadFile(filepath.Join(verifDir, "known_findings.json"))
	if err != nil {
		if os.IsNotExist(err) {
			return nil, nil
		}
		return nil, err
	}
	var doc struct {
		Findings []KnownFinding `json:"findings"`
	}
	if err := json.Unmarshal(b, &doc); err != nil {
		return nil, err
	}
	return doc.Findings, nil
}

// Finish matches known findings, prints result lines, writes evidence and
// returns the exit code.
func (r *Report) Finish(verifDir string, prog *Program, start time.Time, seed int64, cmdline string) int {
	known, err := LoadKnown(verifDir)
	if err != nil {
		fmt.Printf("ERROR property=%s cannot read known_findings.json: %v\n", r.Prop, err)
		return 2
	}
	kmap := map[string]KnownFinding{}
	for _, k := range known {
		if k.Property == r.Prop && k.Status == "known" {
			kmap[k.Rule+"|"+k.Key] = k
		}
	}
	var nDis, nVio, nUnd, nKnown, nInfo, nNontriv int
	var fails []Obligation
	distinct := map[string]bool{}
	for i := range r.Obls {
		o := &r.Obls[i]
		switch o.Verdict {
		case Discharged:
			nDis++
			if os.Getenv("ELACHECK_VERBOSE") == "2" {
				fmt.Printf("OK property=%s rule=%s key=%s at %s: %s\n", r.Prop, o.Rule, o.Key, o.Pos, o.Detail)
			}
		case Info:
			nInfo++
			if os.Getenv("ELACHECK_VERBOSE") != "" {
				fmt.Printf("INFO property=%s rule=%s key=%s at %s: %s\n", r.Prop, o.Rule, o.Key, o.Pos, o.Detail)
			}
			continue
		case Violated, Undecided:
			if k, ok := kmap[o.Rule+"|"+o.Key]; ok {
				o.Known = true
				nKnown++
				fmt.Printf("KNOWN-FINDING: property=%s %s [%s %s]\n", r.Prop, k.What, o.Rule, o.Key)
			} else {
				fails = append(fails, *o)
			}
			if o.Verdict == Violated {
				nVio++
			} else {
				nUnd++
			}
		}
		if o.Nontrivial && !distinct[o.Rule+"|"+o.Key] {
			distinct[o.Rule+"|"+o.Key] = true
			nNontriv++
		}
	}
	replayDir := filepath.Join(verifDir, "evidence", "replay")
	// replay files describe the violations of THIS run: drop those of earlier runs of the property
	if old, err := filepath.Glob(filepath.Join(replayDir, r.Prop+"-*.json")); err == nil {
		for _, f := range old {
			os.Remove(f)
		}
	}
	exit := 0
	if len(fails) > 0 {
		exit = 1
		os.MkdirAll(replayDir, 0o755)
		for i, o := range fails {
			path := filepath.Join(replayDir, fmt.Sprintf("%s-%02d.json", r.Prop, i+1))
			doc := map[string]interface{}{"property": r.Prop, "obligation": o, "rule_text": r.Rules[o.Rule],
				"replay": fmt.Sprintf("./bin/elacheck -p %s -tier %s  # re-evaluates all obligations; look for key %q", r.Prop, r.Tier, o.Key)}
			b, _ := json.MarshalIndent(doc, "", " ")
			os.WriteFile(path, b, 0o644)
			fmt.Printf("%s property=%s rule=%s key=%s at %s: %s\n", strings.ToUpper(string(o.Verdict)), r.Prop, o.Rule, o.Key, o.Pos, o.Detail)
			fmt.Printf("VIOLATION property=%s replay=%s\n", r.Prop, path)
		}
	}

	// evidence
	var expl []string
	for _, id := range r.ruleOrder {
		expl = append(expl, id+": "+r.Rules[id])
	}
	samples := r.samples()
	funcs := make([]string, 0, len(r.Funcs))
	for f := range r.Funcs {
		funcs = append(funcs, f)
	}
	sort.Strings(funcs)
	npk, nfn := 0, 0
	if prog != nil {
		npk = len(prog.Pkgs)
		nfn = len(prog.AllFuncs())
	}
	cov := map[string]interface{}{
		"explanation":            "Static analysis of /repo's working tree (go/packages type-checked program + go/ssa). Rules: " + strings.Join(expl, " || "),
		"obligations":            nDis + nVio + nUnd,
		"discharged":             nDis,
		"violated":               nVio,
		"undecided":              nUnd,
		"known_findings_matched": nKnown,
		"informational":          nInfo,
		"evaluations":            nDis + nVio + nUnd,
		"distinct_nontrivial":    nNontriv,
		"rule":                   "one obligation per (rule, construct) instance found in the current source; non-trivial = verdict required a path, dominance or dataflow argument rather than a lookup",
		"samples":                samples,
		"instance_floors":        r.Floors,
		"functions_analysed":     funcs,
		"packages_loaded":        npk,
		"ssa_functions":          nfn,
		"checker_cmd":            cmdline,
		"trusted_base":           []string{"go/types (go1.23.5)", "golang.org/x/tools v0.29.0 go/packages, go/ssa, callgraph/vta", "elaverif idiom tables (checker/props)"},
		"notes":                  r.Notes,
		"exhaustive":             true,
	}
	for k, v := range r.Extra {
		cov[k] = v
	}
	tier := r.Tier
	if tier != "thorough" {
		tier = "quick"
	}
	ev := map[string]interface{}{
		"property_id": r.Prop,
		"tier":        tier,
		"seed":        seed,
		"level":       "other",
		"coverage":    cov,
		"assumptions": append([]string{"the Go type checker and go/ssa construction are correct", "callees are resolved statically or through VTA; reflection and assembly are not followed"}, r.Assumptions...),
		"wall_s":      time.Since(start).Seconds(),
		"violations":  len(fails),
	}
	os.MkdirAll(filepath.Join(verifDir, "evidence"), 0o755)
	b, _ := json.MarshalIndent(ev, "", " ")
	if err := os.WriteFile(filepath.Join(verifDir, "evidence", r.Prop+".json"), b, 0o644); err != nil {
		fmt.Printf("ERROR property=%s cannot write evidence: %v\n", r.Prop, err)
		return 2
	}
	fmt.Printf("RESULT property=%s tier=%s obligations=%d discharged=%d violated=%d undecided=%d known=%d info=%d exit=%d\n",
		r.Prop, tier, nDis+nVio+nUnd, nDis, nVio, nUnd, nKnown, nInfo, exit)
	return exit
}

func (r *Report) samples() []Obligation {
	// all failing ones, plus up to 3 per rule
	var out []Obligation
	per := map[string]int{}
	for _, o := range r.Obls {
		if o.Verdict == Violated || o.Verdict == Undecided {
			out = append(out, o)
			continue
		}
		if per[o.Rule] < 3 {
			per[o.Rule]++
			out = append(out, o)
		}
	}
	if len(out) > 120 {
		out = out[:120]
	}
	return out
}
