#!/usr/bin/env python3
"""dev helper: run elacheck on an in-memory mutant.
usage: mut.py PROP relfile 'old' 'new' [count]
Replaces the (count-th, default only) occurrence of old by new in /repo/relfile,
passes the result as an overlay; nothing in /repo is touched."""
import sys, subprocess, tempfile, os
prop, rel, old, new = sys.argv[1:5]
src = open('/repo/' + rel).read()
n = src.count(old)
if n == 0:
    print('STALE: pattern not found'); sys.exit(3)
which = int(sys.argv[5]) if len(sys.argv) > 5 else None
if which is None:
    if n != 1:
        print('AMBIGUOUS: %d occurrences' % n); sys.exit(3)
    src = src.replace(old, new)
else:
    idx = -1
    for _ in range(which):
        idx = src.index(old, idx + 1)
    src = src[:idx] + new + src[idx + len(old):]
d = tempfile.mkdtemp(prefix='elamut')
f = os.path.join(d, 'f.go')
open(f, 'w').write(src)
ev = tempfile.mkdtemp(prefix='elamutv')
os.makedirs(ev + '/evidence')
try:
    open(ev + '/known_findings.json', 'w').write(open('/verif/known_findings.json').read())
except FileNotFoundError:
    pass
r = subprocess.run(['/verif/bin/elacheck', '-p', prop, '-verif', ev, '-overlay', rel + '=' + f], capture_output=True, text=True)
print(r.stdout[-3000:], r.stderr[-2000:])
print('exit', r.returncode)
subprocess.run(['rm', '-rf', d, ev])
