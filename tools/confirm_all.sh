#!/bin/bash
# confirm every delivered seed that has not been confirmed yet
for d in $(for i in "$@"; do ls -d /tmp/seed/$i/SEED/* 2>/dev/null; done); do
  [ -f $d/patch.diff ] || continue
  id=$(echo $d | sed -E 's#/tmp/seed/(C[0-9]+)/SEED/([0-9]+)#\1-\2#')
  [ -f /verif/seeded/$id/meta.json ] && continue
  /verif/tools/confirm_seed.sh $d /verif/seeded/$id 2>&1 | tail -1
done
