#!/bin/bash
# usage: try_patch.sh <patch.diff> <PROPS>  — analyse the tree with the patch applied in memory (the repo is not touched)
cd /verif && ./bin/elacheck -p "$2" -patch "$1" | grep -E "^(VIOLATED|UNDECIDED|RESULT|ERROR)" | grep -v "rule=L-external"
