#!/bin/sh
# validates MANIFEST.json and all evidence files against the schemas
python3-vt - <<'PY'
import json,jsonschema,glob
jsonschema.validate(json.load(open('/verif/MANIFEST.json')), json.load(open('/root/.vp/MANIFEST.schema.json')))
s=json.load(open('/root/.vp/EVIDENCE.schema.json'))
n=0
for f in sorted(glob.glob('/verif/evidence/C*.json')):
    jsonschema.validate(json.load(open(f)), s); n+=1
print('manifest ok; evidence files valid:', n)
PY
