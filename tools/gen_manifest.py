#!/usr/bin/env python3
"""Generates /verif/MANIFEST.json from tools/claims.json (claimed checks) and
properties.jsonl (everything not claimed goes to not_applicable with its reason)."""
import json, os, sys
here = os.path.dirname(os.path.abspath(__file__))
root = os.path.dirname(here)
claims = json.load(open(os.path.join(here, 'claims.json')))
props = [json.loads(l) for l in open(os.path.join(root, 'properties.jsonl'))]
ids = [p['id'] for p in props]
checks = []
na = []
for pid in ids:
    c = claims['claimed'].get(pid)
    if c:
        checks.append({
            "property_id": pid,
            "quick_cmd": "./bin/elacheck -p %s -tier quick" % pid,
            "thorough_cmd": "./bin/elacheck -p %s -tier thorough" % pid,
            "evidence_file": "/verif/evidence/%s.json" % pid,
            "replay_cmd_template": "cat {path}; ./bin/elacheck -p %s -tier quick" % pid,
            "engine": "elacheck",
            "level_claimed": {"category": "other", "text": c['text'], "design_ref": "DESIGN.md section 3 " + pid},
            "level_note": c['note'],
            "technique": c['technique'],
        })
    else:
        na.append({"property_id": pid, "reason": claims['not_applicable'].get(pid, "rule not built yet (see DESIGN.md section 3a)")})
m = {
    "version": 1,
    "setup_cmd": "cd checker && env -u GOWORK GOFLAGS=-mod=mod GOPROXY=off GOSUMDB=off GOTOOLCHAIN=local go build -o ../bin/elacheck ./cmd/elacheck",
    "hooks": {
        "guard": "verif",
        "enable": "none needed: static analysis reads the unmodified source; no hook commits exist",
        "baseline_off_cmd": "cd /repo && go test -vet=off -count=1 -timeout 25m ./...",
        "source_commits": [],
        "add_only": True,
    },
    "engines": [{"name": "elacheck", "path": "checker/", "serves_properties": [c['property_id'] for c in checks],
                 "kind_free_text": "custom static analyser over go/packages + go/ssa (+VTA call graph): must-pass-through / edge-guard reachability, taint-to-sink, codec field coverage, do/undo effect pairing, who-may-call, forbidden API, lockset"}],
    "checks": checks,
    "not_applicable": na,
    "notes": "Technique family: static analysis only. Every check inspects /repo's working tree on every run (go/packages LoadAllSyntax), never executes repository code. See DESIGN.md.",
}
json.dump(m, open(os.path.join(root, 'MANIFEST.json'), 'w'), indent=1)
print("claimed", len(checks), "not_applicable", len(na))
