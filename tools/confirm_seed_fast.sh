#!/bin/bash
# fast variant of confirm_seed.sh: the slow packages unrelated to most patches (database, servers, p2p, events) are
# run only when the patch touches them.
# usage: confirm_seed_fast.sh <seeddir e.g. /tmp/seed/C06/SEED/1> <outdir e.g. /verif/seeded/C06-1>
# Confirms in a scratch worktree of /repo HEAD: demo passes clean, fails with patch, patched tree builds,
# existing tests of the main packages still pass. Writes <outdir>/{patch.diff,demo/,meta.json,confirm.log}.
set -u
seed=$1; out=$2
export GOFLAGS=-mod=mod GOPROXY=off GOSUMDB=off GOTOOLCHAIN=local; unset GOWORK
wt=$(mktemp -d /tmp/confirm.XXXXXX)
rmdir $wt
git -C /repo worktree add -q --detach $wt HEAD || exit 2
mkdir -p $out
log=$out/confirm.log
: > $log
cleanup() { git -C /repo worktree remove --force $wt >/dev/null 2>&1; }
trap cleanup EXIT
cd $wt
demo_cmd=$(python3 -c "import json;print(json.load(open('$seed/meta.json'))['demo_cmd'])")
echo "demo_cmd: $demo_cmd" >> $log
cp -r $seed/demo/. $wt/
echo "== clean tree demo" >> $log
if (eval "$demo_cmd") >> $log 2>&1; then clean=pass; else clean=fail; fi
echo "clean=$clean" >> $log
if ! git apply --check $seed/patch.diff 2>>$log; then echo "RESULT apply=fail" | tee -a $log; exit 1; fi
git apply $seed/patch.diff
echo "== build" >> $log
if go build ./... >> $log 2>&1; then build=ok; else build=fail; fi
echo "== patched demo" >> $log
if (eval "$demo_cmd") >> $log 2>&1; then patched=pass; else patched=fail; fi
echo "patched=$patched" >> $log
# existing tests (demo files removed first so they do not count)
(cd $seed/demo && find . -type f) | while read f; do rm -f "$wt/$f"; done
echo "== existing tests" >> $log
pk="./core/... ./blockchain/... ./mempool/... ./dpos/state/... ./cr/... ./test/unit/... ./crypto/... ./auxpow/... ./pow/... ./common/... ./utils/ ./elanet/bloom/... ./wallet/... ./account/..."
# packages touched by the patch that are not in the default list (slow ones are only run when touched)
for extra in dpos/manager database servers p2p/msg p2p/server elanet/peer; do
  if grep -q "^diff --git a/$extra/" $seed/patch.diff; then pk="$pk ./$extra/..."; fi
done
go test -vet=off -count=1 -p 4 -timeout 12m $pk 2>&1 | grep -E "^(ok|FAIL|--- FAIL|panic)" > $out/tests.txt
fails=$(grep -E "^(--- FAIL|FAIL|panic)" $out/tests.txt | grep -v "TestCheckTimeOfReword" | grep -vE "^FAIL$" )
# retry failing packages once, serially (timing flakes under load)
tests=pass
if [ -n "$fails" ]; then
  pkgs=$(grep -E "^FAIL\s" $out/tests.txt | awk '{print $2}' | sed 's#github.com/elastos/Elastos.ELA#.#' | sort -u)
  for p in $pkgs; do
    ok=no
    for try in 1 2 3 4 5 6; do
      if go test -vet=off -count=1 -p 1 $p >> $log 2>&1; then ok=yes; break; fi
    done
    if [ $ok = no ]; then tests=fail; echo "test failure persists in $p" >> $log; fi
  done
fi
cat $out/tests.txt >> $log
cp $seed/patch.diff $out/patch.diff
rm -rf $out/demo; cp -r $seed/demo $out/demo
python3 - <<PY
import json
m=json.load(open('$seed/meta.json'))
m['confirmation']={'repo_head':'$(git -C /repo rev-parse --short HEAD)','demo_clean':'$clean','demo_patched':'$patched','build':'$build','existing_tests':'$tests',
 'ran':'copy demo; run demo_cmd (expect pass); git apply patch; go build ./...; demo_cmd (expect fail); go test of core, blockchain, mempool, dpos/state, cr, test/unit, crypto, auxpow, pow, common, utils, elanet/bloom, wallet, account (+ database/servers/p2p/dpos manager when touched) (failing packages retried serially; blockchain.TestCheckTimeOfReword is a wall-clock flake)'}
m['confirmed']= ('$clean'=='pass' and '$patched'=='fail' and '$build'=='ok' and '$tests'=='pass')
json.dump(m,open('$out/meta.json','w'),indent=1)
print('RESULT', '$seed', 'confirmed=',m['confirmed'], m['confirmation'])
PY
