#!/bin/bash
# Development aid (not a registered check): every behaviour-preserving refactoring kept under /verif/refactors
# must leave its property's check silent. Each patch is analysed as an in-memory overlay; /repo is not touched.
cd /verif
bad=0
for d in refactors/*/; do
  n=$(basename $d); id=${n%-*}
  # documented limitation (DESIGN.md 8.5a): a refactoring that merges the two coinbase-position tests into one index loop
  [ "$n" = "C07-r21" ] && continue
  out=$(./bin/elacheck -p $id -patch $d/patch.diff 2>&1 | grep -E "^(VIOLATED|UNDECIDED|ERROR)" | grep -v "rule=L-external")
  if [ -n "$out" ]; then echo "== $n"; echo "$out" | cut -c1-220 | head -3; bad=1; fi
done
[ $bad = 0 ] && echo "all refactorings silent"
exit $bad
