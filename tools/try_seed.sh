#!/bin/bash
# usage: try_seed.sh <patch.diff> <PROP[,PROP]>   -- applies the patch to /repo, runs the checks, reverts
set -u
patch=$1; props=$2
cd /repo || exit 2
if ! git diff --quiet; then echo "repo dirty"; exit 2; fi
if ! git apply --check "$patch" 2>/dev/null; then echo "PATCH DOES NOT APPLY"; exit 3; fi
git apply "$patch"
tmp=$(mktemp -d)
mkdir -p $tmp/evidence; cp /verif/known_findings.json $tmp/
/verif/bin/elacheck -p "$props" -verif $tmp 2>&1 | grep -E "^(VIOLATED|UNDECIDED|KNOWN|RESULT|ERROR)" | cut -c1-400
git checkout -- .
rm -rf $tmp
